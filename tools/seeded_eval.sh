#!/usr/bin/env bash
# Runs checks against one independently seeded breaking change, in a scratch worktree of /repo
# (never in /repo itself), and records which checks report it.
# usage: tools/seeded_eval.sh <seeded-id> [tier] [check ids...]    (default: the property named in meta.json, quick)
#   env: SEEDS="1 2 3" (default "1"), WT=/tmp/wt-mut (scratch worktree, created on demand, reset for every run)
# Writes /verif/seeded/<id>/result.json: per check and seed the exit code and the violation signatures.
set -u
SID="${1:?seeded id}"; shift
TIER="${1:-quick}"; [ $# -gt 0 ] && shift
DIR="/verif/seeded/$SID"
[ -f "$DIR/patch.diff" ] || { echo "no $DIR/patch.diff"; exit 2; }
PROP=$(python3 -c "import json;print(json.load(open('$DIR/meta.json'))['property'])")
CHECKS=("$@"); [ ${#CHECKS[@]} -eq 0 ] && CHECKS=("$PROP")
WT="${WT:-/tmp/wt-mut}"
SEEDS="${SEEDS:-1}"
if [ ! -d "$WT" ]; then git -C /repo worktree add --detach "$WT" HEAD >/dev/null 2>&1 || { echo "cannot create $WT"; exit 2; }; fi
git -C "$WT" checkout -q --detach "$(git -C /repo rev-parse HEAD)" && git -C "$WT" checkout -q -- . && git -C "$WT" clean -fdq -e target
if ! git -C "$WT" apply "$DIR/patch.diff"; then echo "patch does not apply"; exit 2; fi
H="/tmp/vh-$(basename "$WT")"
OUT="$DIR/result.json"
python3 - "$OUT" "$SID" "$PROP" <<'EOF'
import json,sys,os
out,sid,prop=sys.argv[1:4]
d=json.load(open(out)) if os.path.exists(out) else {"seeded":sid,"property":prop,"runs":[]}
json.dump(d,open(out,"w"),indent=1)
EOF
for C in "${CHECKS[@]}"; do
  for S in $SEEDS; do
    LOG="/tmp/seeded-eval-$SID-$C-$S.log"
    T0=$(date +%s)
    VERIF_SEED=$S timeout 3600 /verif/tools/mutant_run.sh "$WT" "$C" "$TIER" > "$LOG" 2>&1
    RC=$?
    python3 - "$OUT" "$C" "$S" "$TIER" "$RC" "$LOG" "$(( $(date +%s) - T0 ))" "$(git -C /verif rev-parse --short HEAD)" <<'EOF'
import json,sys,re
out,c,s,tier,rc,log,wall,commit=sys.argv[1:9]
txt=open(log,errors="replace").read()
sigs=sorted(set(re.findall(r"^  violation: (.*)$",txt,flags=re.M)))
inc=re.findall(r"^INCONCLUSIVE.*$",txt,flags=re.M)[:3]
d=json.load(open(out))
d["runs"]=[r for r in d["runs"] if not (r["check"]==c and r["seed"]==int(s) and r["tier"]==tier)]
d["runs"].append({"check":c,"seed":int(s),"tier":tier,"exit":int(rc),"caught":int(rc)==1,
                  "signatures":sigs[:12],"inconclusive":inc,"wall_s":int(wall),"verif_commit":commit})
json.dump(d,open(out,"w"),indent=1)
print(f"{d['seeded']} {c} seed={s} {tier}: exit={rc} caught={int(rc)==1} sigs={sigs[:4]} {inc[:1]}")
EOF
  done
done
git -C "$WT" checkout -q -- . && git -C "$WT" clean -fdq -e target

//! C02 - Every index answers exactly from the stored documents.
//! Seeded histories over fixture F (add/update/remove/flush/compact/extension/reconcile/
//! reopen with index create+backfill and index removal, rejected operations mixed in); after
//! EVERY operation the full bidirectional audit (v_db::audit) runs through the public API.
//! The crash-point quantifier of C02 is covered by C01, which runs the same audit on every
//! recovered state.

use anda_db::schema::Fv;
use std::sync::Arc;
use v_db::audit::{AuditCtx, audit};
use v_db::driver::{Driver, GenCfg, Op, Step, gen_op};
use v_db::{Cfg, FDoc, IndexSet, Model, Patch, apply_patch, gen_doc, text_array};
use vcore::manual::{Chooser, DfsChooser, ManualExec, RandChooser, Stuck};
use vcore::recstore::RecStore;
use vcore::run::block_on;
use vcore::{Rng, Run, Stats, json};

// ---------------------------------------------------------------------------------------------
// pairs: the quiescent point AFTER two overlapping calls on one live handle. Two calls whose
// outcome does not depend on their order (update of document 1 against its removal; two updates
// of document 1 over disjoint fields; a fresh add against the removal of another document; any of
// them against a flush) are interleaved at every backend call - and, in half of the cases, also
// between the response of a backend read and what the call does with it - under DFS within a
// budget, random beyond. When both have returned every index must agree with the stored
// documents (the audit against the model resolved from the two results).

#[derive(Clone, Debug)]
enum POp {
    Update(u64, Patch),
    Remove(u64),
    Add(FDoc),
    Flush,
}

#[derive(Debug)]
enum PRes {
    Updated,
    Removed(bool),
    Added(u64),
    Flushed,
    Err(String),
}

struct PairCase {
    cfg: Cfg,
    set: IndexSet,
    initial: Vec<FDoc>,
    ops: Vec<POp>,
    post_reads: bool,
    shape: &'static str,
}

fn gen_pair(case: u64, rng: &mut Rng) -> PairCase {
    let cfg = Cfg { cache: rng.bool(), compress: *rng.pick(&[0, 3]), bucket: *rng.pick(&[64usize, 1 << 20]) };
    let set = if rng.chance(2, 3) { IndexSet::ALL } else { IndexSet(rng.below(512) as u16) };
    let mut initial = vec![];
    for i in 0..3 {
        let mut d = gen_doc(rng, 1 << 40);
        d.uname = format!("init{i}");
        d.codes = vec![format!("ci{i}")];
        d.grp = "gi".into();
        d.slot = i as u64;
        initial.push(d);
    }
    // every indexed field of document 1 moves
    let moved = gen_doc(rng, 1 << 40);
    let mut all = Patch::new();
    all.insert("uname".into(), Fv::Text("moved".into()));
    all.insert("age".into(), Fv::U64(77_777));
    all.insert("tags".into(), text_array(&["tmoved".to_string()]));
    all.insert("codes".into(), text_array(&["cmoved".to_string(), "cmoved2".to_string()]));
    all.insert("body".into(), Fv::Text(moved.body.clone()));
    all.insert("embedding".into(), Fv::Vector(moved.embedding.clone()));
    all.insert("grp".into(), Fv::Text("gmoved".into()));
    let mut left = Patch::new();
    left.insert("uname".into(), Fv::Text("moved".into()));
    left.insert("age".into(), Fv::U64(77_777));
    left.insert("body".into(), Fv::Text(moved.body.clone()));
    let mut right = Patch::new();
    right.insert("codes".into(), text_array(&["cmoved".to_string()]));
    right.insert("tags".into(), text_array(&["tmoved".to_string()]));
    right.insert("grp".into(), Fv::Text("gmoved".into()));
    right.insert("embedding".into(), Fv::Vector(moved.embedding.clone()));
    let mut fresh = gen_doc(rng, 1 << 40);
    fresh.uname = "fresh".into();
    fresh.codes = vec!["cfresh".into()];
    fresh.grp = "gfresh".into();
    let (shape, ops) = match case % 5 {
        0 => ("update|remove", vec![POp::Update(1, all), POp::Remove(1)]),
        1 => ("remove|update", vec![POp::Remove(1), POp::Update(1, all)]),
        2 => ("update|update(disjoint)", vec![POp::Update(1, left), POp::Update(1, right)]),
        3 => ("add|remove(other)", vec![POp::Add(fresh), POp::Remove(2)]),
        _ => ("update|remove|flush", vec![POp::Update(1, all), POp::Remove(1), POp::Flush]),
    };
    PairCase { cfg, set, initial, ops, post_reads: rng.bool(), shape }
}

async fn run_pair(pc: &PairCase, chooser: &mut dyn Chooser, st: &mut Stats) -> Option<Vec<usize>> {
    let store = RecStore::new();
    store.set_record_reads(false);
    let mut d = match Driver::start(Arc::new(store.clone()), pc.cfg, pc.set).await {
        Ok(d) => d,
        Err(e) => {
            st.violation("C02/pairs/setup_failed", json!(format!("{e:?}")));
            return None;
        }
    };
    for doc in &pc.initial {
        if !matches!(d.step(&Op::Add(doc.clone()), st).await, Step::Applied) {
            st.inconclusive("harness: initial document rejected (pairs)");
            return None;
        }
    }
    let _ = d.step(&Op::Flush, st).await;
    store.set_gate(true);
    store.set_gate_after_reads(pc.post_reads);
    let coll = d.coll.clone();
    let mut ex: ManualExec<'_, PRes> = ManualExec::new();
    for op in &pc.ops {
        let (coll, op) = (coll.clone(), op.clone());
        ex.spawn(async move {
            match op {
                POp::Update(id, p) => coll.update(id, p).await.map(|_| PRes::Updated).unwrap_or_else(|e| PRes::Err(format!("{e:?}"))),
                POp::Remove(id) => coll.remove(id).await.map(|r| PRes::Removed(r.is_some())).unwrap_or_else(|e| PRes::Err(format!("{e:?}"))),
                POp::Add(doc) => coll.add_from(&doc).await.map(PRes::Added).unwrap_or_else(|e| PRes::Err(format!("{e:?}"))),
                POp::Flush => coll.flush(anda_db::unix_ms()).await.map(|_| PRes::Flushed).unwrap_or_else(|e| PRes::Err(format!("{e:?}"))),
            }
        });
    }
    let r = ex.run(chooser, 6000, |_, _, _| {});
    store.set_gate(false);
    store.set_gate_after_reads(false);
    let trace = ex.trace.clone();
    let describe: Vec<String> = (0..pc.ops.len()).map(|i| format!("{} -> {:?}", brief(&pc.ops[i]), ex.result(i))).collect();
    match r {
        Ok(()) => {}
        Err(Stuck::Deadlock(t)) => {
            st.violation("C02/pairs/deadlock", json!({"blocked_tasks": t, "schedule": trace, "ops": describe, "shape": pc.shape}));
            return None;
        }
        Err(Stuck::StepCap) => {
            st.inconclusive("C02 pairs: step cap reached");
            return None;
        }
    }
    // the model follows the results; the pairs are built so that the results determine it
    let mut model: Model = d.model.clone();
    let mut removed = vec![];
    for (i, op) in pc.ops.iter().enumerate() {
        match (op, ex.result(i).unwrap()) {
            (POp::Update(id, p), PRes::Updated) => {
                if let Some(cur) = model.docs.get(id) {
                    let n = apply_patch(cur, p).unwrap();
                    model.docs.insert(*id, n);
                }
            }
            // the update lost the document to the removal
            (POp::Update(..), PRes::Err(e)) if e.contains("NotFound") || e.contains("not found") => st.count("pairs_update_after_remove"),
            (POp::Remove(id), PRes::Removed(true)) => removed.push(*id),
            (POp::Add(doc), PRes::Added(id)) => {
                let mut n = doc.clone();
                n._id = *id;
                model.docs.insert(*id, n);
            }
            (POp::Flush, PRes::Flushed) => {}
            (_, res) => {
                st.violation("C02/pairs/unexpected_result", json!({"result": format!("{res:?}"), "schedule": trace, "ops": describe, "shape": pc.shape}));
                return None;
            }
        }
    }
    for id in removed {
        model.docs.remove(&id);
    }
    drop(ex);
    st.count("pairs_schedules");
    st.count(&format!("pairs_shape:{}", pc.shape));
    if pc.post_reads {
        st.count("pairs_schedules_with_post_read_parking");
    }
    let ctx = || json!({"monitor": "pairs", "shape": pc.shape, "schedule": trace, "ops": describe, "cfg": format!("{:?}", pc.cfg), "post_reads": pc.post_reads});
    if !audit(&coll, &model, pc.set, st, &AuditCtx { sig: "C02/pairs/quiescent", ctx: &ctx }).await {
        return None;
    }
    Some(trace)
}

fn brief(op: &POp) -> String {
    match op {
        POp::Update(id, p) => format!("update({id},{:?})", p.keys().collect::<Vec<_>>()),
        POp::Remove(id) => format!("remove({id})"),
        POp::Add(d) => format!("add(uname={})", d.uname),
        POp::Flush => "flush".into(),
    }
}

fn pair_case(case: u64, rng: &mut Rng, st: &mut Stats, budget: u64) {
    let pc = gen_pair(case, rng);
    block_on(async {
        let mut dfs = DfsChooser::new();
        let mut runs = 0u64;
        let mut exhausted = false;
        loop {
            dfs.begin_run();
            let Some(trace) = run_pair(&pc, &mut dfs, st).await else { return };
            runs += 1;
            st.eval();
            st.set("pairs_distinct_schedules", vcore::hash_debug(&trace) ^ case.wrapping_mul(0x9e3779b97f4a7c15));
            if !dfs.next_run() {
                exhausted = true;
                break;
            }
            if runs >= budget {
                break;
            }
        }
        st.count(if exhausted { "pairs_schedule_spaces_exhausted" } else { "pairs_schedule_spaces_truncated" });
        if !exhausted {
            let mut rc = RandChooser(rng.fork());
            for _ in 0..budget / 2 {
                let Some(trace) = run_pair(&pc, &mut rc, st).await else { return };
                st.eval();
                st.set("pairs_distinct_schedules", vcore::hash_debug(&trace) ^ case.wrapping_mul(0x9e3779b97f4a7c15));
            }
        }
    });
}

fn case(case: u64, rng: &mut Rng, st: &mut Stats, n_ops: usize) {
    let cfg = Cfg::random(rng);
    let contention = *rng.pick(&[4u64, 8, 12, 30]);
    let set0 = if rng.chance(3, 4) { IndexSet::ALL } else { IndexSet(rng.below(512) as u16) };
    let store = RecStore::new();
    store.set_record_reads(false);
    block_on(async {
        let mut d = match Driver::start(Arc::new(store.clone()), cfg, set0).await {
            Ok(d) => d,
            Err(e) => {
                st.violation("C02/setup_failed", json!({"error": format!("{e:?}"), "cfg": format!("{cfg:?}")}));
                return;
            }
        };
        let g = GenCfg { contention, ..Default::default() };
        let mut kinds = std::collections::BTreeSet::new();
        let mut rejected = 0;
        let mut audits_after_reject = 0;
        for _ in 0..n_ops {
            let op = gen_op(rng, &d.model, d.set, &g);
            kinds.insert(op.kind());
            let step = d.step(&op, st).await;
            match step {
                Step::Applied => {}
                Step::Rejected(_) => {
                    rejected += 1;
                    audits_after_reject += 1;
                }
                Step::Failed(e) => {
                    st.violation("C02/storage_error_without_fault", json!({"error": e, "context": d.ctx()}));
                    return;
                }
                Step::Wrong(sig, detail) => {
                    st.violation(format!("C02/{sig}"), json!({"detail": detail, "case": case, "context": d.ctx()}));
                    return;
                }
            }
            if matches!(op, Op::Reopen(_)) {
                st.count("audits_after_reopen");
            }
            let ctx = d.ctx();
            let ok = audit(&d.coll, &d.model, d.set, st, &AuditCtx { sig: "C02", ctx: &|| json!({"case": case, "driver": ctx.clone()}) }).await;
            if !ok {
                return;
            }
            if let Some(m) = d.ext_mismatch() {
                st.violation("C02/extension_mismatch", json!({"detail": m, "context": d.ctx()}));
                return;
            }
            st.eval();
        }
        st.add("audits_after_rejected_op", audits_after_reject);
        let has = |k: &str| kinds.contains(k);
        if has("update") && has("remove") && has("reopen") && rejected > 0 {
            st.distinct(vcore::fnv_str(&d.history.join(";")));
        }
        st.set("index_sets", d.set.0 as u64);
        st.sample(|| json!({"cfg": format!("{cfg:?}"), "contention": contention, "ops": d.history.iter().take(10).collect::<Vec<_>>(),
                            "final_docs": d.model.docs.len()}));
    });
}

fn main() {
    // tasks are polled by hand in this binary: see vcore::run::use_plain_block_on
    vcore::run::use_plain_block_on();
    let mut run = Run::from_args(
        "C02",
        "exploration",
        "seeded operation histories (25-40 ops) over fixture F; one evaluation = one operation followed by the \
         full index<->document audit; a history is non-trivial when it contains an update, a remove, a rejected \
         operation and a reopen; distinct by operation sequence",
    );
    run.assume("HNSW reachability of every live vector is statistical and is counted, not asserted; soundness (only live ids that carry a vector, one entry per such document) is asserted");
    run.assume("expected index content is derived from the model with the documented rules: Null skipped, arrays and map keys expanded, composite key = canonical CBOR of Some(field) concatenated");
    let t = run.tier;
    if run.wants("crash") {
        // "... and after recovery from every crash point of C01": the C01 crash machinery (every
        // prefix of the recorded mutation log, nested crashes inside recovery, failed calls) with
        // this property's audit as the judge of every recovered state
        v_db::crash::set_prefix("C02/crash");
        v_db::crash::set_deadline_in(run.time_left().mul_f64(0.35));
        run.parallel("crash", t.pick(64, 800), 0.3, |c, rng, st| v_db::crash::case(c, rng, st, t));
    }
    if run.wants("pairs") {
        run.parallel("pairs", t.pick(160, 3000), 0.2, |c, rng, st| pair_case(c, rng, st, t.pick(100, 400)));
    }
    if run.wants("histories") {
        run.parallel("histories", t.pick(6000, 400000), 0.95, |c, rng, st| case(c, rng, st, 25 + (c % 16) as usize));
    }
    run.floor("pairs_schedules", 1000);
    run.floor("pairs_schedules_with_post_read_parking", 300);
    for sh in ["update|remove", "remove|update", "update|update(disjoint)", "add|remove(other)", "update|remove|flush"] {
        run.floor(&format!("pairs_shape:{sh}"), 100);
    }
    run.floor("audits", 2000);
    run.floor("recovered_states_audited", 500);
    run.floor("audits_after_rejected_op", 100);
    run.floor("audits_after_reopen", 50);
    run.floor("oracle_btree_eq", 10000);
    run.floor("oracle_bm25_term", 5000);
    run.floor("oracle_hnsw_search", 1000);
    run.floor("op:update", 500);
    run.floor("op:remove", 300);
    run.floor("op:compact_btree", 20);
    run.finish();
}

//! Shared by the Miri companions `c10_miri` / `c11_miri`: the `verif_point!` callback.
//!
//! It is `vcore::sched::hook` (tag log + seeded yields of the calling thread) plus a *window
//! widener* for the compaction rebuild: at the points inside `compact_buckets` that lie between
//! "postings snapshotted" and "bucket map rebuilt" the compacting thread yields until the other
//! threads have passed a few hook points (or a bounded number of yields). On the unchanged tree
//! the other mutators are parked on the mutation gate there, nothing advances and the loop runs
//! out; if the gate does not exclude them, their operations land inside the rebuild window
//! instead of beside it. The progress counter is a `Relaxed` atomic: it creates no
//! happens-before edge, so it cannot hide a data race from Miri.

use std::sync::atomic::{AtomicU64, Ordering};

static PROGRESS: AtomicU64 = AtomicU64::new(0);

pub fn hook(tag: &'static str) {
    let at = PROGRESS.fetch_add(1, Ordering::Relaxed) + 1;
    if tag.contains(".compact.after_") {
        // (under Miri a yield hands out ~100 basic blocks, an index operation is thousands)
        for _ in 0..3000 {
            std::thread::yield_now();
            if PROGRESS.load(Ordering::Relaxed) >= at + 10 {
                break;
            }
        }
    }
    vcore::sched::hook(tag);
}

//! C12 - Vector search is sound, distance-ordered, and keeps its recall floor (anda_db_hnsw).
//! Monitors (DESIGN.md C12):
//!  (1) soundness of every search of every run against the harness's own bf16-rounded copy of the
//!      live vectors (histories of insert / remove / re-insert / flush / reload),
//!  (2) every crash prefix of the recorded `flush_with` + purge write sequence,
//!  (3) the documented recall workloads of tests/recall.rs re-run with many independent
//!      layer-RNG draws, plus interrupted-flush + re-indexing variants,
//!  (4) a concurrent insert/remove/search stress judged against "live at some point of the call".

use anda_db_hnsw::{DistanceMetric, HnswConfig, HnswError, HnswIndex, SelectNeighborsStrategy};
use half::bf16;
use std::cell::{Cell, RefCell};
use std::collections::{BTreeMap, BTreeSet};
use std::sync::Mutex;
use std::sync::atomic::{AtomicU64, Ordering};
use vcore::manual::drive;
use vcore::{Rng, Run, Stats, Value, json};

/// id -> vector as the index stores it (bf16-rounded, widened back to f32)
type Model = BTreeMap<u64, Vec<f32>>;

const METRICS: [DistanceMetric; 4] = [
    DistanceMetric::Euclidean,
    DistanceMetric::Cosine,
    DistanceMetric::InnerProduct,
    DistanceMetric::Manhattan,
];

fn metric_name(m: DistanceMetric) -> &'static str {
    match m {
        DistanceMetric::Euclidean => "euclidean",
        DistanceMetric::Cosine => "cosine",
        DistanceMetric::InnerProduct => "inner_product",
        DistanceMetric::Manhattan => "manhattan",
    }
}

fn strategy_name(s: SelectNeighborsStrategy) -> &'static str {
    match s {
        SelectNeighborsStrategy::Simple => "simple",
        SelectNeighborsStrategy::Heuristic => "heuristic",
    }
}

fn round_bf16(v: &[f32]) -> Vec<f32> {
    v.iter().map(|x| bf16::from_f32(*x).to_f32()).collect()
}

fn to_bf16(v: &[f32]) -> Vec<bf16> {
    v.iter().map(|x| bf16::from_f32(*x)).collect()
}

// ---------------------------------------------------------------------------------------------
// metric oracle (f64, independent of distance.rs). Tolerances fixed before any result was seen:
// 1e-2 relative + 1e-3 absolute, plus for the inner product (the only kernel with cancellation)
// 1e-5 of the sum of |summands| (f32 accumulation over <= 64 terms).

const TOL_REL: f64 = 1e-2;
const TOL_ABS: f64 = 1e-3;
/// above this magnitude an f32 intermediate of the kernel may overflow: metric undefined here
const F32_SAFE: f64 = 1e37;

struct Oracle {
    d: f64,
    tol: f64,
    /// f32 overflow of an intermediate, or a norm at the cosine zero-vector cut-off
    undefined: bool,
}

fn oracle(metric: DistanceMetric, q: &[f32], v: &[f32]) -> Oracle {
    let (mut dot, mut adot, mut nq, mut nv, mut l2, mut l1) = (0f64, 0f64, 0f64, 0f64, 0f64, 0f64);
    for (x, y) in q.iter().zip(v) {
        let (x, y) = (*x as f64, *y as f64);
        dot += x * y;
        adot += (x * y).abs();
        nq += x * x;
        nv += y * y;
        l2 += (x - y) * (x - y);
        l1 += (x - y).abs();
    }
    match metric {
        // distance.rs: sqrt of the sum of squares (root, not squared)
        DistanceMetric::Euclidean => {
            let d = l2.sqrt();
            Oracle { d, tol: TOL_REL * d + TOL_ABS, undefined: l2 > F32_SAFE }
        }
        DistanceMetric::Manhattan => Oracle { d: l1, tol: TOL_REL * l1 + TOL_ABS, undefined: l1 > F32_SAFE },
        // distance.rs: negative dot product
        DistanceMetric::InnerProduct => Oracle {
            d: -dot,
            tol: TOL_REL * dot.abs() + TOL_ABS + 1e-5 * adot,
            undefined: adot > F32_SAFE,
        },
        // distance.rs: 1 - clamp(cos); 1.0 when either norm < f32::EPSILON
        DistanceMetric::Cosine => {
            let eps = f32::EPSILON as f64;
            let (a, b) = (nq.sqrt(), nv.sqrt());
            let near_cut = |n: f64| n > 0.99 * eps && n < 1.01 * eps;
            let undefined = nq > F32_SAFE || nv > F32_SAFE || adot > F32_SAFE || near_cut(a) || near_cut(b);
            let d = if a < eps || b < eps { 1.0 } else { 1.0 - (dot / (a * b)).clamp(-1.0, 1.0) };
            Oracle { d, tol: TOL_REL * d.abs() + TOL_ABS, undefined }
        }
    }
}

// ---------------------------------------------------------------------------------------------
// monitor (1): the per-search judge

struct Tags {
    metric: DistanceMetric,
    strategy: SelectNeighborsStrategy,
}

fn short_vec(v: &[f32]) -> String {
    let head: Vec<String> = v.iter().take(6).map(|x| format!("{x:e}")).collect();
    format!("[{}{}]", head.join(","), if v.len() > 6 { ",.." } else { "" })
}

/// Judges one search result against the harness copy `copy` of what is live NOW. `ever`: ids that
/// were live at some earlier time (only to name the failure). Returns false on a violation.
#[allow(clippy::too_many_arguments)]
fn judge_search(
    res: &Result<Vec<(u64, f32)>, HnswError>,
    q: &[f32],
    k: usize,
    copy: &Model,
    ever: &BTreeSet<u64>,
    tags: &Tags,
    what: &str,
    st: &mut Stats,
    ctx: &dyn Fn() -> Value,
) -> bool {
    st.eval();
    st.count(&format!("search_{}", metric_name(tags.metric)));
    st.count(&format!("search_{}", strategy_name(tags.strategy)));
    st.count(&format!("search_q_{what}"));
    let fail = |st: &mut Stats, sig: &str, d: Value| {
        st.violation(
            format!("C12/search/{sig}"),
            json!({"what": d, "query_kind": what, "query": short_vec(q), "k": k,
                   "metric": metric_name(tags.metric), "result": format!("{res:?}"),
                   "live": copy.keys().collect::<Vec<_>>(), "context": ctx()}),
        );
    };
    let r = match res {
        Ok(r) => r,
        Err(e) => {
            // a finite query of the right dimension on an uncorrupted index (the repo's own tests
            // state that even a concurrent entry-point removal must not surface as an error)
            fail(st, "error_on_valid_query", json!(format!("{e:?}")));
            return false;
        }
    };
    if r.len() > k {
        fail(st, "more_than_k", json!({"len": r.len()}));
        return false;
    }
    if k >= 1 && !copy.is_empty() && r.is_empty() {
        // the entry point is always part of the beam: a live index cannot answer with nothing
        fail(st, "no_result_on_live_index", json!(null));
        return false;
    }
    let mut seen = BTreeSet::new();
    for (id, _) in r {
        if !seen.insert(*id) {
            fail(st, "duplicate_id", json!({"id": id}));
            return false;
        }
        if !copy.contains_key(id) {
            let sig = if ever.contains(id) { "dead_id_returned" } else { "unknown_id_returned" };
            fail(st, sig, json!({"id": id}));
            return false;
        }
    }
    let oracles: Vec<Oracle> = r.iter().map(|(id, _)| oracle(tags.metric, q, &copy[id])).collect();
    if oracles.iter().any(|o| o.undefined) {
        st.count("search_metric_undefined_for_input");
        return true;
    }
    for ((id, d), o) in r.iter().zip(&oracles) {
        if !d.is_finite() {
            fail(st, "non_finite_distance", json!({"id": id, "reported": format!("{d}"), "expected": o.d}));
            return false;
        }
        st.count("oracle_distance_value");
        if (*d as f64 - o.d).abs() > o.tol {
            fail(st, "distance_mismatch", json!({"id": id, "reported": d, "expected": o.d, "tolerance": o.tol,
                "stored_vector": short_vec(&copy[id])}));
            return false;
        }
    }
    for w in r.windows(2) {
        if w[0].1 > w[1].1 {
            fail(st, "not_distance_ordered", json!({"pair": [w[0], w[1]]}));
            return false;
        }
    }
    if r.len() >= 2 {
        st.count("oracle_order_multi");
    }
    true
}

// ---------------------------------------------------------------------------------------------
// generators

#[derive(Clone, Copy, Debug)]
enum VecKind {
    Unit,
    Signed,
    Lattice,
    Clustered,
    Wide,
}

struct Gen {
    dim: usize,
    kind: VecKind,
    centers: Vec<Vec<f32>>,
}

impl Gen {
    fn new(rng: &mut Rng, dim: usize) -> Gen {
        let kind = *rng.pick(&[VecKind::Unit, VecKind::Signed, VecKind::Lattice, VecKind::Clustered, VecKind::Wide]);
        let centers = (0..3).map(|_| (0..dim).map(|_| rng.f32() * 4.0 - 2.0).collect()).collect();
        Gen { dim, kind, centers }
    }

    fn vector(&self, rng: &mut Rng) -> Vec<f32> {
        match self.kind {
            VecKind::Unit => (0..self.dim).map(|_| rng.f32()).collect(),
            VecKind::Signed => (0..self.dim).map(|_| rng.f32() * 2.0 - 1.0).collect(),
            // few distinct points: exact duplicates and exact distance ties
            VecKind::Lattice => (0..self.dim).map(|_| rng.irange(-2, 2) as f32).collect(),
            // noise below the bf16 resolution of the centre: near-duplicates collapse when stored
            VecKind::Clustered => {
                let c = rng.pick(&self.centers).clone();
                c.iter().map(|x| x + (rng.f32() - 0.5) * 2e-2).collect()
            }
            VecKind::Wide => (0..self.dim)
                .map(|_| {
                    let mag = 10f32.powf(rng.f32() * 6.0 - 3.0);
                    if rng.bool() { mag } else { -mag }
                })
                .collect(),
        }
    }

    /// A vector to store: mostly in-distribution; sometimes all-zero, a duplicate of a stored one,
    /// or one of huge (but f32-safe) norm.
    fn stored(&self, rng: &mut Rng, model: &Model) -> Vec<f32> {
        match rng.below(40) {
            0 | 1 => vec![0.0; self.dim],
            2..=4 if !model.is_empty() => {
                let ids: Vec<&u64> = model.keys().collect();
                model[*rng.pick(&ids)].clone()
            }
            5 => self.huge(rng),
            _ => self.vector(rng),
        }
    }

    fn huge(&self, rng: &mut Rng) -> Vec<f32> {
        (0..self.dim).map(|_| (rng.f32() * 2.0 - 1.0) * 1e15).collect()
    }
}

fn gen_cfg(rng: &mut Rng) -> HnswConfig {
    HnswConfig {
        dimension: *rng.pick(&[2usize, 3, 8, 32, 64]),
        max_layers: *rng.pick(&[1u8, 2, 4, 16, 16]),
        max_connections: rng.range(2, 8) as u8,
        ef_construction: *rng.pick(&[1usize, 4, 8, 40]),
        ef_search: *rng.pick(&[1usize, 4, 16, 64, 64]),
        distance_metric: *rng.pick(&METRICS),
        scale_factor: *rng.pick(&[None, None, Some(2.0), Some(0.5)]),
        select_neighbors_strategy: *rng.pick(&[SelectNeighborsStrategy::Simple, SelectNeighborsStrategy::Heuristic]),
        reconnect_on_delete: rng.bool(),
    }
}

fn cfg_json(c: &HnswConfig) -> Value {
    json!({"dimension": c.dimension, "max_layers": c.max_layers, "M": c.max_connections,
           "ef_construction": c.ef_construction, "ef_search": c.ef_search,
           "metric": metric_name(c.distance_metric), "scale_factor": c.scale_factor,
           "strategy": strategy_name(c.select_neighbors_strategy),
           "reconnect_on_delete": c.reconnect_on_delete})
}

fn id_pool(rng: &mut Rng) -> Vec<u64> {
    let n = *rng.pick(&[6u64, 16, 16, 48]);
    // id 0 (the "unset entry point" value), dense small ids, ids beyond 32 bits (second Treemap
    // container) and the extreme
    let mut v: Vec<u64> = (0..n - 2).collect();
    v.push((1 << 32) | 7);
    v.push(u64::MAX);
    v
}

fn dump_graph(idx: &HnswIndex) -> Value {
    let mut ids = idx.node_ids();
    ids.truncate(64);
    let nodes: Vec<Value> = ids
        .iter()
        .map(|id| {
            idx.get_node_with(*id, |n| {
                json!({"id": n.id, "layer": n.layer,
                       "neighbors": n.neighbors.iter().map(|l| l.iter().map(|(i, _)| *i).collect::<Vec<_>>()).collect::<Vec<_>>()})
            })
            .unwrap_or(json!({"id": id, "node": "missing"}))
        })
        .collect();
    json!(nodes)
}

// ---------------------------------------------------------------------------------------------
// persistence through the callback API with a recorded write sequence (as the production wrapper
// rs/anda_db/src/index/hnsw.rs drives it: flush_with(nodes.., ids, metadata) and, only after
// success, purge_removed_nodes)

#[derive(Clone, Debug)]
enum Write {
    Node(u64, Vec<u8>),
    Ids(Vec<u8>),
    Meta(Vec<u8>),
    Delete(u64),
}

#[derive(Clone, Default)]
struct Disk {
    nodes: BTreeMap<u64, Vec<u8>>,
    ids: Option<Vec<u8>>,
    meta: Option<Vec<u8>>,
}

impl Disk {
    fn apply(&mut self, w: &Write) {
        match w {
            Write::Node(id, d) => {
                self.nodes.insert(*id, d.clone());
            }
            Write::Ids(d) => self.ids = Some(d.clone()),
            Write::Meta(d) => self.meta = Some(d.clone()),
            Write::Delete(id) => {
                self.nodes.remove(id);
            }
        }
    }
}

fn describe_write(w: &Write) -> String {
    match w {
        Write::Node(id, d) => format!("node {id} ({}B)", d.len()),
        Write::Ids(d) => format!("ids ({}B)", d.len()),
        Write::Meta(d) => format!("metadata ({}B)", d.len()),
        Write::Delete(id) => format!("delete node {id}"),
    }
}

struct FlushOut {
    result: Result<bool, String>,
    writes: Vec<Write>,
    /// the injected failure actually fired
    fired: bool,
    /// the in-flight hook actually ran
    mid_fired: bool,
}

/// One production-style flush against a recorder. `fail_at`: the i-th write (0-based; nodes, ids,
/// metadata) returns an error instead of being stored. `mid`: (i, hook) - the hook runs when the
/// i-th write is issued (mutations arriving while the flush does its I/O).
fn flush_recorded(idx: &HnswIndex, now: u64, fail_at: Option<usize>, mid: Option<(usize, &dyn Fn())>) -> FlushOut {
    let log = RefCell::new(Vec::<Write>::new());
    let n = Cell::new(0usize);
    let fired = Cell::new(false);
    let mid_fired = Cell::new(false);
    let step = |w: Write| -> bool {
        let i = n.get();
        n.set(i + 1);
        if let Some((at, hook)) = &mid {
            if *at == i {
                mid_fired.set(true);
                hook();
            }
        }
        if fail_at == Some(i) {
            fired.set(true);
            false
        } else {
            log.borrow_mut().push(w);
            true
        }
    };
    let r = drive(idx.flush_with(
        now,
        |id: u64, data: Vec<u8>| {
            let ok = step(Write::Node(id, data));
            async move { if ok { Ok(true) } else { Err("injected node write failure".into()) } }
        },
        |data: Vec<u8>| {
            let ok = step(Write::Ids(data));
            async move { if ok { Ok(()) } else { Err("injected ids write failure".into()) } }
        },
        |data: Vec<u8>| {
            let ok = step(Write::Meta(data));
            async move { if ok { Ok(()) } else { Err("injected metadata write failure".into()) } }
        },
    ));
    let result = match r {
        Err(e) => Err(format!("{e:?}")),
        Ok(saved) => {
            // the wrapper purges only after flush_with returned success
            let p = drive(idx.purge_removed_nodes(async |id: u64| {
                log.borrow_mut().push(Write::Delete(id));
                Ok(true)
            }));
            match p {
                Ok(()) => Ok(saved),
                Err(e) => Err(format!("purge: {e:?}")),
            }
        }
    };
    FlushOut { result, writes: log.into_inner(), fired: fired.get(), mid_fired: mid_fired.get() }
}

fn load(disk: &Disk) -> Result<HnswIndex, String> {
    let (Some(meta), Some(ids)) = (&disk.meta, &disk.ids) else {
        return Err("metadata or ids object absent".into());
    };
    drive(HnswIndex::load_all(&meta[..], &ids[..], async |id: u64| Ok(disk.nodes.get(&id).cloned())))
        .map_err(|e| format!("{e:?}"))
}

fn live_ids_of(model: &BTreeMap<u64, Vec<f32>>) -> Vec<u64> {
    model.keys().copied().collect()
}

/// Sizes of the layer-0 reachability sets {|reach0(s)| : s a stored node}, from the adjacency lists
/// exposed by `get_node_with` (ids without a node are skipped, as `search_layer` does).
fn layer0_reach_sizes(idx: &HnswIndex, ids: &[u64]) -> BTreeSet<usize> {
    let mut adj: BTreeMap<u64, Vec<u64>> = BTreeMap::new();
    for id in ids {
        if let Ok(nb) = idx.get_node_with(*id, |n| n.neighbors.first().map(|l| l.iter().map(|(x, _)| *x).collect::<Vec<u64>>()).unwrap_or_default()) {
            adj.insert(*id, nb);
        }
    }
    let mut out = BTreeSet::new();
    for s in adj.keys() {
        let mut seen: BTreeSet<u64> = BTreeSet::new();
        seen.insert(*s);
        let mut stack = vec![*s];
        while let Some(x) = stack.pop() {
            for y in &adj[&x] {
                if adj.contains_key(y) && seen.insert(*y) {
                    stack.push(*y);
                }
            }
        }
        out.insert(seen.len());
    }
    out
}

fn stored_vector(idx: &HnswIndex, id: u64) -> Option<Vec<f32>> {
    idx.get_node_with(id, |n| n.vector.iter().map(|b| b.to_f32()).collect()).ok()
}

/// New index + what `Hnsw::new` of the wrapper does: persist the empty ids and metadata.
fn create_index(cfg: &HnswConfig) -> Result<(HnswIndex, Disk), String> {
    let idx = HnswIndex::try_new("c12".to_string(), Some(cfg.clone())).map_err(|e| format!("{e:?}"))?;
    let out = flush_recorded(&idx, 1, None, None);
    out.result?;
    let mut disk = Disk::default();
    for w in &out.writes {
        disk.apply(w);
    }
    Ok((idx, disk))
}

// ---------------------------------------------------------------------------------------------
// monitor (1): audit of an index against the harness copy after an operation

/// Extra queries that target what the last operation did.
#[derive(Default)]
struct Focus {
    /// (vector, evidence label)
    queries: Vec<(Vec<f32>, &'static str)>,
}

struct Hist {
    /// a removal happened at some point of this index's life (graph may be legitimately
    /// disconnected when reconnect_on_delete is off)
    had_removal: bool,
}

/// Returns false when a violation was recorded.
#[allow(clippy::too_many_arguments)]
fn audit(
    idx: &HnswIndex,
    model: &Model,
    ever: &BTreeSet<u64>,
    graveyard: &Model,
    cfg: &HnswConfig,
    g: &Gen,
    hist: &Hist,
    focus: &Focus,
    rng: &mut Rng,
    st: &mut Stats,
    light: bool,
    ctx: &dyn Fn() -> Value,
) -> bool {
    let tags = Tags { metric: cfg.distance_metric, strategy: cfg.select_neighbors_strategy };
    let n = model.len();
    // the graph of the audited index is captured only when a violation is reported
    let outer = ctx;
    let ctx = &|| {
        let mut c = outer();
        c["graph_of_audited_index"] = dump_graph(idx);
        c
    };
    // counts
    let (len, ne) = (idx.len(), idx.stats().num_elements);
    st.count("oracle_len");
    if len != n || ne != n as u64 {
        st.violation("C12/len", json!({"len": len, "num_elements": ne, "live": n, "context": ctx()}));
        return false;
    }
    let ids: Vec<u64> = idx.node_ids();
    if !ids.iter().eq(model.keys()) {
        st.violation("C12/node_ids", json!({"node_ids": ids, "live": model.keys().collect::<Vec<_>>(), "context": ctx()}));
        return false;
    }
    // what is stored is what was inserted (bf16-rounded)
    for (id, v) in model {
        st.count("oracle_stored_vector");
        let got = stored_vector(idx, *id);
        if got.as_ref() != Some(v) {
            st.violation("C12/stored_vector", json!({"id": id, "stored": got.map(|v| short_vec(&v)),
                "expected": short_vec(v), "context": ctx()}));
            return false;
        }
    }
    // queries
    let mut queries: Vec<(Vec<f32>, &'static str, Option<u64>)> =
        focus.queries.iter().map(|(v, l)| (v.clone(), *l, None)).collect();
    let live: Vec<u64> = model.keys().copied().collect();
    for _ in 0..if light { 1 } else { 2 } {
        if !live.is_empty() {
            let id = *rng.pick(&live);
            queries.push((model[&id].clone(), "stored", Some(id)));
        }
    }
    if !graveyard.is_empty() {
        let dead: Vec<&u64> = graveyard.keys().collect();
        queries.push((graveyard[*rng.pick(&dead)].clone(), "removed_id_probe", None));
    }
    queries.push((g.vector(rng), "random", None));
    if !light || rng.bool() {
        match rng.below(5) {
            0 | 1 => queries.push((vec![0.0; g.dim], "ood_zero", None)),
            2 | 3 => queries.push((g.huge(rng), "ood_huge_norm", None)),
            // f32 overflow inside the kernel: the metric is undefined there; only the
            // distance-independent clauses are judged
            _ => queries.push(((0..g.dim).map(|_| if rng.bool() { 3.0e38 } else { -3.0e38 }).collect(), "ood_overflow", None)),
        }
    }
    let mut ks: Vec<usize> = vec![1, 2, n, n + 1];
    if rng.chance(1, 8) {
        ks.push(0);
    }
    // a k strictly between ef_search and n: the documented beam width is max(ef_search, top_k)
    if n > cfg.ef_search + 1 {
        ks.push(cfg.ef_search + 1 + rng.usize(n - cfg.ef_search - 1));
    }
    ks.sort_unstable();
    ks.dedup();
    // Result-count law (documented search pipeline: "layer-0 beam search with width
    // max(ef_search, top_k)", then truncate): a beam of width w >= k that starts at node s collects
    // min(w, |reach0(s)|) nodes, so |result| = min(k, |reach0(s)|) for the (unknown) start node s.
    // The admissible set is computed from the layer-0 adjacency read through the public node
    // accessor; ids absent from the node map are skipped exactly as the search skips them.
    let reach_sizes = layer0_reach_sizes(idx, &live_ids_of(model));
    for (q, label, self_id) in &queries {
        for &k in &ks {
            if light && k == 2 {
                continue;
            }
            // both entry points of the API; the bf16 one only for queries it can represent
            let exact_bf16 = round_bf16(q) == *q;
            let res = if exact_bf16 && rng.chance(1, 3) {
                st.count("search_via_bf16_api");
                idx.search(&to_bf16(q), k)
            } else {
                idx.search_f32(q, k)
            };
            if k == 0 {
                st.count("search_k0");
            }
            if !judge_search(&res, q, k, model, ever, &tags, label, st, ctx) {
                return false;
            }
            let Ok(r) = &res else { continue };
            if k <= HnswConfig::MAX_EF_SEARCH && !reach_sizes.is_empty() {
                st.count("oracle_result_count_law");
                if !reach_sizes.iter().any(|rs| r.len() == k.min(*rs)) {
                    st.violation("C12/search/result_count_below_beam_width", json!({"k": k, "returned": r.len(), "ef_search": cfg.ef_search,
                        "live": n, "layer0_reach_sizes_by_start_node": reach_sizes.iter().collect::<Vec<_>>(), "query": label,
                        "law": "|result| = min(k, |nodes reachable on layer 0 from the beam's start node|) because the documented beam width is max(ef_search, top_k)",
                        "context": ctx()}));
                    return false;
                }
                if k > cfg.ef_search && r.len() > cfg.ef_search {
                    st.count("searches_returning_more_than_ef_search");
                }
            }
            // not promised by the property, only measured: with n <= ef the layer-0 beam returns
            // everything reachable from its start node
            if let Some(sid) = self_id {
                if n <= cfg.ef_search.max(k) && k >= n && n > 0 {
                    st.count("complete_probe");
                    if r.len() < n {
                        st.count(if hist.had_removal && !cfg.reconnect_on_delete {
                            "disconnected_after_removal_without_reconnect"
                        } else if hist.had_removal {
                            "disconnected_after_removal_with_reconnect"
                        } else {
                            "disconnected_insert_only"
                        });
                    }
                }
                if k == 1 && n <= cfg.ef_search {
                    st.count("self_probe");
                    let zero_self = match cfg.distance_metric {
                        DistanceMetric::InnerProduct => false,
                        DistanceMetric::Cosine => q.iter().any(|x| *x != 0.0),
                        _ => true,
                    };
                    if zero_self {
                        let hit = r.first().map(|(id, d)| id == sid || d.abs() <= 1e-3).unwrap_or(false);
                        st.count(if hit {
                            "self_hit"
                        } else if hist.had_removal && !cfg.reconnect_on_delete {
                            "self_miss_after_removal_without_reconnect"
                        } else {
                            "self_miss_other"
                        });
                    }
                }
            }
        }
    }
    true
}

// ---------------------------------------------------------------------------------------------
// monitors (1)+(2): sequential histories with flush crash prefixes

#[derive(Clone, Debug)]
enum Op {
    /// (id, raw f32 vector, through the bf16 API)
    Insert(u64, Vec<f32>, bool),
    Remove(u64),
    /// remove + insert of the same id with a new vector
    Reinsert(u64, Vec<f32>),
    /// (id, 0 = NaN component, 1 = infinite component, 2 = wrong dimension)
    InvalidInsert(u64, u8),
    FlushReload,
    FlushKeep,
}

fn op_name(op: &Op) -> String {
    match op {
        Op::Insert(id, v, b) => format!("insert{}({id}, {})", if *b { "_bf16" } else { "_f32" }, short_vec(v)),
        Op::Remove(id) => format!("remove({id})"),
        Op::Reinsert(id, v) => format!("reinsert({id}, {})", short_vec(v)),
        Op::InvalidInsert(id, k) => format!("invalid_insert({id}, kind {k})"),
        Op::FlushReload => "flush+reload".into(),
        Op::FlushKeep => "flush".into(),
    }
}

fn top_layer_id(idx: &HnswIndex, model: &Model) -> Option<u64> {
    model.keys().copied().max_by_key(|id| idx.get_node_with(*id, |n| n.layer).unwrap_or(0))
}

fn gen_op(rng: &mut Rng, pool: &[u64], model: &Model, g: &Gen, idx: &HnswIndex) -> Op {
    let live: Vec<u64> = model.keys().copied().collect();
    let dead: Vec<u64> = pool.iter().copied().filter(|i| !model.contains_key(i)).collect();
    match rng.weighted(&[34, 4, 14, 3, 10, 6, 2, 8, 5]) {
        0 if !dead.is_empty() => Op::Insert(*rng.pick(&dead), g.stored(rng, model), rng.chance(1, 3)),
        1 if !live.is_empty() => Op::Insert(*rng.pick(&live), g.stored(rng, model), false), // duplicate id
        2 if !live.is_empty() => Op::Remove(*rng.pick(&live)),
        3 if !dead.is_empty() => Op::Remove(*rng.pick(&dead)), // missing id
        4 if !live.is_empty() => Op::Reinsert(*rng.pick(&live), g.stored(rng, model)),
        // the node on the highest layer: usually the entry point
        5 if !live.is_empty() => Op::Remove(top_layer_id(idx, model).unwrap()),
        6 => Op::InvalidInsert(*rng.pick(pool), rng.below(3) as u8),
        7 => Op::FlushReload,
        8 => Op::FlushKeep,
        _ if !dead.is_empty() => Op::Insert(*rng.pick(&dead), g.stored(rng, model), false),
        _ => Op::Remove(*rng.pick(&live)),
    }
}

fn do_insert(idx: &HnswIndex, id: u64, v: &[f32], via_bf16: bool, now: u64) -> Result<(), HnswError> {
    if via_bf16 { idx.insert(id, to_bf16(v), now) } else { idx.insert_f32(id, v.to_vec(), now) }
}

struct SeqState {
    cfg: HnswConfig,
    pool: Vec<u64>,
    g: Gen,
    idx: HnswIndex,
    model: Model,
    disk: Disk,
    /// model at the last committed flush (metadata write landed)
    committed: Model,
    /// ids inserted or removed since that commit
    touched: BTreeSet<u64>,
    ever: BTreeSet<u64>,
    /// last vector of ids that are dead now
    graveyard: Model,
    hist: Hist,
    now: u64,
}

/// What a crash state may / must contain.
struct Expect<'a> {
    /// a loaded id must carry the vector it has in one of these
    versions: Vec<&'a Model>,
    /// ids that must be present with exactly this vector
    must: Model,
    /// Some((m, may_miss)): the loaded content is exactly m, except that ids of may_miss may be absent
    exact: Option<(&'a Model, BTreeSet<u64>)>,
    after_commit: bool,
}

/// Checks one crash state. Returns the loaded index when everything held.
fn check_crash_state(
    s: &SeqState,
    d: &Disk,
    ex: &Expect,
    rng: &mut Rng,
    st: &mut Stats,
    ctx: &dyn Fn() -> Value,
) -> Option<HnswIndex> {
    let fail = |st: &mut Stats, sig: &str, v: Value| {
        st.violation(format!("C12/crash_prefix/{sig}"), json!({"what": v, "after_commit": ex.after_commit, "context": ctx()}));
    };
    let loaded = match load(d) {
        Ok(i) => i,
        Err(e) => {
            fail(st, "load_error", json!(e));
            return None;
        }
    };
    let ids: Vec<u64> = loaded.node_ids();
    if loaded.len() != ids.len() || loaded.stats().num_elements != ids.len() as u64 {
        fail(st, "len", json!({"len": loaded.len(), "num_elements": loaded.stats().num_elements, "node_ids": ids}));
        return None;
    }
    let mut copy = Model::new();
    for id in &ids {
        // every id the loaded index claims has a decodable node ...
        let Some(v) = stored_vector(&loaded, *id) else {
            fail(st, "id_without_node", json!({"id": id}));
            return None;
        };
        // ... that is neither a resurrected id (removal committed by an earlier completed flush,
        // never re-inserted) nor an unknown one ...
        if !ex.versions.iter().any(|m| m.contains_key(id)) {
            let sig = if s.ever.contains(id) { "removed_id_reappears" } else { "unknown_id" };
            fail(st, sig, json!({"id": id}));
            return None;
        }
        // ... and carries a vector this id had at the last commit or has in the flushed snapshot
        if !ex.versions.iter().any(|m| m.get(id) == Some(&v)) {
            fail(st, "vector_of_no_version", json!({"id": id, "loaded": short_vec(&v),
                "versions": ex.versions.iter().map(|m| m.get(id).map(|v| short_vec(v))).collect::<Vec<_>>()}));
            return None;
        }
        copy.insert(*id, v);
    }
    // ids committed earlier and not touched since are still there, unchanged
    for (id, v) in &ex.must {
        if copy.get(id) != Some(v) {
            fail(st, "committed_id_lost", json!({"id": id, "loaded": copy.get(id).map(|v| short_vec(v))}));
            return None;
        }
    }
    // a flush whose commit record landed persisted exactly its snapshot of the live set
    if let Some((m, may_miss)) = &ex.exact {
        let ok = copy.iter().all(|(id, v)| m.get(id) == Some(v))
            && m.keys().all(|id| copy.contains_key(id) || may_miss.contains(id));
        if !ok {
            fail(st, "committed_flush_incomplete", json!({"loaded_ids": ids, "flushed_ids": m.keys().collect::<Vec<_>>(),
                "removed_while_flushing": may_miss}));
            return None;
        }
        if copy.len() < m.len() {
            st.count("crash_state_with_missing_blob_repaired_by_load");
        }
    }
    // soundness of the loaded index against the copy restricted to what it claims; probes aim at
    // ids it does not claim
    let mut focus = Focus::default();
    for (id, v) in s.model.iter().chain(s.committed.iter()).chain(s.graveyard.iter()) {
        if !copy.contains_key(id) && focus.queries.len() < 3 {
            focus.queries.push((v.clone(), "crash_absent_id_probe"));
        }
    }
    let mut ever = s.ever.clone();
    ever.extend(s.model.keys());
    let grave = Model::new();
    if !audit(&loaded, &copy, &ever, &grave, &s.cfg, &s.g, &s.hist, &focus, rng, st, true, ctx) {
        return None;
    }
    Some(loaded)
}

/// "Re-indexing of the unflushed documents": bring a recovered index back to the live set.
fn reindex(loaded: &HnswIndex, model: &Model, now: u64) -> Result<(usize, usize), String> {
    let (mut ins, mut rem) = (0, 0);
    for id in loaded.node_ids() {
        let stale = match model.get(&id) {
            None => true,
            Some(v) => stored_vector(loaded, id).as_ref() != Some(v),
        };
        if stale {
            if !loaded.remove(id, now) {
                return Err(format!("remove({id}) of a claimed id returned false"));
            }
            rem += 1;
        }
    }
    let have: BTreeSet<u64> = loaded.node_ids().into_iter().collect();
    for (id, v) in model {
        if !have.contains(id) {
            loaded.insert_f32(*id, v.clone(), now).map_err(|e| format!("insert({id}): {e:?}"))?;
            ins += 1;
        }
    }
    Ok((ins, rem))
}

/// Mutations performed while a flush is doing its I/O (documented: "Mutations can continue while
/// I/O is in flight, but they cannot leak into this immutable image").
#[derive(Clone, Debug)]
enum MidOp {
    Insert(u64, Vec<f32>),
    Remove(u64),
}

fn gen_mid_ops(s: &SeqState, rng: &mut Rng) -> Vec<MidOp> {
    let mut m = s.model.clone();
    let mut ops = vec![];
    for _ in 0..1 + rng.usize(2) {
        let live: Vec<u64> = m.keys().copied().collect();
        let dead: Vec<u64> = s.pool.iter().copied().filter(|i| !m.contains_key(i)).collect();
        match rng.below(3) {
            0 if !dead.is_empty() => {
                let (id, v) = (*rng.pick(&dead), s.g.stored(rng, &m));
                m.insert(id, round_bf16(&v));
                ops.push(MidOp::Insert(id, v));
            }
            1 if !live.is_empty() => {
                let id = *rng.pick(&live);
                m.remove(&id);
                ops.push(MidOp::Remove(id));
            }
            2 if !live.is_empty() => {
                // re-insert with a new vector
                let (id, v) = (*rng.pick(&live), s.g.stored(rng, &m));
                m.insert(id, round_bf16(&v));
                ops.push(MidOp::Remove(id));
                ops.push(MidOp::Insert(id, v));
            }
            _ => {}
        }
    }
    ops
}

/// The flush operation of a history: optional failed attempt, then the recorded flush with every
/// crash prefix checked. Returns false on a violation.
fn flush_op(s: &mut SeqState, reload: bool, rng: &mut Rng, st: &mut Stats, ctx: &dyn Fn() -> Value) -> bool {
    // (a) a flush attempt whose i-th write fails: what landed stays on disk, the index keeps
    // everything pending and the next flush must commit all of it
    if rng.chance(1, 4) {
        let at = rng.usize(6);
        let out = flush_recorded(&s.idx, s.now, Some(at), None);
        for w in &out.writes {
            s.disk.apply(w);
        }
        if out.fired {
            st.count("flush_failed_injected");
            if out.result.is_ok() {
                st.violation("C12/flush/error_swallowed", json!({"fail_at": at, "context": ctx()}));
                return false;
            }
            let d = s.disk.clone();
            let ex = Expect {
                versions: vec![&s.committed, &s.model],
                must: s.committed.iter().filter(|(id, _)| !s.touched.contains(id)).map(|(i, v)| (*i, v.clone())).collect(),
                exact: None,
                after_commit: false,
            };
            if check_crash_state(s, &d, &ex, rng, st, &|| {
                let mut c = ctx();
                c["after_failed_flush_at_write"] = json!(at);
                c
            })
            .is_none()
            {
                return false;
            }
        } else if out.writes.iter().any(|w| matches!(w, Write::Meta(_))) {
            // fewer writes than the failure index: this was a complete flush
            s.committed = s.model.clone();
            s.touched.clear();
        }
    }
    // (b) the recorded flush; every prefix of its write sequence is a crash state. Without a
    // reload, a third of the flushes have mutations arriving while a write is in flight.
    let before = s.disk.clone();
    let snapshot = s.model.clone();
    let mid_ops = if !reload && rng.chance(1, 3) { gen_mid_ops(s, rng) } else { vec![] };
    let mid_at = rng.usize(4);
    let mid_bad = RefCell::new(Vec::<String>::new());
    let now = s.now;
    let out = {
        let idx = &s.idx;
        let hook = || {
            for op in &mid_ops {
                match op {
                    MidOp::Insert(id, v) => {
                        if let Err(e) = idx.insert_f32(*id, v.clone(), now) {
                            mid_bad.borrow_mut().push(format!("insert({id}) while flushing: {e:?}"));
                        }
                    }
                    MidOp::Remove(id) => {
                        if !idx.remove(*id, now) {
                            mid_bad.borrow_mut().push(format!("remove({id}) while flushing returned false"));
                        }
                    }
                }
            }
        };
        flush_recorded(idx, now, None, if mid_ops.is_empty() { None } else { Some((mid_at, &hook)) })
    };
    if let Err(e) = &out.result {
        st.violation("C12/flush/failed", json!({"error": e, "context": ctx()}));
        return false;
    }
    if let Some(b) = mid_bad.borrow().first() {
        st.violation("C12/return_value/mutation_while_flushing", json!({"what": b, "mid_ops": format!("{mid_ops:?}"), "context": ctx()}));
        return false;
    }
    let mut touched_mid = BTreeSet::new();
    let mut removed_mid = BTreeSet::new();
    if out.mid_fired {
        st.count("flush_with_mutation_in_flight");
        for op in &mid_ops {
            match op {
                MidOp::Insert(id, v) => {
                    s.model.insert(*id, round_bf16(v));
                    s.ever.insert(*id);
                    s.graveyard.remove(id);
                    touched_mid.insert(*id);
                }
                MidOp::Remove(id) => {
                    if let Some(v) = s.model.remove(id) {
                        s.graveyard.insert(*id, v);
                    }
                    touched_mid.insert(*id);
                    removed_mid.insert(*id);
                    s.hist.had_removal = true;
                }
            }
        }
    }
    let writes = out.writes;
    let commit_pos = writes.iter().position(|w| matches!(w, Write::Meta(_)));
    // documented durable order: nodes -> ids -> metadata -> deletes (counted as shape evidence)
    st.set("flush_write_shapes", vcore::fnv_str(&writes.iter().map(|w| match w {
        Write::Node(..) => 'n',
        Write::Ids(_) => 'i',
        Write::Meta(_) => 'm',
        Write::Delete(_) => 'd',
    }).collect::<String>()));
    st.count("flushes_recorded");
    st.max("max_flush_writes", writes.len() as u64);
    let must: Model = s
        .committed
        .iter()
        .filter(|(id, _)| !s.touched.contains(id) && !touched_mid.contains(id))
        .map(|(i, v)| (*i, v.clone()))
        .collect();
    for j in 0..=writes.len() {
        let mut d = before.clone();
        for w in &writes[..j] {
            d.apply(w);
        }
        let after_commit = matches!(commit_pos, Some(c) if j > c);
        st.count("flush_crash_prefixes");
        st.count(if after_commit {
            "crash_prefix_after_commit"
        } else if writes[..j].iter().any(|w| matches!(w, Write::Ids(_))) {
            "crash_prefix_between_ids_and_metadata"
        } else if j > 0 {
            "crash_prefix_within_nodes"
        } else {
            "crash_prefix_nothing_written"
        });
        if writes[..j].iter().any(|w| matches!(w, Write::Delete(_))) && j < writes.len() {
            st.count("crash_prefix_within_purge");
        }
        let pctx = || {
            let mut c = ctx();
            c["crash_prefix"] = json!(j);
            c["writes"] = json!(writes.iter().map(describe_write).collect::<Vec<_>>());
            if out.mid_fired {
                c["mutations_while_write_in_flight"] = json!({"at_write": mid_at, "ops": format!("{mid_ops:?}")});
            }
            c
        };
        let ex = Expect {
            versions: vec![&s.committed, &snapshot],
            must: must.clone(),
            exact: after_commit.then(|| (&snapshot, removed_mid.clone())),
            after_commit,
        };
        let Some(loaded) = check_crash_state(s, &d, &ex, rng, st, &pctx) else {
            return false;
        };
        {
            let l: BTreeSet<u64> = loaded.node_ids().into_iter().collect();
            st.count(if l.iter().eq(snapshot.keys()) && l.iter().eq(s.committed.keys()) {
                "crash_idset_old_equals_new"
            } else if l.iter().eq(snapshot.keys()) {
                "crash_idset_new"
            } else if l.iter().eq(s.committed.keys()) {
                "crash_idset_old"
            } else {
                "crash_idset_other"
            });
        }
        // the recovered index keeps working: sweep orphan blobs as the wrapper's bootstrap does,
        // re-index what is missing, audit against the live set, flush completely, reload, compare
        if rng.chance(1, 3) {
            let referenced: BTreeSet<u64> = loaded.node_ids().into_iter().chain(loaded.removed_node_ids()).collect();
            let mut d2 = d.clone();
            let n_before = d2.nodes.len();
            d2.nodes.retain(|id, _| referenced.contains(id));
            st.add("orphan_blobs_swept", (n_before - d2.nodes.len()) as u64);
            match reindex(&loaded, &s.model, s.now + 1) {
                Err(e) => {
                    st.violation("C12/crash_prefix/reindex_failed", json!({"error": e, "context": pctx()}));
                    return false;
                }
                Ok((ins, rem)) => {
                    st.add("reindexed_inserts", ins as u64);
                    st.add("reindexed_removes", rem as u64);
                }
            }
            let mut ever = s.ever.clone();
            ever.extend(s.committed.keys());
            let hist = Hist { had_removal: true };
            if !audit(&loaded, &s.model, &ever, &s.graveyard, &s.cfg, &s.g, &hist, &Focus::default(), rng, st, true, &pctx) {
                return false;
            }
            let out2 = flush_recorded(&loaded, s.now + 2, None, None);
            if let Err(e) = &out2.result {
                st.violation("C12/crash_prefix/flush_after_recovery_failed", json!({"error": e, "context": pctx()}));
                return false;
            }
            for w in &out2.writes {
                d2.apply(w);
            }
            let ex2 = Expect {
                versions: vec![&s.model],
                must: s.model.clone(),
                exact: Some((&s.model, BTreeSet::new())),
                after_commit: true,
            };
            if check_crash_state(s, &d2, &ex2, rng, st, &|| {
                let mut c = pctx();
                c["stage"] = json!("complete flush after recovery + re-indexing");
                c
            })
            .is_none()
            {
                return false;
            }
            st.count("recovered_reindexed_reflushed");
        }
    }
    for w in &writes {
        s.disk.apply(w);
    }
    if commit_pos.is_some() {
        s.committed = snapshot;
        s.touched = touched_mid;
    } else {
        s.touched.extend(touched_mid);
    }
    if reload {
        match load(&s.disk) {
            Ok(i) => s.idx = i,
            Err(e) => {
                st.violation("C12/reload_failed", json!({"error": e, "context": ctx()}));
                return false;
            }
        }
        st.count("reloads");
    }
    true
}

fn seq_case(case: u64, rng: &mut Rng, st: &mut Stats, n_ops: usize) {
    let cfg = gen_cfg(rng);
    let pool = id_pool(rng);
    let g = Gen::new(rng, cfg.dimension);
    let (idx, disk) = match create_index(&cfg) {
        Ok(x) => x,
        Err(e) => {
            st.violation("C12/create_failed", json!({"config": cfg_json(&cfg), "error": e}));
            return;
        }
    };
    let mut s = SeqState {
        cfg: cfg.clone(),
        pool: pool.clone(),
        g,
        idx,
        model: Model::new(),
        disk,
        committed: Model::new(),
        touched: BTreeSet::new(),
        ever: BTreeSet::new(),
        graveyard: Model::new(),
        hist: Hist { had_removal: false },
        now: 10,
    };
    let mut history: Vec<String> = vec![];
    let mut kinds = std::collections::HashSet::new();
    // start half of the cases with a bulk load so that pruning and upper layers are in play
    let bulk = if rng.bool() { pool.len() * 2 / 3 } else { 0 };
    for step in 0..n_ops + bulk {
        let op = if step < bulk {
            let dead: Vec<u64> = pool.iter().copied().filter(|i| !s.model.contains_key(i)).collect();
            Op::Insert(*rng.pick(&dead), s.g.stored(rng, &s.model), false)
        } else {
            gen_op(rng, &pool, &s.model, &s.g, &s.idx)
        };
        s.now += 3;
        history.push(op_name(&op));
        let hist_ctx = history.clone();
        let cfg_ctx = cfg_json(&cfg);
        let kind = format!("{:?}", s.g.kind);
        let ctx = move || {
            json!({"case": case, "config": cfg_ctx, "vector_kind": kind, "history": hist_ctx,
                   "note": "layer draws come from the crate's thread RNG: a replay re-creates the history, not the layers"})
        };
        let mut focus = Focus::default();
        match &op {
            Op::Insert(id, v, via) => {
                let r = do_insert(&s.idx, *id, v, *via, s.now);
                st.count(if s.model.contains_key(id) { "op_insert_duplicate_id" } else { "op_insert" });
                let expect_ok = !s.model.contains_key(id);
                let ok = match &r {
                    Ok(()) => expect_ok,
                    Err(HnswError::AlreadyExists { id: e, .. }) => !expect_ok && e == id,
                    Err(_) => false,
                };
                if !ok {
                    st.violation("C12/return_value/insert", json!({"op": op_name(&op), "got": format!("{r:?}"),
                        "id_was_live": !expect_ok, "context": ctx()}));
                    return;
                }
                if expect_ok {
                    let rv = round_bf16(v);
                    focus.queries.push((rv.clone(), "just_inserted"));
                    s.model.insert(*id, rv);
                    s.ever.insert(*id);
                    s.graveyard.remove(id);
                    s.touched.insert(*id);
                }
            }
            Op::Remove(id) => {
                let r = s.idx.remove(*id, s.now);
                let expect = s.model.contains_key(id);
                st.count(if expect { "op_remove" } else { "op_remove_missing_id" });
                if r != expect {
                    st.violation("C12/return_value/remove", json!({"op": op_name(&op), "got": r, "expected": expect, "context": ctx()}));
                    return;
                }
                if let Some(v) = s.model.remove(id) {
                    focus.queries.push((v.clone(), "removed_id_probe"));
                    s.graveyard.insert(*id, v);
                    s.touched.insert(*id);
                    s.hist.had_removal = true;
                }
            }
            Op::Reinsert(id, v) => {
                st.count("op_reinsert");
                let r1 = s.idx.remove(*id, s.now);
                let r2 = s.idx.insert_f32(*id, v.clone(), s.now + 1);
                if !r1 || r2.is_err() {
                    st.violation("C12/return_value/reinsert", json!({"op": op_name(&op), "remove": r1, "insert": format!("{r2:?}"), "context": ctx()}));
                    return;
                }
                let rv = round_bf16(v);
                let old = s.model.insert(*id, rv.clone()).unwrap();
                focus.queries.push((old, "reinsert_probe_old_vector"));
                focus.queries.push((rv, "reinsert_probe_new_vector"));
                s.touched.insert(*id);
                s.hist.had_removal = true;
            }
            Op::InvalidInsert(id, k) => {
                st.count("op_insert_invalid");
                let mut v = s.g.vector(rng);
                match k {
                    0 => v[0] = f32::NAN,
                    1 => v[0] = f32::INFINITY,
                    _ => v.push(1.0),
                }
                // documented: rejected (Generic / DimensionMismatch); a live id is left untouched
                let r = s.idx.insert_f32(*id, v, s.now);
                if r.is_ok() {
                    st.violation("C12/return_value/invalid_insert_accepted", json!({"op": op_name(&op), "context": ctx()}));
                    return;
                }
                // the matching rejections on the query side
                let mut q = s.g.vector(rng);
                q[0] = f32::NAN;
                if s.idx.search_f32(&q, 3).is_ok() || s.idx.search_f32(&vec![0.5; cfg.dimension + 1], 3).is_ok() {
                    st.violation("C12/search/invalid_query_accepted", json!({"context": ctx()}));
                    return;
                }
                st.count("invalid_query_rejected");
            }
            Op::FlushReload | Op::FlushKeep => {
                st.count(if matches!(op, Op::FlushReload) { "op_flush_reload" } else { "op_flush_keep" });
                if !flush_op(&mut s, matches!(op, Op::FlushReload), rng, st, &ctx) {
                    return;
                }
            }
        }
        kinds.insert(std::mem::discriminant(&op));
        let light = step < bulk && step + 1 != bulk;
        if !audit(&s.idx, &s.model, &s.ever, &s.graveyard, &s.cfg, &s.g, &s.hist, &focus, rng, st, light, &ctx) {
            return;
        }
        st.max("max_live_vectors", s.model.len() as u64);
    }
    st.set("configs", vcore::hash_debug(&cfg_json(&cfg).to_string()));
    st.set("dims_x_metric_x_strategy_x_reconnect", vcore::fnv_str(&format!(
        "{} {} {} {}", cfg.dimension, metric_name(cfg.distance_metric),
        strategy_name(cfg.select_neighbors_strategy), cfg.reconnect_on_delete)));
    if kinds.len() >= 4 {
        st.distinct(vcore::fnv_str(&format!("{}|{}", cfg_json(&cfg), history.join(";"))));
    }
    st.sample(|| json!({"monitor": "sequential+crash_prefixes", "config": cfg_json(&cfg),
        "vector_kind": format!("{:?}", s.g.kind), "ops": history.iter().take(10).collect::<Vec<_>>()}));
}

// ---------------------------------------------------------------------------------------------
// monitor (3): the documented recall workloads of rs/anda_db_hnsw/tests/recall.rs, ported
// verbatim (same generator, seeds, sizes, configs, f32 brute force, epsilon-tolerant recall@10)

struct SplitMix64(u64);

impl SplitMix64 {
    fn next_u64(&mut self) -> u64 {
        self.0 = self.0.wrapping_add(0x9E3779B97F4A7C15);
        let mut z = self.0;
        z = (z ^ (z >> 30)).wrapping_mul(0xBF58476D1CE4E5B9);
        z = (z ^ (z >> 27)).wrapping_mul(0x94D049BB133111EB);
        z ^ (z >> 31)
    }
    fn next_f32(&mut self) -> f32 {
        (self.next_u64() >> 40) as f32 / (1u64 << 24) as f32
    }
    fn next_vector(&mut self, dim: usize) -> Vec<f32> {
        (0..dim).map(|_| bf16::from_f32(self.next_f32()).to_f32()).collect()
    }
}

fn t_distance(metric: DistanceMetric, a: &[f32], b: &[f32]) -> f32 {
    match metric {
        DistanceMetric::Euclidean => a.iter().zip(b).map(|(x, y)| (x - y) * (x - y)).sum::<f32>().sqrt(),
        DistanceMetric::Cosine => {
            let dot: f32 = a.iter().zip(b).map(|(x, y)| x * y).sum();
            let na: f32 = a.iter().map(|x| x * x).sum::<f32>().sqrt();
            let nb: f32 = b.iter().map(|x| x * x).sum::<f32>().sqrt();
            if na < f32::EPSILON || nb < f32::EPSILON { 1.0 } else { 1.0 - dot / (na * nb) }
        }
        DistanceMetric::InnerProduct => -a.iter().zip(b).map(|(x, y)| x * y).sum::<f32>(),
        DistanceMetric::Manhattan => a.iter().zip(b).map(|(x, y)| (x - y).abs()).sum(),
    }
}

fn recall_at_k(metric: DistanceMetric, data: &Model, query: &[f32], results: &[(u64, f32)], k: usize) -> f64 {
    let mut scored: Vec<(u64, f32)> = data.iter().map(|(id, v)| (*id, t_distance(metric, query, v))).collect();
    scored.sort_by(|a, b| a.1.partial_cmp(&b.1).unwrap().then(a.0.cmp(&b.0)));
    scored.truncate(k);
    let kth = scored.last().map(|(_, d)| *d).unwrap_or(0.0);
    let truth: Vec<u64> = scored.into_iter().map(|(id, _)| id).collect();
    let threshold = kth * 1.001 + 1e-6;
    let hits = results
        .iter()
        .take(k)
        .filter(|(id, _)| truth.contains(id) || data.get(id).is_some_and(|v| t_distance(metric, query, v) <= threshold))
        .count();
    hits as f64 / k as f64
}

struct Bench {
    index: HnswIndex,
    data: Model,
    queries: Vec<Vec<f32>>,
    cfg: HnswConfig,
    k: usize,
    /// every id that was ever in `data`
    ever: BTreeSet<u64>,
}

impl Bench {
    fn config(metric: DistanceMetric, dim: usize) -> HnswConfig {
        HnswConfig { dimension: dim, distance_metric: metric, ..Default::default() }
    }

    /// `insert_upto`: only ids 1..=insert_upto are inserted now (the interrupted-flush variants
    /// insert the rest later); data and queries are generated exactly as in the test.
    fn build_with(config: HnswConfig, n: usize, num_queries: usize, seed: u64, insert_upto: usize) -> Bench {
        let dim = config.dimension;
        let index = HnswIndex::new("recall".to_string(), Some(config.clone()));
        let mut rng = SplitMix64(seed);
        let mut data = Model::new();
        for id in 1..=(n as u64) {
            let v = rng.next_vector(dim);
            if id as usize <= insert_upto {
                index.insert_f32(id, v.clone(), id).expect("insert failed");
            }
            data.insert(id, v);
        }
        let queries = (0..num_queries).map(|_| rng.next_vector(dim)).collect();
        let ever = data.keys().copied().collect();
        Bench { index, data, queries, cfg: config, k: 10, ever }
    }

    /// Average and minimum recall@k over all queries; every search also goes through the
    /// soundness judge. None = a violation was recorded.
    fn measure(&self, index: &HnswIndex, st: &mut Stats, wl: &str) -> Option<(f64, f64)> {
        let tags = Tags { metric: self.cfg.distance_metric, strategy: self.cfg.select_neighbors_strategy };
        let mut total = 0.0;
        let mut min: f64 = 1.0;
        for query in &self.queries {
            let res = index.search_f32(query, self.k);
            if !judge_search(&res, query, self.k, &self.data, &self.ever, &tags, "recall_workload", st,
                &|| json!({"monitor": "recall", "workload": wl})) {
                return None;
            }
            let r = recall_at_k(self.cfg.distance_metric, &self.data, query, res.as_ref().unwrap(), self.k);
            total += r;
            min = min.min(r);
        }
        Some((total / self.queries.len() as f64, min))
    }
}

/// One statistic of one draw: `value` must be >= `floor`.
struct Stat {
    name: &'static str,
    value: f64,
    floor: f64,
}

const WORKLOADS: [&str; 9] = [
    "euclidean", "cosine", "deletions", "heavy_deletions", "churn", "round_trip",
    "interrupted_inserts", "interrupted_deletions", "interrupted_churn",
];

/// margin for the interrupted-flush variants (DESIGN C12, fixed there)
const INTERRUPTED_MARGIN: f64 = 0.05;

fn full_flush(idx: &HnswIndex, disk: &mut Disk, now: u64) -> Result<(), String> {
    let out = flush_recorded(idx, now, None, None);
    out.result?;
    for w in &out.writes {
        disk.apply(w);
    }
    Ok(())
}

/// Flush interrupted at a sampled prefix of its write sequence, load what is there.
fn interrupted_flush_and_load(idx: &HnswIndex, disk: &Disk, now: u64, rng: &mut Rng, st: &mut Stats) -> Result<HnswIndex, String> {
    let out = flush_recorded(idx, now, None, None);
    out.result?;
    let w = out.writes;
    let ids_pos = w.iter().position(|x| matches!(x, Write::Ids(_))).unwrap_or(w.len());
    let j = match rng.below(4) {
        0 => ids_pos.saturating_sub(rng.usize(3)),
        1 => (ids_pos + rng.usize(3)).min(w.len()),
        _ => rng.usize(w.len() + 1),
    };
    st.count(if j <= ids_pos {
        "recall_interrupted_before_ids"
    } else if j <= ids_pos + 1 {
        "recall_interrupted_between_ids_and_metadata"
    } else {
        "recall_interrupted_after_commit"
    });
    let mut d = disk.clone();
    for x in &w[..j] {
        d.apply(x);
    }
    load(&d)
}

fn recall_draw(wl: &str, rng: &mut Rng, st: &mut Stats) -> Result<Vec<Stat>, String> {
    use DistanceMetric::*;
    let none = || "soundness violation during the recall workload".to_string();
    let mut out = vec![];
    match wl {
        "euclidean" => {
            let b = Bench::build_with(Bench::config(Euclidean, 32), 1000, 50, 42, usize::MAX);
            let (avg, min) = b.measure(&b.index, st, wl).ok_or_else(none)?;
            out.push(Stat { name: "euclidean.avg", value: avg, floor: 0.95 });
            out.push(Stat { name: "euclidean.min", value: min, floor: 0.60 });
        }
        "cosine" => {
            let b = Bench::build_with(Bench::config(Cosine, 24), 800, 40, 7, usize::MAX);
            let (avg, min) = b.measure(&b.index, st, wl).ok_or_else(none)?;
            out.push(Stat { name: "cosine.avg", value: avg, floor: 0.95 });
            out.push(Stat { name: "cosine.min", value: min, floor: 0.60 });
        }
        "deletions" => {
            let mut b = Bench::build_with(Bench::config(Euclidean, 32), 1000, 50, 99, usize::MAX);
            for id in (1..=1000u64).filter(|id| id % 5 == 0) {
                if !b.index.remove(id, 2_000) {
                    return Err(format!("remove({id}) returned false"));
                }
                b.data.remove(&id);
            }
            let (avg, min) = b.measure(&b.index, st, wl).ok_or_else(none)?;
            out.push(Stat { name: "deletions.avg", value: avg, floor: 0.90 });
            out.push(Stat { name: "deletions.min", value: min, floor: 0.50 });
        }
        "heavy_deletions" => {
            let cfg = HnswConfig {
                dimension: 32,
                distance_metric: Euclidean,
                max_connections: 6,
                ef_construction: 40,
                ef_search: 40,
                reconnect_on_delete: true,
                ..Default::default()
            };
            let mut b = Bench::build_with(cfg, 2000, 50, 4242, usize::MAX);
            let (before, _) = b.measure(&b.index, st, wl).ok_or_else(none)?;
            for id in (1..=2000u64).filter(|id| id % 2 == 0) {
                if !b.index.remove(id, 2_000) {
                    return Err(format!("remove({id}) returned false"));
                }
                b.data.remove(&id);
            }
            let (avg50, min50) = b.measure(&b.index, st, wl).ok_or_else(none)?;
            out.push(Stat { name: "heavy.avg50_minus_before", value: avg50 - before, floor: -0.06 });
            out.push(Stat { name: "heavy.min50", value: min50, floor: 0.50 });
            for id in (1..=2000u64).filter(|id| id % 2 == 1 && id % 5 != 0) {
                if !b.index.remove(id, 3_000) {
                    return Err(format!("remove({id}) returned false"));
                }
                b.data.remove(&id);
            }
            if b.index.len() != b.data.len() {
                return Err(format!("len {} != live {}", b.index.len(), b.data.len()));
            }
            let (avg80, min80) = b.measure(&b.index, st, wl).ok_or_else(none)?;
            out.push(Stat { name: "heavy.avg80_minus_before", value: avg80 - before, floor: -0.08 });
            out.push(Stat { name: "heavy.min80", value: min80, floor: 0.50 });
        }
        "churn" | "interrupted_churn" => {
            let interrupted = wl == "interrupted_churn";
            let mut b = Bench::build_with(Bench::config(Euclidean, 16), 600, 30, 777, usize::MAX);
            let mut vr = SplitMix64(0xC0FFEE);
            let mut disk = Disk::default();
            for round in 0..5u64 {
                if interrupted && round == 4 {
                    full_flush(&b.index, &mut disk, 10_000)?;
                }
                let victims: Vec<u64> = (1..=600u64).filter(|id| (id + round) % 3 == 0).collect();
                for id in &victims {
                    if !b.index.remove(*id, round) {
                        return Err(format!("remove({id}) returned false"));
                    }
                    b.data.remove(id);
                }
                for id in &victims {
                    let v = vr.next_vector(16);
                    b.index.insert_f32(*id, v.clone(), round).map_err(|e| format!("re-insert failed: {e:?}"))?;
                    b.data.insert(*id, v);
                }
            }
            let m = if interrupted { INTERRUPTED_MARGIN } else { 0.0 };
            let (avg, min) = if interrupted {
                let loaded = interrupted_flush_and_load(&b.index, &disk, 20_000, rng, st)?;
                let (i, r) = reindex(&loaded, &b.data, 30_000)?;
                st.add("recall_reindexed_inserts", i as u64);
                st.add("recall_reindexed_removes", r as u64);
                b.measure(&loaded, st, wl).ok_or_else(none)?
            } else {
                b.measure(&b.index, st, wl).ok_or_else(none)?
            };
            out.push(Stat { name: if interrupted { "interrupted_churn.avg" } else { "churn.avg" }, value: avg, floor: 0.93 - m });
            out.push(Stat { name: if interrupted { "interrupted_churn.min" } else { "churn.min" }, value: min, floor: 0.60 - m });
        }
        "round_trip" => {
            let b = Bench::build_with(Bench::config(Euclidean, 16), 600, 30, 1234, usize::MAX);
            let (before, _) = b.measure(&b.index, st, wl).ok_or_else(none)?;
            let mut disk = Disk::default();
            full_flush(&b.index, &mut disk, 5_000)?;
            let reloaded = load(&disk)?;
            if reloaded.len() != b.index.len() {
                return Err(format!("reloaded len {} != {}", reloaded.len(), b.index.len()));
            }
            let (after, _) = b.measure(&reloaded, st, wl).ok_or_else(none)?;
            out.push(Stat { name: "round_trip.avg_after", value: after, floor: 0.95 });
            out.push(Stat { name: "round_trip.neg_abs_change", value: -(before - after).abs(), floor: -0.02 });
        }
        // round_trip workload, but the last 40% of the documents are inserted after the last
        // completed flush and the flush that should persist them is interrupted
        "interrupted_inserts" => {
            let b = Bench::build_with(Bench::config(Euclidean, 16), 600, 30, 1234, 360);
            let mut disk = Disk::default();
            full_flush(&b.index, &mut disk, 5_000)?;
            for id in 361..=600u64 {
                b.index.insert_f32(id, b.data[&id].clone(), id).map_err(|e| format!("{e:?}"))?;
            }
            let loaded = interrupted_flush_and_load(&b.index, &disk, 6_000, rng, st)?;
            let (i, r) = reindex(&loaded, &b.data, 7_000)?;
            st.add("recall_reindexed_inserts", i as u64);
            st.add("recall_reindexed_removes", r as u64);
            let (avg, _) = b.measure(&loaded, st, wl).ok_or_else(none)?;
            out.push(Stat { name: "interrupted_inserts.avg", value: avg, floor: 0.95 - INTERRUPTED_MARGIN });
        }
        // deletions workload, the flush that should persist the deletions is interrupted
        "interrupted_deletions" => {
            let mut b = Bench::build_with(Bench::config(Euclidean, 32), 1000, 50, 99, usize::MAX);
            let mut disk = Disk::default();
            full_flush(&b.index, &mut disk, 1_500)?;
            for id in (1..=1000u64).filter(|id| id % 5 == 0) {
                if !b.index.remove(id, 2_000) {
                    return Err(format!("remove({id}) returned false"));
                }
                b.data.remove(&id);
            }
            let loaded = interrupted_flush_and_load(&b.index, &disk, 3_000, rng, st)?;
            let (i, r) = reindex(&loaded, &b.data, 4_000)?;
            st.add("recall_reindexed_inserts", i as u64);
            st.add("recall_reindexed_removes", r as u64);
            let (avg, min) = b.measure(&loaded, st, wl).ok_or_else(none)?;
            out.push(Stat { name: "interrupted_deletions.avg", value: avg, floor: 0.90 - INTERRUPTED_MARGIN });
            out.push(Stat { name: "interrupted_deletions.min", value: min, floor: 0.50 - INTERRUPTED_MARGIN });
        }
        _ => return Err(format!("unknown workload {wl}")),
    }
    Ok(out)
}

static RECALL_VALUES: Mutex<BTreeMap<&'static str, (f64, Vec<f64>)>> = Mutex::new(BTreeMap::new());

/// One case = `group` independent draws of one workload; the asserted statistic is the mean over
/// the group (group = 1: every draw is asserted on its own).
fn recall_case(wl: &str, group: usize, rng: &mut Rng, st: &mut Stats, assert_floors: bool) {
    let mut sums: BTreeMap<&'static str, (f64, f64, Vec<f64>)> = BTreeMap::new();
    for _ in 0..group {
        match recall_draw(wl, rng, st) {
            Err(e) => {
                if st.violations.is_empty() {
                    st.violation(format!("C12/recall/{wl}/workload_failed"), json!({"error": e}));
                }
                return;
            }
            Ok(stats) => {
                st.count(&format!("recall_draws_{wl}"));
                for s in stats {
                    let e = sums.entry(s.name).or_insert((0.0, s.floor, vec![]));
                    e.0 += s.value;
                    e.2.push(s.value);
                }
            }
        }
    }
    if rng.chance(1, 50) {
        st.sample(|| json!({"monitor": "recall", "workload": wl, "draws_in_statistic": group,
        "statistics": sums.iter().map(|(n, (sum, floor, _))| json!({"name": n, "mean": sum / group as f64, "floor": floor})).collect::<Vec<_>>()}));
    }
    let mut g = RECALL_VALUES.lock().unwrap();
    for (name, (sum, floor, vals)) in sums {
        g.entry(name).or_insert((floor, vec![])).1.extend(&vals);
        let mean = sum / group as f64;
        st.count("oracle_recall_floor");
        if assert_floors && mean < floor - 1e-9 {
            st.violation(
                format!("C12/recall/{name}/below_floor"),
                json!({"workload": wl, "statistic": name, "mean_over_draws": mean, "draws": vals, "floor": floor,
                       "note": "layer draws come from the crate's thread RNG; re-running gives new independent draws"}),
            );
        }
    }
}

fn recall_summary() -> Value {
    let g = RECALL_VALUES.lock().unwrap();
    let mut m = serde_json::Map::new();
    for (name, (floor, vals)) in g.iter() {
        let mut v = vals.clone();
        v.sort_by(|a, b| a.partial_cmp(b).unwrap());
        if v.is_empty() {
            continue;
        }
        let q = |p: f64| v[((v.len() - 1) as f64 * p).round() as usize];
        let mean = v.iter().sum::<f64>() / v.len() as f64;
        m.insert(name.to_string(), json!({"draws": v.len(), "floor": floor, "min": v[0], "p01": q(0.01), "p05": q(0.05),
            "median": q(0.5), "mean": mean, "max": v[v.len() - 1], "below_floor": v.iter().filter(|x| **x < *floor).count()}));
    }
    Value::Object(m)
}

// ---------------------------------------------------------------------------------------------
// monitor (4): concurrent insert / remove / search (std threads). Every id has one fixed vector,
// so the distance clause does not depend on timing; liveness is judged against "live at some
// point between the call and the return of the search".

#[derive(Clone)]
struct WEvent {
    id: u64,
    insert: bool,
    call: u64,
    ret: u64,
}

struct SEvent {
    call: u64,
    ret: u64,
    q: Vec<f32>,
    k: usize,
    res: Result<Vec<(u64, f32)>, HnswError>,
}

fn stress_case(case: u64, rng: &mut Rng, st: &mut Stats, ops_per_writer: usize, searches: usize) {
    let mut cfg = gen_cfg(rng);
    cfg.dimension = *rng.pick(&[2usize, 8, 32]);
    cfg.ef_construction = *rng.pick(&[4usize, 16, 40]);
    cfg.ef_search = *rng.pick(&[4usize, 16, 64]);
    let g = Gen::new(rng, cfg.dimension);
    const N: u64 = 48;
    const PERMANENT: u64 = 6;
    const WRITERS: u64 = 2;
    let mut vecs = Model::new();
    for id in 0..N {
        vecs.insert(id, round_bf16(&g.vector(rng)));
    }
    let idx = HnswIndex::new("c12-stress".into(), Some(cfg.clone()));
    let clock = AtomicU64::new(1);
    let mut wlogs: Vec<Vec<WEvent>> = vec![vec![]; WRITERS as usize];
    for id in 0..N {
        if id < PERMANENT || rng.bool() {
            if idx.insert_f32(id, vecs[&id].clone(), 1).is_err() {
                st.violation("C12/concurrent/prefill_insert_failed", json!({"id": id}));
                return;
            }
            if id >= PERMANENT {
                wlogs[((id - PERMANENT) % WRITERS) as usize].push(WEvent { id, insert: true, call: 0, ret: 0 });
            }
        }
    }
    let mut wrngs: Vec<Rng> = (0..WRITERS).map(|_| rng.fork()).collect();
    let mut srngs: Vec<Rng> = (0..2).map(|_| rng.fork()).collect();
    let mut slogs: Vec<Vec<SEvent>> = vec![];
    let bad_ret = Mutex::new(Vec::<String>::new());
    std::thread::scope(|sc| {
        let mut wh = vec![];
        for (t, (mut wr, mut log)) in wrngs.drain(..).zip(wlogs.drain(..)).enumerate() {
            let (idx, clock, vecs, bad_ret) = (&idx, &clock, &vecs, &bad_ret);
            wh.push(sc.spawn(move || {
                let mine: Vec<u64> = (PERMANENT..N).filter(|id| (id - PERMANENT) % WRITERS == t as u64).collect();
                let mut live: BTreeSet<u64> = log.iter().map(|e| e.id).collect();
                for _ in 0..ops_per_writer {
                    let id = *wr.pick(&mine);
                    let insert = !live.contains(&id);
                    let call = clock.fetch_add(1, Ordering::SeqCst);
                    let ok = if insert { idx.insert_f32(id, vecs[&id].clone(), call).is_ok() } else { idx.remove(id, call) };
                    let ret = clock.fetch_add(1, Ordering::SeqCst);
                    if !ok {
                        bad_ret.lock().unwrap().push(format!("{}({id}) by its only writer failed", if insert { "insert" } else { "remove" }));
                    }
                    if insert { live.insert(id); } else { live.remove(&id); }
                    log.push(WEvent { id, insert, call, ret });
                }
                log
            }));
        }
        let mut sh = vec![];
        for mut sr in srngs.drain(..) {
            let (idx, clock, vecs, g) = (&idx, &clock, &vecs, &g);
            sh.push(sc.spawn(move || {
                let mut log = vec![];
                for _ in 0..searches {
                    let q = if sr.bool() { vecs[&sr.below(N)].clone() } else { g.vector(&mut sr) };
                    let k = *sr.pick(&[1usize, 3, 10, N as usize + 1]);
                    let call = clock.fetch_add(1, Ordering::SeqCst);
                    let res = idx.search_f32(&q, k);
                    let ret = clock.fetch_add(1, Ordering::SeqCst);
                    log.push(SEvent { call, ret, q, k, res });
                }
                log
            }));
        }
        for h in wh {
            wlogs.push(h.join().expect("writer thread"));
        }
        for h in sh {
            slogs.push(h.join().expect("searcher thread"));
        }
    });
    let ctx = || json!({"case": case, "config": cfg_json(&cfg), "monitor": "concurrent"});
    for b in bad_ret.into_inner().unwrap() {
        st.violation("C12/concurrent/return_value", json!({"what": b, "context": ctx()}));
        return;
    }
    // per-id timelines (one writer per id: its events are sequential)
    let mut tl: BTreeMap<u64, Vec<WEvent>> = BTreeMap::new();
    for log in &wlogs {
        for e in log {
            tl.entry(e.id).or_default().push(e.clone());
        }
    }
    let possibly_live = |id: u64, s: u64, e: u64| -> bool {
        if id < PERMANENT {
            return true;
        }
        let Some(evs) = tl.get(&id) else { return false };
        for (i, ev) in evs.iter().enumerate() {
            if ev.insert && ev.call <= e {
                let end = evs.get(i + 1).map(|r| r.ret).unwrap_or(u64::MAX);
                if end >= s {
                    return true;
                }
            }
        }
        false
    };
    let tags = Tags { metric: cfg.distance_metric, strategy: cfg.select_neighbors_strategy };
    let ever: BTreeSet<u64> = vecs.keys().copied().collect();
    let mut overlapped = 0u64;
    for log in &slogs {
        for s in log {
            st.count("concurrent_searches");
            let mut copy = Model::new();
            for id in 0..N {
                if possibly_live(id, s.call, s.ret) {
                    copy.insert(id, vecs[&id].clone());
                }
            }
            if wlogs.iter().flatten().any(|w| w.call < s.ret && w.ret > s.call) {
                overlapped += 1;
            }
            if !judge_search(&s.res, &s.q, s.k, &copy, &ever, &tags, "concurrent", st, &|| {
                let mut c = ctx();
                c["search_interval"] = json!([s.call, s.ret]);
                c
            }) {
                return;
            }
        }
    }
    st.add("concurrent_searches_overlapping_a_mutation", overlapped);
    st.add("concurrent_mutations", wlogs.iter().map(|l| l.len() as u64).sum());
    // quiescent end state against the sequential monitor
    let mut model = Model::new();
    for (id, evs) in &tl {
        if evs.last().map(|e| e.insert).unwrap_or(false) {
            model.insert(*id, vecs[id].clone());
        }
    }
    for id in 0..PERMANENT {
        model.insert(id, vecs[&id].clone());
    }
    let hist = Hist { had_removal: true };
    audit(&idx, &model, &ever, &Model::new(), &cfg, &g, &hist, &Focus::default(), rng, st, false, &ctx);
    st.distinct(vcore::fnv_str(&format!("stress {case} {}", cfg_json(&cfg))));
    if rng.chance(1, 16) {
        st.sample(|| json!({"monitor": "concurrent", "config": cfg_json(&cfg), "writers": WRITERS, "searchers": 2,
        "mutations": wlogs.iter().map(|l| l.len()).sum::<usize>(), "searches": slogs.iter().map(|l| l.len()).sum::<usize>(),
        "searches_overlapping_a_mutation": overlapped}));
    }
}

// ---------------------------------------------------------------------------------------------

fn main() {
    // tasks are polled by hand in this binary: see vcore::run::use_plain_block_on
    vcore::run::use_plain_block_on();
    let mut run = Run::from_args(
        "C12",
        "exploration",
        "seeded insert/remove/re-insert/flush/reload histories over 6..48 ids, all 4 metrics, both neighbour \
         strategies, reconnect on/off, dims {2,3,8,32,64}, M 2..8; a history is non-trivial when it uses >= 4 \
         operation kinds (distinct by config + op sequence); recall draws are independent samples",
    );
    run.assume("node layers come from the crate's unseedable thread RNG (LayerGen::generate): histories are deterministic in the seed, layer draws are independent samples; a replay re-creates the operations, not the layers");
    run.assume("crash model of the callback API: each node/ids/metadata write and each purge delete is atomic, the sequence is interruptible anywhere; flush and purge are serialized by the caller (documented contract)");
    run.assume("distance tolerance fixed up front: 1e-2 relative + 1e-3 absolute (+1e-5 of the sum of |summands| for the inner product); inputs whose f32 kernel intermediates can overflow (> 1e37) are counted as metric-undefined, only the distance-independent clauses are judged there");
    run.assume("completeness / self-hit of a stored vector with n <= ef_search is measured, not asserted (pruning and deletions without reconnect may legitimately disconnect the layer-0 graph)");
    let t = run.tier;
    // `--only measure --arg draws=N`: distribution of the recall statistics on the tree as it is
    if run.only.as_deref() == Some("measure") {
        let draws = run.arg_u64("draws", 200);
        for wl in WORKLOADS {
            run.parallel(&format!("measure_{wl}"), draws, 1.0, |_, rng, st| recall_case(wl, 1, rng, st, false));
        }
        println!("{}", serde_json::to_string_pretty(&recall_summary()).unwrap());
        run.finish();
    }
    if run.wants("recall") {
        let draws = run.arg_u64("draws", t.pick(RECALL_DRAWS_QUICK, RECALL_DRAWS_THOROUGH));
        // one case = one asserted statistic = `group` draws of one workload
        // (interleaved over the workloads, so that a time cut thins all of them evenly)
        let mut plan: Vec<(usize, &str, usize)> = WORKLOADS
            .iter()
            .flat_map(|wl| {
                let g = recall_group(wl);
                (0..(draws as usize).div_ceil(g)).map(move |i| (i * g, *wl, g))
            })
            .collect();
        plan.sort();
        let plan: Vec<(&str, usize)> = plan.into_iter().map(|(_, wl, g)| (wl, g)).collect();
        run.parallel("recall", plan.len() as u64, 0.55, |c, rng, st| {
            let (wl, group) = plan[c as usize];
            recall_case(wl, group, rng, st, true)
        });
        run.set_extra("recall_distribution_this_run", recall_summary());
        run.set_extra("recall_distribution_measured_at_construction", json!(MEASURED_AT_CONSTRUCTION));
    }
    if run.wants("stress") {
        run.parallel("stress", t.pick(48, 600), 0.35, |c, rng, st| stress_case(c, rng, st, t.pick(150, 600), t.pick(150, 600)));
    }
    // last: the history monitor takes whatever budget is left (its floors are far below its yield)
    if run.wants("seq") {
        run.parallel("seq", t.pick(4000, 60000), 0.9, |c, rng, st| seq_case(c, rng, st, 40));
    }
    for m in METRICS {
        run.floor(&format!("search_{}", metric_name(m)), t.pick(20_000, 400_000));
    }
    run.floor("search_simple", t.pick(50_000, 1_000_000));
    run.floor("search_heuristic", t.pick(50_000, 1_000_000));
    run.floor("oracle_result_count_law", 10000);
    run.floor("searches_returning_more_than_ef_search", 1000);
    run.floor("oracle_distance_value", 200_000);
    run.floor("oracle_order_multi", 50_000);
    run.floor("search_q_removed_id_probe", 5_000);
    run.floor("search_q_reinsert_probe_old_vector", 1_000);
    run.floor("search_q_reinsert_probe_new_vector", 1_000);
    run.floor("search_q_ood_zero", 1_000);
    run.floor("search_q_ood_huge_norm", 1_000);
    run.floor("search_q_crash_absent_id_probe", 1_000);
    run.floor("search_via_bf16_api", 1_000);
    run.floor("op_insert_duplicate_id", 200);
    run.floor("op_remove_missing_id", 200);
    run.floor("op_reinsert", 1_000);
    run.floor("flush_crash_prefixes", 5_000);
    run.floor("crash_prefix_within_nodes", 1_000);
    run.floor("crash_prefix_between_ids_and_metadata", 500);
    run.floor("crash_prefix_after_commit", 500);
    run.floor("crash_prefix_within_purge", 100);
    run.floor("flush_with_mutation_in_flight", 200);
    run.floor("crash_state_with_missing_blob_repaired_by_load", 20);
    run.floor("flush_failed_injected", 100);
    run.floor("recovered_reindexed_reflushed", 1_000);
    run.floor("self_probe", 10_000);
    run.floor("disconnected_after_removal_without_reconnect", 1);
    for wl in WORKLOADS {
        run.floor(&format!("recall_draws_{wl}"), t.pick(RECALL_DRAWS_QUICK, RECALL_DRAWS_THOROUGH) * 3 / 4);
    }
    run.floor("concurrent_searches", 1_000);
    run.floor("concurrent_searches_overlapping_a_mutation", 100);
    run.finish();
}

const RECALL_DRAWS_QUICK: u64 = 12;
const RECALL_DRAWS_THOROUGH: u64 = 100;

/// Draws per asserted statistic (1 = every draw asserted on its own); decided from the
/// distribution measured on the unchanged tree, see MEASURED_AT_CONSTRUCTION: only the sparse
/// heavy-deletions workload has a lower tail that touches a documented floor (heavy.min50 = 0.50
/// in 1 of 200 draws, floor 0.50), so its statistics are means over 5 draws.
fn recall_group(wl: &str) -> usize {
    if wl == "heavy_deletions" { 5 } else { 1 }
}

const MEASURED_AT_CONSTRUCTION: &str = "200 independent draws per workload on the unchanged tree (seed 7): \
euclidean/cosine/deletions/churn/round_trip and the three interrupted-flush variants: avg = min = 1.0000 in all 200 draws \
(floors 0.95/0.60, 0.90/0.50, 0.93/0.60, 0.95; variants floor - 0.05); round_trip |before-after| = 0 in all draws; \
heavy_deletions: avg50-before min -0.0060 p01 -0.0020 mean +0.0194 (floor -0.06); min50 min 0.50 p01 0.60 mean 0.692 (floor 0.50); \
avg80-before min +0.038 mean +0.065 (floor -0.08); min80 min 0.70 mean 0.764 (floor 0.50). \
heavy.min50 touches its floor in the lower tail => heavy_deletions is asserted on the mean over 5 draws.";

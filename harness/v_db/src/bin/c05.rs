//! C05 - Concurrent writers serialize: nothing lost, nothing doubled, state converges.
//! Sets of 2-4 concurrent operations (same-document and different-document mixes, stripe-sharing
//! ids, adds, extensions, flush, compaction, reads) over a pre-populated, pre-flushed collection
//! run under controlled schedules: every backend call of every task is a scheduling point
//! (gated RecStore + manual polling; DFS within a budget, random schedules beyond). Oracles:
//!  1. the mutations' return values are explained by a total order that respects real time
//!     (brute-force search over permutations of <= 4 operations against a sequential model);
//!  2. reads that overlap writers return whole documents some call wrote, never older than the
//!     last write that returned before the read was called;
//!  3. once all calls returned, documents, indexes and counts equal the result of that order
//!     (full C02 audit);
//!  4. at the moment a concurrent flush returns the backend is snapshotted; reopening the
//!     snapshot yields the state after the mutations that had returned by then (which must form
//!     a prefix of a valid order) and passes the audit.
//! A multi-threaded stress variant (S-mt) runs larger operation counts on a multi-thread runtime
//! with the same convergence audit.

use anda_db::query::{Filter, RangeQuery};
use anda_db::schema::Fv;
use std::collections::{BTreeMap, BTreeSet};
use std::sync::Arc;
use v_db::audit::{AuditCtx, audit};
use v_db::driver::{Driver, Op, Step};
use v_db::{Cfg, FDoc, IndexSet, Model, Patch, apply_patch, connect, gen_doc, gen_patch, open_coll};
use vcore::manual::{Chooser, DfsChooser, ManualExec, RandChooser, Stuck, drive};
use vcore::recstore::RecStore;
use vcore::run::block_on;
use vcore::{Rng, Run, Stats, Value, json};

#[derive(Clone, Debug)]
enum COp {
    Add(FDoc),
    Update(u64, Patch),
    Remove(u64),
    Get(u64),
    Query(String),
    SaveExt(String, u64),
    RemoveExt(String),
    /// the synchronous setter (`set_extension`): takes no operation lease, lands in memory at
    /// once and is persisted by the next flush / close
    SetExt(String, u64),
    Flush,
    Compact,
}

impl COp {
    fn is_mutation(&self) -> bool {
        matches!(self, COp::Add(_) | COp::Update(..) | COp::Remove(_) | COp::SaveExt(..) | COp::RemoveExt(_) | COp::SetExt(..))
    }
    fn brief(&self) -> String {
        match self {
            COp::Add(d) => format!("add(uname={},codes={:?},grp={},slot={})", d.uname, d.codes, d.grp, d.slot),
            COp::Update(id, p) => format!("update({id},{:?})", p.iter().map(|(k, v)| format!("{k}={}", { let s = format!("{v:?}"); if s.len() > 40 { s[..40].to_string() } else { s } })).collect::<Vec<_>>()),
            other => format!("{other:?}"),
        }
    }
    fn kind(&self) -> &'static str {
        match self {
            COp::Add(_) => "add",
            COp::Update(..) => "update",
            COp::Remove(_) => "remove",
            COp::Get(_) => "get",
            COp::Query(_) => "query",
            COp::SaveExt(..) => "save_extension",
            COp::RemoveExt(_) => "remove_extension",
            COp::SetExt(..) => "set_extension",
            COp::Flush => "flush",
            COp::Compact => "compact",
        }
    }
}

#[derive(Clone, Debug, PartialEq)]
enum CRes {
    Added(u64),
    Updated(Box<FDoc>),
    Removed(Option<Box<FDoc>>),
    Got(Option<Box<FDoc>>),
    Ids(Vec<u64>),
    Ext(Option<u64>),
    Done,
    NotFound,
    Conflict,
    Err(String),
}

fn classify(e: &anda_db::error::DBError) -> CRes {
    match e {
        anda_db::error::DBError::NotFound { .. } => CRes::NotFound,
        anda_db::error::DBError::AlreadyExists { .. } => CRes::Conflict,
        other => {
            let s = format!("{other:?}");
            if s.contains("AlreadyExists") { CRes::Conflict } else { CRes::Err(s) }
        }
    }
}

struct Config {
    cfg: Cfg,
    /// also park tasks AFTER a backend read returned (response in hand, not yet acted upon)
    post_reads: bool,
    n_initial: u64,
    ops: Vec<COp>,
    label: String,
}

fn gen_config(rng: &mut Rng, stripe: bool, ext_heavy: bool) -> Config {
    let cfg = Cfg { cache: rng.chance(2, 3), compress: *rng.pick(&[0, 3]), bucket: *rng.pick(&[64usize, 1 << 20]) };
    let n_initial = if stripe { 130 } else { 4 };
    let n = 2 + rng.usize(3);
    let hot: Vec<u64> = if stripe { vec![1, 129, 2] } else { vec![1, 1, 2, 3] };
    let mut ops = vec![];
    let mut tag = 0;
    for _ in 0..n {
        tag += 1;
        let id = *rng.pick(&hot);
        let w: [u32; 10] = if ext_heavy { [3, 6, 3, 0, 0, 26, 16, 18, 2, 26] } else { [18, 30, 16, 12, 4, 5, 3, 8, 6, 3] };
        let op = match rng.weighted(&w) {
            0 => {
                let mut d = gen_doc(rng, 6);
                d.uname = format!("new{tag}-{}", rng.below(2)); // two adds may collide on purpose
                d.codes = vec![];
                d.grp = "gn".into();
                d.slot = 500 + tag;
                COp::Add(d)
            }
            1 => {
                let mut p = gen_patch(rng, 6, None);
                p.remove("codes");
                p.remove("grp");
                p.remove("slot");
                if let Some(Fv::Text(u)) = p.get("uname").cloned() {
                    p.insert("uname".into(), Fv::Text(format!("upd-{u}")));
                }
                p.insert("body".into(), Fv::Text(format!("kernel lemon tag{tag}")));
                COp::Update(id, p)
            }
            2 => COp::Remove(id),
            3 => COp::Get(id),
            4 => COp::Query("kernel".into()),
            5 => COp::SaveExt(format!("k{}", rng.below(2)), 100 + tag),
            6 => COp::RemoveExt(format!("k{}", rng.below(2))),
            7 => COp::Flush,
            8 => COp::Compact,
            _ => COp::SetExt(format!("k{}", rng.below(2)), 200 + tag),
        };
        ops.push(op);
    }
    let mut kinds: Vec<&str> = ops.iter().map(|o| o.kind()).collect();
    kinds.sort_unstable();
    // the read-then-act window (cache fill after a fetch, read-modify-write) needs a suspension
    // point between a read's response and its consumer; always on when a get is in the mix
    let post_reads = ops.iter().any(|o| matches!(o, COp::Get(_))) || rng.chance(1, 3);
    Config { cfg, post_reads, n_initial, label: format!("{}{}{}{}", if stripe { "stripe:" } else { "" }, if ext_heavy { "ext:" } else { "" }, if post_reads { "postread:" } else { "" }, kinds.join("+")), ops }
}

struct Outcome {
    results: Vec<CRes>,
    call: Vec<usize>,
    ret: Vec<usize>,
    trace: Vec<usize>,
    /// (position in trace, reopened documents) for every flush that returned
    snapshots: Vec<(usize, Result<BTreeMap<u64, FDoc>, String>)>,
    initial: Model,
}

async fn run_schedule(c: &Config, chooser: &mut dyn Chooser, st: &mut Stats) -> Option<(Outcome, Arc<anda_db::collection::Collection>, RecStore)> {
    let store = RecStore::new();
    store.set_record_reads(false);
    let mut d = match Driver::start(Arc::new(store.clone()), c.cfg, IndexSet::ALL).await {
        Ok(d) => d,
        Err(e) => {
            st.violation("C05/setup_failed", json!(format!("{e:?}")));
            return None;
        }
    };
    let mut seed = vcore::Rng::new(7 + c.n_initial);
    for i in 0..c.n_initial {
        let mut doc = gen_doc(&mut seed, 1000);
        doc.uname = format!("init{i}");
        doc.codes = vec![format!("ci{i}")];
        doc.grp = "gi".into();
        doc.slot = i;
        doc.body = "kernel apple".into();
        if !matches!(d.step(&Op::Add(doc), st).await, Step::Applied) {
            st.inconclusive("harness: initial add rejected");
            return None;
        }
    }
    let _ = d.step(&Op::SaveExt("k0".into(), 1), st).await;
    let _ = d.step(&Op::Flush, st).await;
    let initial = d.model.clone();
    store.set_gate(true);
    store.set_gate_after_reads(c.post_reads);
    let coll = d.coll.clone();
    let mut ex: ManualExec<'_, CRes> = ManualExec::new();
    for op in &c.ops {
        let coll = coll.clone();
        let op = op.clone();
        ex.spawn(async move {
            match op {
                COp::Add(doc) => coll.add_from(&doc).await.map(CRes::Added).unwrap_or_else(|e| classify(&e)),
                COp::Update(id, p) => match coll.update(id, p).await {
                    Ok(doc) => match doc.try_into::<FDoc>() {
                        Ok(f) => CRes::Updated(Box::new(f)),
                        Err(e) => CRes::Err(format!("returned document does not decode: {e:?}")),
                    },
                    Err(e) => classify(&e),
                },
                COp::Remove(id) => match coll.remove(id).await {
                    Ok(Some(doc)) => match doc.try_into::<FDoc>() {
                        Ok(f) => CRes::Removed(Some(Box::new(f))),
                        Err(e) => CRes::Err(format!("returned document does not decode: {e:?}")),
                    },
                    Ok(None) => CRes::Removed(None),
                    Err(e) => classify(&e),
                },
                COp::Get(id) => match coll.get_as::<FDoc>(id).await {
                    Ok(f) => CRes::Got(Some(Box::new(f))),
                    Err(anda_db::error::DBError::NotFound { .. }) => CRes::Got(None),
                    Err(e) => CRes::Err(format!("{e:?}")),
                },
                COp::Query(word) => {
                    let q = anda_db::query::Query { search: Some(anda_db::query::Search { text: Some(word), ..Default::default() }),
                        filter: Some(Filter::Field(("age".into(), RangeQuery::Ge(Fv::U64(0))))), limit: Some(50) };
                    coll.search_ids(q).await.map(CRes::Ids).unwrap_or_else(|e| CRes::Err(format!("{e:?}")))
                }
                COp::SaveExt(k, v) => coll.save_extension(k, Fv::U64(v)).await.map(|_| CRes::Done).unwrap_or_else(|e| CRes::Err(format!("{e:?}"))),
                COp::RemoveExt(k) => match coll.remove_extension(&k).await {
                    Ok(v) => CRes::Ext(v.and_then(|v| match v { Fv::U64(x) => Some(x), _ => None })),
                    Err(e) => CRes::Err(format!("{e:?}")),
                },
                COp::SetExt(k, v) => {
                    coll.set_extension(k, Fv::U64(v));
                    CRes::Done
                }
                COp::Flush => coll.flush(anda_db::unix_ms()).await.map(|_| CRes::Done).unwrap_or_else(|e| CRes::Err(format!("{e:?}"))),
                COp::Compact => coll.compact_btree_index(&["uname"]).await.map(|_| CRes::Done).unwrap_or_else(|e| CRes::Err(format!("{e:?}"))),
            }
        });
    }
    let n = c.ops.len();
    let mut ret = vec![usize::MAX; n];
    let mut snaps: Vec<(usize, Arc<object_store::memory::InMemory>)> = vec![];
    let ops = &c.ops;
    let store2 = store.clone();
    let post_reads = c.post_reads;
    let r = ex.run(chooser, 6000, |ex, i, done| {
        if done {
            ret[i] = ex.trace.len() - 1;
            if matches!(ops[i], COp::Flush) && matches!(ex.result(i), Some(CRes::Done)) {
                // "pull the plug" at the instant the flush returned
                store2.set_gate(false);
                store2.set_gate_after_reads(false);
                let snap = drive(store2.snapshot());
                store2.set_gate(true);
                store2.set_gate_after_reads(post_reads);
                snaps.push((ex.trace.len() - 1, snap));
            }
        }
    });
    store.set_gate(false);
    store.set_gate_after_reads(false);
    let trace = ex.trace.clone();
    match r {
        Ok(()) => {}
        Err(Stuck::Deadlock(t)) => {
            st.violation("C05/deadlock", json!({"blocked_tasks": t, "schedule": trace, "ops": c.ops.iter().map(|o| o.brief()).collect::<Vec<_>>()}));
            return None;
        }
        Err(Stuck::StepCap) => {
            st.inconclusive("C05: step cap reached");
            return None;
        }
    }
    let mut call = vec![usize::MAX; n];
    for (pos, t) in trace.iter().enumerate() {
        if call[*t] == usize::MAX {
            call[*t] = pos;
        }
    }
    let results: Vec<CRes> = (0..n).map(|i| ex.take_result(i).unwrap()).collect();
    drop(ex);
    // reopen every snapshot (cold, no gate) and read its documents
    let mut snapshots = vec![];
    for (pos, snap) in snaps {
        let r = async {
            let db = connect(snap.clone(), &c.cfg).await.map_err(|e| format!("connect: {e:?}"))?;
            let col = open_coll(&db, IndexSet::ALL).await.map_err(|e| format!("open: {e:?}"))?;
            let mut docs = BTreeMap::new();
            for id in col.ids() {
                let d = col.get_as::<FDoc>(id).await.map_err(|e| format!("get({id}): {e:?}"))?;
                docs.insert(id, d);
            }
            Ok::<_, String>((docs, col))
        }
        .await;
        match r {
            Ok((docs, col)) => {
                // the persisted state passes the index<->document audit as well
                let m = Model { docs: docs.clone(), ext: Default::default() };
                let ctx = || json!({"schedule": trace, "ops": c.ops.iter().map(|o| o.brief()).collect::<Vec<_>>(), "snapshot_at": pos});
                audit(&col, &m, IndexSet::ALL, st, &AuditCtx { sig: "C05/flush_snapshot_audit", ctx: &ctx }).await;
                st.count("flush_snapshots_reopened");
                snapshots.push((pos, Ok(docs)));
            }
            Err(e) => snapshots.push((pos, Err(e))),
        }
    }
    Some((Outcome { results, call, ret, trace, snapshots, initial }, coll, store))
}

/// Applies mutation `i` to `m` in the sequential model; None when the recorded result cannot be
/// produced in this state.
fn apply_seq(m: &mut Model, handed: &mut BTreeSet<u64>, op: &COp, res: &CRes) -> Option<()> {
    match (op, res) {
        (COp::Add(d), CRes::Added(id)) => {
            if m.conflicts(0, d, IndexSet::ALL) || m.docs.contains_key(id) || !handed.insert(*id) {
                return None;
            }
            let mut n = d.clone();
            n._id = *id;
            m.docs.insert(*id, n);
            Some(())
        }
        (COp::Add(d), CRes::Conflict) => m.conflicts(0, d, IndexSet::ALL).then_some(()),
        (COp::Update(id, p), CRes::Updated(got)) => {
            let cur = m.docs.get(id)?;
            let mut n = apply_patch(cur, p)?;
            n._id = *id;
            if m.conflicts(*id, &n, IndexSet::ALL) || **got != n {
                return None;
            }
            m.docs.insert(*id, n);
            Some(())
        }
        (COp::Update(id, _), CRes::NotFound) => (!m.docs.contains_key(id)).then_some(()),
        (COp::Update(id, p), CRes::Conflict) => {
            let cur = m.docs.get(id)?;
            let n = apply_patch(cur, p)?;
            m.conflicts(*id, &n, IndexSet::ALL).then_some(())
        }
        (COp::Remove(id), CRes::Removed(Some(got))) => {
            let cur = m.docs.get(id)?;
            if **got != *cur {
                return None;
            }
            m.docs.remove(id);
            Some(())
        }
        (COp::Remove(id), CRes::Removed(None)) => (!m.docs.contains_key(id)).then_some(()),
        (COp::SaveExt(k, v), CRes::Done) | (COp::SetExt(k, v), CRes::Done) => {
            m.ext.insert(k.clone(), *v);
            Some(())
        }
        (COp::RemoveExt(k), CRes::Ext(old)) => {
            if m.ext.get(k).copied() != *old {
                return None;
            }
            m.ext.remove(k);
            Some(())
        }
        _ => None,
    }
}

/// All total orders of the mutations that respect real time (and `extra` precedence pairs) and
/// explain every return value. Returns the orders with the model after each step.
fn linearizations(c: &Config, o: &Outcome, extra: &[(usize, usize)], limit: usize) -> Vec<(Vec<usize>, Vec<Model>)> {
    let muts: Vec<usize> = (0..c.ops.len()).filter(|i| c.ops[*i].is_mutation()).collect();
    let mut out = vec![];
    fn rec(c: &Config, o: &Outcome, extra: &[(usize, usize)], muts: &[usize], done: &mut Vec<usize>, states: &mut Vec<Model>, handed: &BTreeSet<u64>,
           out: &mut Vec<(Vec<usize>, Vec<Model>)>, limit: usize) {
        if out.len() >= limit {
            return;
        }
        if done.len() == muts.len() {
            out.push((done.clone(), states.clone()));
            return;
        }
        for &i in muts {
            if done.contains(&i) {
                continue;
            }
            // real-time order: nothing still pending may have returned before i was called
            if muts.iter().any(|&j| j != i && !done.contains(&j) && o.ret[j] < o.call[i]) {
                continue;
            }
            if extra.iter().any(|&(a, b)| b == i && !done.contains(&a)) {
                continue;
            }
            let mut m = states.last().unwrap().clone();
            let mut h = handed.clone();
            if apply_seq(&mut m, &mut h, &c.ops[i], &o.results[i]).is_some() {
                done.push(i);
                states.push(m);
                rec(c, o, extra, muts, done, states, &h, out, limit);
                states.pop();
                done.pop();
            }
        }
    }
    let handed: BTreeSet<u64> = o.initial.docs.keys().copied().collect();
    rec(c, o, extra, &muts, &mut vec![], &mut vec![o.initial.clone()], &handed, &mut out, limit);
    out
}

async fn judge(c: &Config, o: &Outcome, coll: &anda_db::collection::Collection, store: &RecStore, mode: &str, st: &mut Stats) -> bool {
    let ctx = || {
        json!({"mode": mode, "cfg": format!("{:?}", c.cfg), "schedule": o.trace,
               "history": (0..c.ops.len()).map(|i| format!("t{i} [{}..{}] {} -> {}", o.call[i], o.ret[i], c.ops[i].brief(), { let s = format!("{:?}", o.results[i]); if s.len() > 300 { format!("{}..", &s[..300]) } else { s } })).collect::<Vec<_>>()})
    };
    for (i, r) in o.results.iter().enumerate() {
        if let CRes::Err(e) = r {
            st.violation(format!("C05/unexpected_error/{}", c.ops[i].kind()), json!({"error": e, "context": ctx()}));
            return false;
        }
    }
    st.count("oracle_linearizability_searches");
    let lins = linearizations(c, o, &[], 64);
    if lins.is_empty() {
        st.violation("C05/not_linearizable", json!({"context": ctx()}));
        return false;
    }
    if lins.len() > 1 {
        st.count("histories_with_several_valid_orders");
    }
    // 3. convergence: the final state equals the result of a valid order
    let finals: Vec<&Model> = lins.iter().map(|(_, s)| s.last().unwrap()).collect();
    let first_final = finals[0];
    let all_same = finals.iter().all(|m| m.docs == first_final.docs);
    if !all_same {
        st.count("valid_orders_disagree_on_final_state");
    }
    let live: BTreeMap<u64, FDoc> = {
        let mut m = BTreeMap::new();
        for id in coll.ids() {
            if let Ok(d) = coll.get_as::<FDoc>(id).await {
                m.insert(id, d);
            }
        }
        m
    };
    let live_ext: BTreeMap<String, u64> = ["k0", "k1"].iter().filter_map(|k| coll.get_extension_as::<u64>(k).map(|v| (k.to_string(), v))).collect();
    let Some(fin) = finals.iter().find(|m| m.docs == live && m.ext.iter().filter(|(k, _)| k.as_str() == "k0" || k.as_str() == "k1").map(|(k, v)| (k.clone(), *v)).collect::<BTreeMap<String, u64>>() == live_ext).or_else(|| {
        // documents match some order but the extension map does not: report that precisely
        if finals.iter().any(|m| m.docs == live) {
            st.violation("C05/final_extensions_match_no_valid_order", json!({"live_extensions": format!("{live_ext:?}"),
                "expected_one_of": finals.iter().map(|m| format!("{:?}", m.ext)).collect::<Vec<_>>(), "context": ctx()}));
        }
        None
    }) else {
        if finals.iter().any(|m| m.docs == live) {
            return false;
        }
        st.violation("C05/final_state_matches_no_valid_order", json!({"live_documents": format!("{live:?}"), "expected_one_of": finals.iter().map(|m| format!("{:?}", m.docs)).collect::<Vec<_>>(), "context": ctx()}));
        return false;
    };
    if !audit(coll, fin, IndexSet::ALL, st, &AuditCtx { sig: "C05/final_audit", ctx: &ctx }).await {
        return false;
    }
    // 2. reads that overlap writers
    for (i, op) in c.ops.iter().enumerate() {
        if let (COp::Get(id), CRes::Got(got)) = (op, &o.results[i]) {
            st.count("oracle_overlapping_reads");
            let mut ok = false;
            for (order, states) in &lins {
                // versions of the document along this order
                let mut versions: Vec<(Option<&FDoc>, usize, usize)> = vec![(states[0].docs.get(id), 0, 0)]; // (value, call, ret) of producer
                for (k, &mi) in order.iter().enumerate() {
                    let v = states[k + 1].docs.get(id);
                    if v != versions.last().unwrap().0 {
                        versions.push((v, o.call[mi], o.ret[mi]));
                    }
                }
                // not older than the last write that returned before the read was called, not
                // newer than the last write that was called before the read returned
                let lo = versions.iter().rposition(|(_, _, r)| *r < o.call[i] || *r == 0).unwrap_or(0);
                let hi = versions.iter().rposition(|(_, cl, _)| *cl < o.ret[i] || *cl == 0).unwrap_or(0);
                if versions[lo..=hi.max(lo)].iter().any(|(v, _, _)| v.cloned() == got.as_deref().cloned()) {
                    ok = true;
                    break;
                }
            }
            if !ok {
                st.violation("C05/read_returned_unexplained_document", json!({"read": i, "got": format!("{got:?}"), "context": ctx()}));
                return false;
            }
        }
    }
    // 4. what a concurrent flush persisted
    for (pos, snap) in &o.snapshots {
        st.count("oracle_flush_snapshots");
        match snap {
            Err(e) => {
                st.violation("C05/flush_snapshot_does_not_reopen", json!({"error": e, "snapshot_at": pos, "context": ctx()}));
                return false;
            }
            Ok(docs) => {
                let muts: Vec<usize> = (0..c.ops.len()).filter(|i| c.ops[*i].is_mutation()).collect();
                let inc: Vec<usize> = muts.iter().copied().filter(|i| o.ret[*i] < *pos).collect();
                let exc: Vec<usize> = muts.iter().copied().filter(|i| o.ret[*i] > *pos).collect();
                let extra: Vec<(usize, usize)> = inc.iter().flat_map(|a| exc.iter().map(move |b| (*a, *b))).collect();
                let lins2 = linearizations(c, o, &extra, 64);
                let okp = lins2.iter().any(|(_, states)| states[inc.len()].docs == *docs);
                if !okp {
                    st.violation("C05/flush_persisted_state_is_no_prefix", json!({"snapshot_at": pos, "persisted": format!("{docs:?}"),
                        "mutations_returned_before": inc, "candidates": lins2.iter().map(|(_, s)| format!("{:?}", s[inc.len()].docs.keys().collect::<Vec<_>>())).collect::<Vec<_>>(), "context": ctx()}));
                    return false;
                }
            }
        }
    }
    // 5. nothing lost: what the live handle shows after every call returned is what a flush +
    //    clean close makes durable (documents and extensions), for sets with extension writers
    if c.ops.iter().any(|o| matches!(o, COp::SaveExt(..) | COp::RemoveExt(_) | COp::SetExt(..))) {
        st.count("oracle_durable_after_flush_and_close");
        if let Err(e) = coll.flush(anda_db::unix_ms()).await {
            st.violation("C05/unexpected_error/final_flush", json!({"error": format!("{e:?}"), "context": ctx()}));
            return false;
        }
        if let Err(e) = coll.close().await {
            st.violation("C05/unexpected_error/final_close", json!({"error": format!("{e:?}"), "context": ctx()}));
            return false;
        }
        let snap = store.snapshot().await;
        let r = async {
            let db = connect(snap.clone(), &c.cfg).await.map_err(|e| format!("connect: {e:?}"))?;
            let col = open_coll(&db, IndexSet::ALL).await.map_err(|e| format!("open: {e:?}"))?;
            let mut docs = BTreeMap::new();
            for id in col.ids() {
                docs.insert(id, col.get_as::<FDoc>(id).await.map_err(|e| format!("get({id}): {e:?}"))?);
            }
            let ext: BTreeMap<String, u64> = ["k0", "k1"].iter().filter_map(|k| col.get_extension_as::<u64>(k).map(|v| (k.to_string(), v))).collect();
            Ok::<_, String>((docs, ext))
        }
        .await;
        match r {
            Err(e) => {
                st.violation("C05/reopen_after_clean_close_failed", json!({"error": e, "context": ctx()}));
                return false;
            }
            Ok((docs, ext)) => {
                if docs != live {
                    st.violation("C05/documents_lost_or_changed_by_clean_close", json!({"live": format!("{live:?}"), "reopened": format!("{docs:?}"), "context": ctx()}));
                    return false;
                }
                if ext != live_ext {
                    st.violation("C05/extension_lost_or_changed_by_clean_close", json!({"live": format!("{live_ext:?}"), "reopened": format!("{ext:?}"), "context": ctx()}));
                    return false;
                }
            }
        }
    }
    true
}

fn case(case: u64, rng: &mut Rng, st: &mut Stats, budget: u64) {
    let stripe = case % 8 == 7;
    // one configuration in four is dominated by extension writers (save / remove / the synchronous
    // setter) racing each other and a flush: they share one metadata object and its version
    let ext_heavy = case % 4 == 2;
    let c = gen_config(rng, stripe, ext_heavy);
    let budget = if stripe { (budget / 6).max(10) } else { budget };
    block_on(async {
        let mut dfs = DfsChooser::new();
        let mut runs = 0u64;
        let mut exhausted = false;
        loop {
            dfs.begin_run();
            let Some((o, coll, store)) = run_schedule(&c, &mut dfs, st).await else { return };
            runs += 1;
            st.eval();
            st.count("schedules_run");
            st.set("distinct_schedules", vcore::hash_debug(&o.trace) ^ case.wrapping_mul(0x9e3779b97f4a7c15));
            st.max("max_schedule_len", o.trace.len() as u64);
            // polls that ended at a lock wait (the task was polled again later without having
            // passed a backend call) show that gate / doc-lock windows were actually hit
            if !judge(&c, &o, &coll, &store, "S-enum", st).await {
                return;
            }
            if !dfs.next_run() {
                exhausted = true;
                break;
            }
            if runs >= budget {
                break;
            }
        }
        st.count(if exhausted { "schedule_spaces_exhausted" } else { "schedule_spaces_truncated" });
        if !exhausted {
            let mut rc = RandChooser(rng.fork());
            for _ in 0..budget / 2 {
                let Some((o, coll, store)) = run_schedule(&c, &mut rc, st).await else { return };
                st.eval();
                st.count("schedules_run");
                st.set("distinct_schedules", vcore::hash_debug(&o.trace) ^ case.wrapping_mul(0x9e3779b97f4a7c15));
                if !judge(&c, &o, &coll, &store, "S-rand", st).await {
                    return;
                }
            }
        }
        st.count(&format!("config:{}", if stripe { "stripe" } else { "plain" }));
        if ext_heavy {
            st.count("config:extension_heavy");
        }
        if c.post_reads {
            st.count("config:post_read_gate");
        }
        st.set("configurations", vcore::fnv_str(&c.label));
        st.distinct(vcore::fnv_str(&format!("{:?}", c.ops.iter().map(|o| o.brief()).collect::<Vec<_>>())));
        for o in &c.ops {
            st.count(&format!("cop:{}", o.kind()));
        }
        st.sample(|| json!({"configuration": c.label, "ops": c.ops.iter().map(|o| o.brief()).collect::<Vec<_>>(), "schedules": runs, "exhaustive": exhausted}));
    });
}

/// S-mt: many operations from several tasks on a multi-thread runtime; convergence only.
fn stress_case(case: u64, rng: &mut Rng, st: &mut Stats, tasks: usize, ops_per_task: usize) {
    let cfg = Cfg { cache: true, compress: 0, bucket: 256 };
    let rt = tokio::runtime::Builder::new_multi_thread().worker_threads(4).enable_time().build().unwrap();
    let seed = rng.next_u64();
    rt.block_on(async {
        let store = RecStore::new();
        store.set_record_reads(false);
        let Ok(db) = connect(Arc::new(store.clone()), &cfg).await else { return };
        let Ok(coll) = open_coll(&db, IndexSet::ALL).await else { return };
        let mut hs = vec![];
        for t in 0..tasks {
            let coll = coll.clone();
            hs.push(tokio::spawn(async move {
                // each task owns its documents: the final state is determined per task
                let mut rng = vcore::Rng::derive(seed, t as u64);
                let mut mine: BTreeMap<u64, FDoc> = BTreeMap::new();
                let mut errs = vec![];
                for i in 0..ops_per_task {
                    match rng.below(10) {
                        0..=4 => {
                            let mut d = gen_doc(&mut rng, 1_000_000);
                            d.uname = format!("t{t}-{i}");
                            d.codes = vec![];
                            d.grp = format!("g{t}");
                            d.slot = i as u64;
                            match coll.add_from(&d).await {
                                Ok(id) => {
                                    d._id = id;
                                    if mine.insert(id, d).is_some() { errs.push(format!("id {id} handed out twice")); }
                                }
                                Err(e) => errs.push(format!("add: {e:?}")),
                            }
                        }
                        5..=7 if !mine.is_empty() => {
                            let id = *mine.keys().nth(rng.usize(mine.len())).unwrap();
                            let mut p = Patch::new();
                            p.insert("age".into(), Fv::U64(rng.below(100)));
                            p.insert("body".into(), Fv::Text(format!("lemon island r{}", rng.below(50))));
                            match coll.update(id, p.clone()).await {
                                Ok(_) => {
                                    let n = apply_patch(&mine[&id], &p).unwrap();
                                    mine.insert(id, n);
                                }
                                Err(e) => errs.push(format!("update: {e:?}")),
                            }
                        }
                        8 if !mine.is_empty() => {
                            let id = *mine.keys().nth(rng.usize(mine.len())).unwrap();
                            match coll.remove(id).await {
                                Ok(Some(_)) => { mine.remove(&id); }
                                other => errs.push(format!("remove({id}): {:?}", other.map(|o| o.is_some()))),
                            }
                        }
                        _ => {
                            if t == 0 && i % 16 == 9 {
                                if let Err(e) = coll.flush(anda_db::unix_ms()).await { errs.push(format!("flush: {e:?}")); }
                            } else if let Some(id) = mine.keys().next().copied() {
                                match coll.get_as::<FDoc>(id).await {
                                    Ok(d) if d == mine[&id] => {}
                                    other => errs.push(format!("get({id}) = {other:?}")),
                                }
                            }
                        }
                    }
                    if rng.chance(1, 4) { tokio::task::yield_now().await; }
                }
                (mine, errs)
            }));
        }
        let mut model = Model::default();
        for h in hs {
            match h.await {
                Ok((mine, errs)) => {
                    if !errs.is_empty() {
                        st.violation("C05/stress/operation_failed_or_wrong", json!({"errors": errs.iter().take(5).collect::<Vec<_>>(), "case": case}));
                        return;
                    }
                    for (id, d) in mine {
                        if model.docs.insert(id, d).is_some() {
                            st.violation("C05/stress/id_handed_out_twice", json!({"id": id, "case": case}));
                            return;
                        }
                    }
                }
                Err(e) => {
                    st.inconclusive(format!("stress task join error: {e}"));
                    return;
                }
            }
        }
        st.eval();
        st.count("stress_runs");
        st.add("stress_ops", (tasks * ops_per_task) as u64);
        let ctx = || json!({"mode": "S-mt", "case": case, "tasks": tasks, "ops_per_task": ops_per_task});
        audit(&coll, &model, IndexSet::ALL, st, &AuditCtx { sig: "C05/stress/final_audit", ctx: &ctx }).await;
        let _ = db.close().await;
    });
}

fn main() {
    let mut run = Run::from_args(
        "C05",
        "exploration",
        "one evaluation = one schedule (sequence of which task performs its next backend call) of one configuration of 2-4 \
         concurrent operations, judged by the four oracles; configurations are distinct by their operation set; every \
         configuration is non-trivial (at least two concurrent operations over shared state)",
    );
    run.assume("scheduling points are the backend calls and tokio lock waits of the async code (every await of the collection is one of them); preemption inside synchronous sections is sampled by the multi-thread stress runs");
    run.assume("queries that overlap writers are run as load only; the property constrains overlapping reads of documents (get), which are checked against the version window of a valid order");
    run.assume("at the instant a flush returns no mutation body is running (flush holds the exclusive gate until its completing poll), so the snapshot must equal the state after exactly the mutations that had returned");
    let t = run.tier;
    if run.wants("sched") {
        run.parallel("configs", t.pick(120, 6000), 0.8, |c, rng, st| case(c, rng, st, t.pick(120, 1200)));
    }
    if run.wants("stress") {
        run.threads = 4;
        run.parallel("stress", t.pick(8, 200), 0.9, |c, rng, st| stress_case(c, rng, st, 8, t.pick(120, 400)));
    }
    run.floor("schedules_run", 3000);
    run.floor("oracle_linearizability_searches", 3000);
    run.floor("oracle_overlapping_reads", 200);
    run.floor("oracle_flush_snapshots", 200);
    run.floor("config:stripe", 5);
    run.floor("config:post_read_gate", 10);
    run.floor("config:extension_heavy", 10);
    run.floor("oracle_durable_after_flush_and_close", 500);
    run.floor("cop:set_extension", 10);
    run.floor_set("configurations", 30);
    for k in ["add", "update", "remove", "get", "flush", "save_extension", "compact"] {
        run.floor(&format!("cop:{k}"), 10);
    }
    run.floor("stress_runs", 4);
    run.finish();
}

#[allow(dead_code)]
fn _unused(_: Value) {}

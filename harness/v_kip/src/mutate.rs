//! Token-level mutators over lexed KIP text: splice, delete, duplicate, truncate, swap, case
//! flip of arbitrary tokens, bracket surgery, trivia injection in arbitrary places (also where
//! the language forbids it), hostile string contents.

use crate::lex::{Kind, Lexed, TRIVIA, Token};
use vcore::Rng;

pub const SPLICES: &[&str] = &[
    "{", "}", "(", ")", "[", "]", "\"", "\\", "'", "?", "_", ",", "@", "$", ":", ";", "|", "||", "&&", "!", "-",
    "--", "\u{0}", "\u{7f}", "\u{a0}", "\u{2028}", "\u{feff}", "🦀", "NULL", "null", "true", "FIND", "MUTATE", "WHERE", "NOT",
    "BELIEF", "BELIEF SLOT", "id:", "(id: :x)", "?x", "?x.", "?x[\"k\"]", ":p", "\"s\"", "\"a//b\"", "\"\\u12\"",
    "\"\\ud800\"", "// c\n", "//", "/", "1e999", "-9223372036854775809", "18446744073709551616", "0x10", ".5", "1.",
    "{0,5}", "{5,1}", "{,}", "CONFIRM \"PURGE\"", "CONFIRM \"purge\"", "_system", "SET FIELDS { _system: 1 }", "UNION {",
    "FILTER(", "FILTER(!!!!?x.a == 1)", "COUNT(", "IN(?x, [1,])", "EXPECT VERSION 0", "AS OF", "LIMIT", "LIMIT -1",
];

pub const HOSTILE_STRINGS: &[&str] = &[
    "\"//\"", "\"a // b\"", "\"((((((((((((((((((((((((((((((((((((((((((((((((((((((((((((((((((((((\"", "\"}\"", "\"]\"",
    "\"\\\"\"", "\"\\\\\"", "\"\\\\\\\"\"", "\"// \\\" (\"", "\"\\n//x\"", "\"/\"", "\"\\/\\/\"", "\"\"",
];

fn tok(kind: Kind, text: &str, gap: &str) -> Token {
    Token { kind, text: text.to_string(), gap: gap.to_string() }
}

/// Applies 1..=3 random mutations; returns the text and the names of the mutators used.
pub fn mutate(base: &Lexed, donor: &Lexed, rng: &mut Rng) -> (String, Vec<&'static str>) {
    let mut l = base.clone();
    let mut used = vec![];
    let rounds = 1 + rng.usize(3);
    for _ in 0..rounds {
        let n = l.tokens.len();
        if n == 0 {
            l.tokens.push(tok(Kind::Punct, *rng.pick(SPLICES), " "));
            used.push("splice");
            continue;
        }
        let i = rng.usize(n);
        match rng.below(13) {
            0 => {
                // splice a hostile snippet
                let s = *rng.pick(SPLICES);
                l.tokens.insert(i, tok(Kind::Punct, s, if rng.bool() { " " } else { "" }));
                used.push("splice");
            }
            1 => {
                // splice a run of donor tokens
                if !donor.tokens.is_empty() {
                    let a = rng.usize(donor.tokens.len());
                    let len = 1 + rng.usize(6.min(donor.tokens.len() - a));
                    for (k, t) in donor.tokens[a..a + len].iter().enumerate() {
                        l.tokens.insert(i + k, t.clone());
                    }
                    used.push("splice-donor");
                }
            }
            2 => {
                let len = 1 + rng.usize(4.min(n - i));
                l.tokens.drain(i..i + len);
                used.push("delete");
            }
            3 => {
                let len = 1 + rng.usize(5.min(n - i));
                let run: Vec<Token> = l.tokens[i..i + len].to_vec();
                for (k, t) in run.into_iter().enumerate() {
                    l.tokens.insert(i + len + k, t);
                }
                used.push("duplicate");
            }
            4 => {
                l.tokens.truncate(i);
                l.tail.clear();
                used.push("truncate");
            }
            5 => {
                // truncate inside a token (char boundary)
                let t = &mut l.tokens[i];
                let chars: Vec<char> = t.text.chars().collect();
                if chars.len() > 1 {
                    let cut = 1 + rng.usize(chars.len() - 1);
                    t.text = chars[..cut].iter().collect();
                }
                l.tokens.truncate(i + 1);
                l.tail.clear();
                used.push("truncate-mid-token");
            }
            6 => {
                let j = rng.usize(n);
                l.tokens.swap(i, j);
                used.push("swap");
            }
            7 => {
                // flip the case of an arbitrary token (identifiers, strings, literals included)
                let t = &mut l.tokens[i];
                t.text = t
                    .text
                    .chars()
                    .map(|c| if rng.bool() { c.to_ascii_uppercase() } else { c.to_ascii_lowercase() })
                    .collect();
                used.push("case-any");
            }
            8 => {
                // trivia anywhere, also inside glued constructs
                l.tokens[i].gap.push_str(*rng.pick(TRIVIA));
                used.push("trivia-anywhere");
            }
            9 => {
                // remove a gap completely
                l.tokens[i].gap.clear();
                used.push("gap-removed");
            }
            10 => {
                // replace a string by a hostile one
                if let Some(k) = (0..n).map(|d| (i + d) % n).find(|k| l.tokens[*k].kind == Kind::Str) {
                    l.tokens[k].text = rng.pick(HOSTILE_STRINGS).to_string();
                    used.push("hostile-string");
                }
            }
            11 => {
                // bracket surgery
                if let Some(k) = (0..n)
                    .map(|d| (i + d) % n)
                    .find(|k| matches!(l.tokens[*k].text.as_str(), "(" | ")" | "{" | "}" | "[" | "]"))
                {
                    let r = *rng.pick(&["(", ")", "{", "}", "[", "]", "", "((", "}}"]);
                    l.tokens[k].text = r.to_string();
                    used.push("bracket");
                }
            }
            _ => {
                // unterminated comment at the end / comment swallowing the rest of a line
                if rng.bool() {
                    l.tail.push_str(" // trailing \" (");
                } else {
                    l.tokens[i].gap.push_str("// swallowed: ");
                }
                used.push("comment");
            }
        }
    }
    (l.source(), used)
}

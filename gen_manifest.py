#!/usr/bin/env python3
"""Regenerates MANIFEST.json from the table below (single source of truth for the interface)."""
import json, subprocess

HOOK_COMMITS = subprocess.run(
    ["git", "-C", "/repo", "log", "--format=%H %s", "--grep=^verif:"],
    capture_output=True, text=True).stdout.strip().splitlines()

# id -> (engine/package, level, technique, level text, level note, design_ref)
CHECKS = {
 "C01": ("v_db", "fault_enumeration",
   "crash-point enumeration over a recorded backend mutation log (RecStore.materialize) + nested crash points inside recovery + single-call unknown-outcome faults, each followed by the real recovery path and a model/audit oracle",
   "For generated workloads over fixture F (add/update/remove/flush/extensions/compaction/reconcile/reopen with index create+backfill and index removal, rejected operations mixed in, one forced index swap) on InMemory, MetaStore and EncryptedStore (recorder below the wrapper): every prefix k of the landed-mutation log is materialized and recovered with AndaDB::connect + open_or_create_collection; documents must equal the acknowledged model, the in-flight operation may be fully applied or absent, the full C02 index<->document audit runs on every recovered state; recovered collections must accept add/update/remove + flush, reopen to the same state, hand out only ids above every flush-acknowledged id, and a settled reopen is measured for repair writes; recovery itself is crashed after j of its own mutations (sampled in quick, enumerated in thorough) and recovered again; the workload is re-executed with one backend call failing before / after it landed and the application-style reopen is audited after resolving the unknown outcome by observation.",
   "Crash model = the repository's own: each backend mutation atomic, sequence interruptible; single-threaded driver so a crash state is exactly a prefix of the recorded log. Holds for the workloads generated (counts per in-flight operation kind in the evidence). Extensions are not asserted after a crash. Real power loss below the ObjectStore abstraction is out of reach.",
   "DESIGN.md C01"),
 "C02": ("v_db", "exploration",
   "model-based runtime monitor: bidirectional index<->document audit through the public API after every operation of generated histories",
   "Seeded histories (25-40 ops incl. rejected adds/updates of four classes, index create+backfill/removal at reopen, compaction, reconcile) over fixture F with unique, composite, array, map-key, optional-I64, text and vector indexes under varying storage configs; after every operation: ids/len/contains/get for every id incl. absent ones, every B-tree index probed with every model-derived key plus absent keys (I64 also in the U64 read-back shape), key listings compared for phantom/missing keys, range scans, BM25 term queries for the whole vocabulary against the collection's own tokenizer, HNSW element count and soundness of searches. Expectations are derived from a BTreeMap model by harness code. Post-crash states get the same audit from C01.",
   "Holds for the histories generated. HNSW reachability is statistical and only counted. The audit reads through public APIs only, so in-memory structures that no API exposes are not inspected.",
   "DESIGN.md C02"),
 "C03": ("v_db", "exploration",
   "differential runtime monitor against a set-algebra evaluator + metamorphic relations on the real code",
   "Generated filter trees (depth<=3 at filter and range level; Eq/Gt/Ge/Lt/Le/Between incl. inverted/Include incl. duplicates and empty/And/Or/Not) over _id and seven B-tree indexes of collections whose values are independent of ids (duplicates, arrays, map keys, missing optionals, non-contiguous ids): query_all_ids must equal the evaluator's set, query_ids/query_last_ids must equal the first/last min(limit,MAX_SEARCH_LIMIT) ids of it for limits None,0,1..n+1,MAX,MAX+1 (a >1000-match collection exercises the clamp); Between vs And(Ge,Le), double negation, operand permutation, De Morgan and filter-level vs range-level Or must agree on the real code; search_ids with a filter is recomputed from the BM25/HNSW views + RRFReranker; over-budget and mistyped filters must be refused.",
   "Holds for the generated trees and collections. Empty And/Or only at the range level (pinned semantics). Candidate recomputation for search_ids trusts the public index views.",
   "DESIGN.md C03"),
 "C04": ("v_db", "exploration",
   "model-based runtime monitor on high-contention histories + controlled schedules of contending writers (gated object store + manual executor, DFS then random) + crash-point enumeration",
   "Sequential histories with 3-5 distinct unique values over three unique constraints (scalar, array, composite): after every rejected write of five classes (conflict, schema, unknown field, missing id, wrong vector dimension after other indexes were touched) the full index<->document audit runs against the unchanged model, every unique value is scanned for a second owner, values released by update/remove are claimed again by the very next operation, and updates changing several unique fields with a late conflict are provoked; 2-3 concurrent adds/updates contending for one value run under enumerated schedules at backend-call granularity: at most one winner, losers leave no trace (audit), the value is claimable after the winner is removed; the C01 crash-point enumeration runs on high-contention histories.",
   "Holds for the histories/schedules generated. Async interleavings are controlled at backend calls; the index crates' in-lock uniqueness re-checks under OS-thread preemption are exercised by C10's hook schedules.",
   "DESIGN.md C04"),
 "C05": ("v_db", "exploration",
   "systematic schedule exploration (stateless DFS over which task performs its next backend call, random beyond the budget) with a linearizability checker over recorded call/return histories, version-window check for overlapping reads, flush-snapshot prefix check; multi-thread stress",
   "Configurations of 2-4 concurrent operations (add, update, remove, get, search, save/remove_extension, flush, compaction; same-document, different-document and doc-lock-stripe-sharing targets; cache on/off) over a pre-flushed collection are re-executed from a fresh store per schedule; oracles: (1) a total order of the mutations respecting real time explains every return value (ids distinct, update returns the document built on its predecessor, exactly one concurrent remove returns the document, NotFound/conflict only where the order says so), (2) overlapping gets return a whole document from the version window of a valid order, (3) final documents equal a valid order's result and pass the full audit, (4) the store snapshotted at the instant a concurrent flush returns reopens to the state after exactly the mutations that had returned, which must be a prefix of a valid order, and passes the audit. A multi-thread runtime stress (8 tasks x 120-400 ops) checks convergence.",
   "Schedules are enumerated at backend-call/lock-wait granularity on one thread; exhaustive only where the DFS completed (counted). Preemption between arbitrary instructions is only sampled by the multi-thread stress. Searches overlapping writers run as load only.",
   "DESIGN.md C05"),
 "C06": ("v_db", "exploration",
   "cancellation-point enumeration (poll k times then drop, before and after each landed backend mutation) + lifecycle-transition schedules + mutation-log silence oracle on a recording object store",
   "Silence: after close, close_collection, delete_collection, poison by cancellation, poison by a failed flush and in both read-only modes every mutating API (add, update, remove, flush, save/remove_extension, set_extension+flush, compactions, reconcile, set_read_only(false)+add, close) and the read APIs are called on the retained handle: typed rejection, never Active again, zero effective mutations under the collection prefix, empty prefix after delete. Queued: 1-2 adds in flight/queued while close/close_collection/delete_collection starts, schedules enumerated: nothing writes after the transition returned, accepted adds are reflected after reopen, delete leaves nothing. Cancel: 13 APIs (10 collection-level, 3 database-level) are dropped after k = 1.. polls until completion, with suspension points before and after each landed mutation: handle unchanged-and-Active or Poisoned; poisoned handles reject everything and write nothing; reopening through the database completes, never yields two Active handles, and gives the old or the new state in full (audit); a cancelled delete is finished by a retry.",
   "Suspension points are backend calls and async lock waits (every await in these paths is one of them). Holds for the populations generated.",
   "DESIGN.md C06"),
 "C07": ("v_store", "exploration",
   "differential execution against object_store::memory::InMemory with a token ledger (CAS oracle) and a wrapper-internal consistency audit; controlled interleavings at backend calls (gated recorder + manual executor, DFS then random) with a linearizability check; multi-thread stress",
   "40-call generated sequences (every PutMode incl. stale/foreign/bogus tokens, multipart with straddling parts/abort/drop, every range kind, if_match/if_none_match lists and '*', date conditions alone and paired, get_ranges, three listings on eight prefixes, delete/delete_stream, copy/rename in both modes incl. self and missing source, A->B->A rewrites) are applied to MetaStore / EncryptedStore (chunk 1,7,16,65536; payload sizes around chunk boundaries) and to a bare InMemory, with cold-instance swaps and a lagging second instance; results are compared after normalising opaque tokens and error variants; an independent ledger asserts token uniqueness across commits and keys, Update succeeds iff the token is the key's latest, Create iff absent; head/get/three listings must agree on size, token and timestamp per commit. 22 named scenarios of 2-3 concurrent calls per key plus random call sets run under enumerated schedules (before and after every backend call) and must fit a linearization; the same sets run on a 3-worker runtime.",
   "Documented deviations from InMemory (delete of a missing key, self-rename, Update without e_tag or with a version, get_ranges past the end, versions) are compared as documented and listed in the evidence assumptions. Sequence space sampled; small schedule spaces exhaustive where the DFS completes.",
   "DESIGN.md C07"),
 "C10": ("v_idx", "exploration",
   "model-based runtime monitor (BTreeMap oracle after every op) + crash-prefix enumeration of recorded flush writes + controlled thread schedules at verif_point hooks with per-key linearizability checking",
   "Runs the real BTreeIndex under seeded histories with minimum bucket size; after every operation all read APIs (point, keys paging, range trees depth<=3 in both directions with early stop, prefix) are compared with a BTreeMap model and the structural invariant walker runs; every prefix of every flush's bucket/metadata/delete write sequence is loaded and must equal the previous or the new commit exactly (plus failed flush + retry, legacy layout); 2-3 OS threads are scheduled at verif_point hooks (DFS over grant choices, random beyond the budget) and each key's call/return history must be linearizable, the invariant walker must pass and flush+reload must equal memory.",
   "Holds for the executions produced (counts in the evidence file). Interleavings are controlled at hook points only; preemption between arbitrary instructions is sampled by the stress runs. Flush concurrent with mutations is outside the crate's contract and not generated.",
   "DESIGN.md C10"),
 "C11": ("v_idx", "exploration",
   "model-based runtime monitor (naive inverted index built with the crate's own tokenizer) + crash-prefix enumeration over recorded flush writes (incl. failed and unknown-outcome flush + retry, legacy layout) + controlled 2-3 thread schedules at verif_point hooks with a per-document linearizability check + hook-yield stress",
   "40-op histories (insert incl. duplicate id and empty-token text, remove with original / non-original text / missing id, re-insert over stale entries, purge_ids, compaction, flush/reload) over a small vocabulary with tiny buckets; after every op: return value, len/get_doc_tokens/avg length/invariant walker, term queries (set equality with the model, finite non-negative non-increasing scores, ties by id, scores vs the documented Okapi formula at 1e-4, top-k prefix law, repeat agreement), generated boolean trees depth<=3 incl. all-NOT/double negation/top-level NOT (parse round trip + set algebra), an 18-entry out-of-domain BM25 parameter sweep (finite scores, unchanged set); every prefix of every flush's bucket/metadata/delete sequence is loaded and must equal the last or the new commit in load form, plus durable-layout checks; 2-3 threads are scheduled at the 15 bm25.* hook points (budgeted DFS + random) and judged by per-document linearizability, own-document visibility, invariants and flush/reload == memory.",
   "Histories, boolean trees, parameters and k are sampled; crash prefixes of every generated flush are complete; interleavings are controlled at hook points only. An insert racing a remove of the SAME id is outside the workload (ids are caller-assigned and never reused concurrently by anda_db); recorded as an assumption.",
   "DESIGN.md C11"),
 "C12": ("v_idx", "exploration",
   "per-search soundness oracle against a harness-side bf16 copy with an independent f64 metric + fault enumeration over the recorded flush_with/purge callback sequence + statistical recall monitor (port of tests/recall.rs with independent layer draws) + concurrent stress judged with an interval-liveness oracle",
   "Histories (insert f32/bf16, duplicate id, remove, missing id, re-insert with a new vector, removal of the entry node, invalid inputs, flush/reload) over dims 2..64, four metrics, both neighbour strategies, reconnect on/off, small M/ef; every search result must be <= k distinct live ids with finite, non-decreasing distances equal to the harness metric (1e-2 rel + 1e-3 abs fixed up front); len/stats/node_ids/stored vectors audited after every op; every prefix of every flush (nodes, ids, metadata, purge deletes, incl. injected write failures and mutations in flight) is loaded: decodable nodes, no committed-removed id reappears, committed untouched ids present, exact equality after the metadata write, soundness audit, a third continue with re-indexing + flush + reload; all six documented recall workloads are re-run with several independent layer draws against their documented floors (heavy_deletions on the mean of 5 draws: its measured lower tail touches the 0.50 floor), plus three interrupted-flush variants at floor - 0.05; two writers + two searchers as OS threads are judged against ids possibly live during each search.",
   "Node layers come from an unseedable thread RNG: replays re-create operations, not layers. Completeness/self-hit are measured, not asserted (graphs legitimately disconnect without reconnect). Recall is a statistic over sampled draws.",
   "DESIGN.md C12"),
 "C14": ("v_server", "exploration",
   "runtime monitoring of the in-process HTTP service over a recording object store: dispatch table extracted at run time, completely enumerated request matrix, relational 4-world replay (non-interference), lifecycle-state read probes with a mutation-log silence oracle, model-checked key/lifecycle histories",
   "build_router(AppState) is driven in-process with tower oneshot over RecStore(InMemory). The method table is parsed from the working tree's api/mod.rs at run time (new methods are enumerated automatically; a shrunk or unclassifiable table is inconclusive). Matrix: 20 callers (none, malformed, garbage incl. stored hashes, admin, key A, key B, other key of B, revoked keys, key of a closed db) x 20 paths (root, A, B, unkeyed, primary, closed, missing, traversal/percent-encoded/oversized/invalid-UTF-8/unrouted) x 3 encodings x all table methods + unknown names + oversize body + collection traversal = 62,600 requests, all executed. Oracles: uniform rejection byte-identical to the anonymous 401 (harness model of the auth rules), path-only responses identical for all callers/worlds, no effective mutation and unchanged admin view after rejected requests, accepted db-key requests mutate only under their prefix and leak no foreign names/markers, Read-labelled methods leave no mutation in 7 lifecycle states, every caller without a B-valid key gets byte-identical responses in four worlds differing only in B; generated set/remove_api_key/create/close/open/restart/crash histories are probed after every step against a binding model; restart guards.",
   "Writes by the documented lazy collection open on first read are counted and confined to the database prefix, then the read is measured on the loaded handle. Clock-dependent statistics fields are masked only in the own-database cross-world comparison. Keyless mode and timing side channels are outside the checked space.",
   "DESIGN.md C14"),
 "C15": ("v_kip", "exploration",
   "grammar-based generation + metamorphic relations executed in child processes on a small fixed stack with abort attribution; CPU-time scaling measurements",
   "Inputs: Unicode/byte noise, a grammar-derived KQL/KML/META/JSON sentence generator (330 required AST families, depth up to and beyond the nesting limit, lengths up to and beyond the input limit), the repository's own corpora read at run time (719 items), and 13 token-level mutators; all parsing runs in re-exec'd child processes on a 1 MiB-stack thread (a child death is bisected to the input and reported). Oracles: every entry point returns Ok/Err twice identically; over-limit inputs are refused with the resource error by all five entry points with a bounded number of allocations (exact depth/length boundary cases over 33 bracket kinds incl. string/comment decoys are enumerated); parse_kip == specific parser + validate_command, classes agree; on accepted input validate_command is Ok, serde value/text round trips are equal and re-validate, a stray-token append fails or changes the tree, case / trivia / compact renderings give an equal AST; 29 pathological families are measured in thread CPU time at doubling sizes up to the largest legal input.",
   "Inputs are sampled except the boundary cases. The bounded-work oracle fires at > 5 s CPU with super-linear growth or > 10 s with linear growth for the largest legal input (absolute, generous bound; measurements otherwise). ASan for the parser corpus is not implemented.",
   "DESIGN.md C15"),
 "C16": ("v_kip", "exploration",
   "completely enumerated guard matrix + independent AST walker over accepted trees + JSON-level tree injection into validate_command + ASSERT desugaring differential against a harness-side definition",
   "308,062 matrix cells (11 clause families and their assignment blocks x 29 target-kind WHERE shapes x 25 names (engine-owned, payload, aliases, ordinary) x 25 spellings x 3 wraps, plus PURGE confirm, ENSURE/ASSERT id forms, UPSERT MATCH identities, 40 handle plans) are rendered, parsed and - when accepted - walked by a harness visitor written from the specification (engine-owned key in any SET/UNSET block, immutable payload via SET FIELDS, record topology via UPDATE on statically bound targets, BELIEF in a mutation WHERE / EXPORT selection, UPSERT without stable identity, handle declared twice, handle never bound, unconfirmed PURGE); ~45 JSON injection operators are applied at every site of representative accepted trees and fed to validate_command, accepted results are walked; ASSERT statements are compared with a harness-side expansion (exactly EnsureProposition + CreateAssertion + Supersede iff SUPERSEDING, exactly the written fields, missing by/mode refused); a sanity set proves every walker rule can fire.",
   "exhaustive: true refers to the matrix only; injected trees, generated plans and ASSERT statements are sampled. Direct-id targets are not judged (undecidable syntactically).",
   "DESIGN.md C16"),
}

NOT_YET = {
}

def main():
    checks = []
    for pid, (pkg, level, tech, text, note, ref) in sorted(CHECKS.items()):
        checks.append({
            "property_id": pid,
            "quick_cmd": f"./check {pid} quick",
            "thorough_cmd": f"./check {pid} thorough",
            "evidence_file": f"/verif/evidence/{pid}.json",
            "replay_cmd_template": f"./check {pid} quick --replay {{path}}",
            "engine": pkg,
            "level_claimed": {"category": level, "text": text, "design_ref": ref},
            "level_note": note,
            "technique": tech,
        })
    allp = [json.loads(l)["id"] for l in open("/verif/properties.jsonl")]
    na = [{"property_id": p, "reason": NOT_YET.get(p, "check under construction in this round: no monitor registered yet (runtime monitoring is applicable; see DESIGN.md)")}
          for p in allp if p not in CHECKS]
    m = {
        "version": 1,
        "setup_cmd": "./setup.sh",
        "hooks": {
            "guard": "cargo feature `verif` (anda_db_utils, anda_db_btree, anda_db_tfs, anda_object_store)",
            "enable": "the harness workspace /verif/harness depends on /repo/rs/* by path with features = [\"verif\"]; ./check rebuilds from the working tree",
            "baseline_off_cmd": "cd /repo && cargo nextest run --workspace --no-fail-fast --test-threads 8 --offline || cargo test --workspace --no-fail-fast --offline",
            "source_commits": [l.split()[0] for l in HOOK_COMMITS],
            "add_only": True,
        },
        "engines": [
            {"name": "vcore", "path": "/verif/harness/vcore", "serves_properties": allp,
             "kind_free_text": "shared runtime-monitoring machinery: seeded RNG, RecStore (recording/fault/gate ObjectStore), manual executor + DFS/random schedule choosers, OS-thread turn scheduler for verif_point hooks, evidence/verdict writer"},
            {"name": "v_idx", "path": "/verif/harness/v_idx", "serves_properties": ["C10", "C11", "C12"],
             "kind_free_text": "monitors for the index crates (btree, tfs, hnsw)"},
            {"name": "v_db", "path": "/verif/harness/v_db", "serves_properties": ["C01", "C02", "C03", "C04", "C05", "C06"],
             "kind_free_text": "fixture F (model + audit + driver + crash machinery) and the anda_db collection monitors"},
            {"name": "v_store", "path": "/verif/harness/v_store", "serves_properties": ["C07", "C08", "C09"],
             "kind_free_text": "monitors for MetaStore / EncryptedStore"},
            {"name": "v_schema", "path": "/verif/harness/v_schema", "serves_properties": ["C13"], "kind_free_text": "schema/document round-trip monitors"},
            {"name": "v_server", "path": "/verif/harness/v_server", "serves_properties": ["C14"], "kind_free_text": "HTTP service isolation monitors"},
            {"name": "v_kip", "path": "/verif/harness/v_kip", "serves_properties": ["C15", "C16"], "kind_free_text": "KIP parser monitors"},
            {"name": "v_nexus", "path": "/verif/harness/v_nexus", "serves_properties": ["C17", "C18", "C19", "C20"], "kind_free_text": "Cognitive Nexus monitors"},
        ],
        "checks": checks,
        "not_applicable": na,
        "notes": "Technique family: runtime monitoring and sanitizers. Every check executes the real crates under /repo/rs rebuilt from the working tree. Exit 0 held / 1 VIOLATION / 2 inconclusive.",
    }
    json.dump(m, open("/verif/MANIFEST.json", "w"), indent=1)
    print("checks:", [c["property_id"] for c in checks], "not_applicable:", len(na))

main()

//! Crash / fault machinery shared by C01, C04 and C06: clean recorded runs, crash-point
//! materialization, recovery, the acknowledged-history oracle, convergence and the unknown-outcome
//! re-execution (see bin/c01.rs for the overview).

use anda_db::error::DBError;
use anda_object_store::{EncryptedStoreBuilder, MetaStoreBuilder};
use object_store::ObjectStore;
use std::collections::BTreeSet;
use std::rc::Rc;
use std::sync::Arc;
use crate::audit::{AuditCtx, audit};
use crate::driver::{Driver, GenCfg, Op, Step, gen_op};
use crate::{COLL, Cfg, FDoc, IndexSet, Model, apply_patch, connect, gen_doc, open_coll};
use vcore::recstore::{Fault, RecStore};
use vcore::run::block_on;
use vcore::{Rng, Stats, Value, json};

static PREFIX: std::sync::RwLock<String> = std::sync::RwLock::new(String::new());
static CONTENTIONS: std::sync::RwLock<Vec<u64>> = std::sync::RwLock::new(Vec::new());

/// Signature prefix of violations raised by this module (property id of the calling check).
static DEADLINE_MS: std::sync::atomic::AtomicU64 = std::sync::atomic::AtomicU64::new(u64::MAX);
/// Exploration deadline (milliseconds since the UNIX epoch) after which long workloads stop early;
/// it bounds exploration only, never a verdict.
pub fn set_deadline_in(d: std::time::Duration) {
    let now = std::time::SystemTime::now().duration_since(std::time::UNIX_EPOCH).unwrap_or_default();
    DEADLINE_MS.store((now + d).as_millis() as u64, std::sync::atomic::Ordering::Relaxed);
}
fn deadline_passed() -> bool {
    let now = std::time::SystemTime::now().duration_since(std::time::UNIX_EPOCH).unwrap_or_default().as_millis() as u64;
    now > DEADLINE_MS.load(std::sync::atomic::Ordering::Relaxed)
}

pub fn set_prefix(p: &str) {
    *PREFIX.write().unwrap() = p.to_string();
}
/// Contention levels (number of distinct unique values) workloads draw from.
pub fn set_contentions(c: &[u64]) {
    *CONTENTIONS.write().unwrap() = c.to_vec();
}
fn pfx() -> String {
    let p = PREFIX.read().unwrap();
    if p.is_empty() { "C01".to_string() } else { p.clone() }
}
fn sg(s: &str) -> String {
    format!("{}/{s}", pfx())
}
fn pick_contention(rng: &mut Rng) -> u64 {
    let c = CONTENTIONS.read().unwrap();
    if c.is_empty() { *rng.pick(&[5u64, 10, 30]) } else { *rng.pick(&c) }
}

#[derive(Debug, Clone, Copy, PartialEq, Eq)]
pub enum Backend {
    Plain,
    Meta,
    Enc,
}

pub fn wrap(b: Backend, inner: Arc<dyn ObjectStore>) -> Arc<dyn ObjectStore> {
    match b {
        Backend::Plain => inner,
        Backend::Meta => Arc::new(MetaStoreBuilder::new(inner, 10000).build()),
        Backend::Enc => Arc::new(EncryptedStoreBuilder::with_secret(inner, 10000, [7u8; 32]).build()),
    }
}

#[derive(Clone)]
pub struct OpRec {
    pub op: Option<Op>, // None = setup (connect + create collection + indexes)
    pub set_after: IndexSet,
    pub end: usize,
    pub after: Rc<Model>,
    /// ids whose add had been acknowledged by a flush / clean close once this op returned
    pub issued_after: Rc<BTreeSet<u64>>,
    /// id the op touched (add: the new id), when it changed the model
    pub touched: Option<u64>,
}

pub struct Clean {
    pub rec: RecStore,
    pub recs: Vec<OpRec>,
    pub cfg: Cfg,
    pub backend: Backend,
    set0: IndexSet,
    pub history: Vec<String>,
}

pub fn gencfg(contention: u64) -> GenCfg {
    GenCfg { contention, ..Default::default() }
}

/// A run of consecutive id allocations without a flush in between, longer than any window the
/// recovery path might be tempted to bound (allocation watermark stride = 64, "a few misses in a
/// row"): `Holes` = add + remove pairs and rejected adds (ids consumed, no object left), `Kept` =
/// plain adds (the watermark has to be re-published when the stride is crossed), `Mixed` = both.
/// A keeper document is added right after the run; crash points after its acknowledgement and
/// before the next flush are where a shortened repair scan loses it.
#[derive(Clone, Copy, Debug, PartialEq, Eq)]
pub enum Burst {
    Holes,
    Kept,
    Mixed,
}

pub async fn clean_run(rng: &mut Rng, backend: Backend, n_ops: usize, st: &mut Stats) -> Option<Clean> {
    clean_run_with(rng, backend, n_ops, None, st).await
}

/// Initial index set: all nine (one time in `all_den`), otherwise none at all (a plain document
/// store: no index can vouch for a document or for a removal; seeded change C01-6), exactly one, or
/// a random subset.
pub fn pick_set0(rng: &mut Rng, all_den: u64) -> IndexSet {
    if rng.chance(1, all_den) {
        return IndexSet::ALL;
    }
    match rng.below(8) {
        0 | 1 => IndexSet(0),
        2 => IndexSet(1 << rng.below(9)),
        _ => IndexSet(rng.below(512) as u16),
    }
}

pub async fn clean_run_with(rng: &mut Rng, backend: Backend, n_ops: usize, burst: Option<(Burst, usize)>, st: &mut Stats) -> Option<Clean> {
    let cfg = Cfg::random(rng);
    let contention = pick_contention(rng);
    let set0 = pick_set0(rng, 3);
    if set0.0 == 0 {
        st.count("workloads_starting_without_any_index");
    }
    let rec = RecStore::new();
    rec.set_record_reads(false);
    let store = wrap(backend, rec.as_dyn());
    let mut d = match Driver::start(store, cfg, set0).await {
        Ok(d) => d,
        Err(e) => {
            st.violation(sg("clean_setup_failed"), json!({"error": format!("{e:?}")}));
            return None;
        }
    };
    let mut recs = vec![OpRec {
        op: None,
        set_after: set0,
        end: rec.landed() as usize,
        after: Rc::new(Model::default()),
        issued_after: Rc::new(BTreeSet::new()),
        touched: None,
    }];
    let g = gencfg(contention);
    let mut last_added: Option<u64> = None;
    // every workload contains one reopen that creates one index and removes another in the same
    // open callback (an index swap), placed at a random position
    let swap_at = n_ops / 3 + rng.usize(n_ops / 2 + 1);
    // planned operations that take precedence over generated ones (the allocation burst)
    let mut planned: std::collections::VecDeque<Planned> = Default::default();
    let burst_at = burst.map(|_| 2 + rng.usize(n_ops.saturating_sub(3).max(1)));
    let mut i = 0;
    let mut burst_done = false;
    let motif_at: Vec<usize> = if burst.is_none() { vec![1 + rng.usize(n_ops.max(2) - 1), 1 + rng.usize(n_ops.max(2) - 1)] } else { vec![] };
    let mut motif_done: Vec<usize> = vec![];
    while i < n_ops || !planned.is_empty() {
        if Some(i) == burst_at && !burst_done {
            burst_done = true;
            let (kind, k) = burst.unwrap();
            planned.push_back(Planned::Fixed(Op::Flush));
            for j in 0..k {
                let hole = match kind {
                    Burst::Holes => true,
                    Burst::Kept => false,
                    Burst::Mixed => j % 3 != 0,
                };
                planned.push_back(Planned::FreshAdd);
                if hole {
                    planned.push_back(Planned::RemoveLastAdded);
                }
            }
            planned.push_back(Planned::FreshAdd); // the keeper
            st.count(&format!("allocation_bursts:{kind:?}"));
            st.max("max_allocation_burst_len", k as u64);
        }
        // motif "document mutation, extension write, flush": the eager metadata write of an
        // extension call sits between a document mutation and the checkpoint that has to persist
        // the id set (two eager writers of one metadata object with different claims on it)
        if motif_at.contains(&i) && planned.is_empty() && !motif_done.contains(&i) {
            motif_done.push(i);
            planned.push_back(Planned::DocMutation);
            planned.push_back(Planned::ExtOp);
            if rng.chance(1, 3) {
                planned.push_back(Planned::ExtOp);
            }
            planned.push_back(Planned::Fixed(Op::Flush));
            st.count("motif_mutation_extension_flush");
        }
        let from_plan = planned.pop_front();
        let in_burst = from_plan.is_some();
        let mut op = match from_plan {
            Some(Planned::DocMutation) => {
                let mut op = gen_op(rng, &d.model, d.set, &g);
                for _ in 0..20 {
                    if matches!(op, Op::Add(_) | Op::Remove(_) | Op::Update(_, _, None)) {
                        break;
                    }
                    op = gen_op(rng, &d.model, d.set, &g);
                }
                op
            }
            Some(Planned::ExtOp) => {
                let keys: Vec<String> = d.model.ext.keys().cloned().collect();
                if !keys.is_empty() && rng.chance(2, 3) { Op::RemoveExt(rng.pick(&keys).clone()) } else { Op::SaveExt(format!("k{}", rng.below(3)), rng.below(1000)) }
            }
            Some(Planned::Fixed(op)) => op,
            Some(Planned::FreshAdd) => {
                // unique fields drawn from a huge space: accepted unless the wrong-dimension coin hits
                let mut doc = crate::gen_doc(rng, 1 << 40);
                doc.codes.clear();
                doc.slot = 1_000_000 + i as u64 * 1000 + planned.len() as u64;
                Op::Add(doc)
            }
            Some(Planned::RemoveLastAdded) => match last_added {
                Some(id) if d.model.docs.contains_key(&id) => Op::Remove(id),
                _ => continue,
            },
            None => gen_op(rng, &d.model, d.set, &g),
        };
        if !in_burst {
            i += 1;
        }
        if !in_burst && i - 1 == swap_at {
            let present: Vec<u16> = (0..9).map(|b| 1u16 << b).filter(|b| d.set.has(*b)).collect();
            let absent: Vec<u16> = (0..9).map(|b| 1u16 << b).filter(|b| !d.set.has(*b)).collect();
            let mut ns = d.set;
            if let Some(a) = absent.first().copied().or(None) {
                let a = if absent.len() > 1 { *rng.pick(&absent) } else { a };
                if !crate::backfill_conflict(&d.model, IndexSet(a)) {
                    ns = IndexSet(ns.0 | a);
                }
            }
            if !present.is_empty() {
                ns = IndexSet(ns.0 & !*rng.pick(&present));
            }
            if absent.is_empty() {
                // all registered: remove two now, a later random reopen may bring them back
                ns = IndexSet(ns.0 & !*rng.pick(&present));
            }
            op = Op::Reopen(ns);
            st.count("forced_index_swap_reopens");
        }
        let before_ids: BTreeSet<u64> = d.model.docs.keys().copied().collect();
        let step = d.step(&op, st).await;
        match step {
            Step::Applied | Step::Rejected(_) => {}
            Step::Failed(e) => {
                st.violation(sg("storage_error_in_clean_run"), json!({"error": e, "context": d.ctx()}));
                return None;
            }
            Step::Wrong(sig, detail) => {
                st.violation(format!("{}/clean/{sig}", pfx()), json!({"detail": detail, "context": d.ctx()}));
                return None;
            }
        }
        if let Op::Add(_) = &op {
            last_added = d.model.docs.keys().find(|k| !before_ids.contains(k)).copied();
        }
        let touched = match &op {
            Op::Add(_) => d.model.docs.keys().find(|k| !before_ids.contains(k)).copied(),
            Op::Update(id, ..) | Op::Remove(id) => Some(*id),
            _ => None,
        };
        recs.push(OpRec {
            op: Some(op),
            set_after: d.set,
            end: rec.landed() as usize,
            after: Rc::new(d.model.clone()),
            issued_after: Rc::new(d.flushed_issued.clone()),
            touched,
        });
    }
    Some(Clean { rec, recs, cfg, backend, set0, history: d.history.clone() })
}

enum Planned {
    Fixed(Op),
    FreshAdd,
    RemoveLastAdded,
    /// an add / update / remove drawn from the generator
    DocMutation,
    /// remove_extension of an existing key when there is one, else save_extension
    ExtOp,
}

/// What had been acknowledged when mutation k landed, and the operation in flight.
pub struct Cut<'a> {
    pub acked: &'a OpRec,
    pub inflight: Option<&'a OpRec>,
    pub inflight_index: usize,
}

pub fn cut(recs: &[OpRec], k: usize) -> Option<Cut<'_>> {
    // ops are sequential, so `end` is non-decreasing; acked = maximal prefix with end <= k
    let n_acked = recs.iter().take_while(|r| r.end <= k).count();
    if n_acked == 0 {
        return None; // inside setup
    }
    Some(Cut { acked: &recs[n_acked - 1], inflight: recs.get(n_acked), inflight_index: n_acked })
}

pub async fn try_recover(
    store: Arc<dyn ObjectStore>,
    cfg: &Cfg,
    set: IndexSet,
    allow_recreate: bool,
    st: &mut Stats,
) -> Result<(anda_db::database::AndaDB, Arc<anda_db::collection::Collection>), DBError> {
    let db = connect(store, cfg).await?;
    match open_coll(&db, set).await {
        Ok(c) => Ok((db, c)),
        Err(DBError::AlreadyExists { .. }) if allow_recreate => {
            // documented remedy for a crash inside collection creation
            st.count("recovery_needed_delete_and_recreate");
            db.delete_collection(COLL).await?;
            let c = open_coll(&db, set).await?;
            Ok((db, c))
        }
        Err(e) => Err(e),
    }
}

/// Judges a recovered handle against the acknowledged history. Returns the model it settled on.
#[allow(clippy::too_many_arguments)]
pub async fn judge(
    coll: &anda_db::collection::Collection,
    clean: &Clean,
    k: usize,
    set: IndexSet,
    what: &str,
    st: &mut Stats,
    extra: &Value,
) -> Option<(Model, BTreeSet<u64>)> {
    let ctx = || {
        json!({"backend": format!("{:?}", clean.backend), "cfg": format!("{:?}", clean.cfg), "crash_after_mutation": k,
               "of": clean.rec.landed(), "initial_indexes": clean.set0.0, "recovery_indexes": set.0, "history": clean.history,
               "mutation_at_crash": clean.rec.mutations().get(k.saturating_sub(1)).map(|m| m.describe()), "extra": extra})
    };
    let (m0, inflight, issued): (Model, Option<&OpRec>, BTreeSet<u64>) = match cut(&clean.recs, k) {
        None => (Model::default(), None, BTreeSet::new()),
        Some(c) => ((*c.acked.after).clone(), c.inflight, (*c.acked.issued_after).clone()),
    };
    // candidate: the in-flight operation fully applied
    let mut chosen = m0.clone();
    let mut issued = issued;
    if let Some(r) = inflight {
        st.count(&format!("crash_inflight:{}", r.op.as_ref().map(|o| o.kind()).unwrap_or("setup")));
        if let (Some(op), Some(id)) = (&r.op, r.touched) {
            let m1 = &*r.after;
            let applied = match op {
                Op::Add(_) => coll.contains(id),
                Op::Remove(_) => m0.docs.contains_key(&id) && !coll.contains(id),
                Op::Update(..) => match (coll.get_as::<FDoc>(id).await, m1.docs.get(&id), m0.docs.get(&id)) {
                    (Ok(d), Some(n), Some(o)) => &d == n && n != o,
                    _ => false,
                },
                _ => false,
            };
            if applied {
                chosen = m1.clone();
                issued = (*r.issued_after).clone();
                st.count("inflight_op_found_applied");
            } else {
                st.count("inflight_op_found_not_applied");
            }
            // extensions are judged leniently below, keep the acked ones
            chosen.ext = m0.ext.clone();
        }
    } else {
        st.count("crash_between_ops");
    }
    let sig = format!("{}/{what}", pfx());
    let ok = audit(coll, &chosen, set, st, &AuditCtx { sig: &sig, ctx: &ctx }).await;
    if !ok {
        return None;
    }
    st.count("recovered_states_audited");
    Some((chosen, issued))
}

/// After recovery the collection must accept and persist new writes; fresh ids never collide
/// with acknowledged ones; a clean reopen reproduces the state; a further reopen is a fixpoint.
#[allow(clippy::too_many_arguments)]
pub async fn converge(
    store: Arc<dyn ObjectStore>,
    rec: &RecStore,
    db: anda_db::database::AndaDB,
    coll: Arc<anda_db::collection::Collection>,
    clean: &Clean,
    set: IndexSet,
    mut model: Model,
    issued: BTreeSet<u64>,
    k: usize,
    rng: &mut Rng,
    st: &mut Stats,
) {
    let ctx = || json!({"backend": format!("{:?}", clean.backend), "cfg": format!("{:?}", clean.cfg), "crash_after_mutation": k, "history": clean.history});
    let mut fresh_ids = vec![];
    for i in 0..2u64 {
        let mut d = gen_doc(rng, 1000);
        d.uname = format!("fresh-{k}-{i}");
        d.codes = vec![format!("fresh-code-{k}-{i}")];
        d.grp = "gz".into();
        d.slot = 100_000 + k as u64 * 4 + i;
        match coll.add_from(&d).await {
            Ok(id) => {
                if issued.contains(&id) || model.docs.contains_key(&id) {
                    st.violation(sg("id_handed_out_twice"), json!({"id": id, "acknowledged_ids": issued, "context": ctx()}));
                    return;
                }
                if let Some(max) = issued.iter().next_back() {
                    if id <= *max {
                        st.violation(sg("new_id_not_above_acknowledged"), json!({"id": id, "max_acknowledged": max, "context": ctx()}));
                        return;
                    }
                }
                d._id = id;
                model.docs.insert(id, d);
                fresh_ids.push(id);
            }
            Err(e) => {
                st.violation(sg("recovered_collection_rejects_writes"), json!({"error": format!("{e:?}"), "context": ctx()}));
                return;
            }
        }
    }
    // update one, remove one
    if let Some(id) = fresh_ids.first().copied() {
        let mut p = crate::Patch::new();
        p.insert("age".into(), anda_db::schema::Fv::U64(77));
        match coll.update(id, p.clone()).await {
            Ok(_) => {
                let n = apply_patch(&model.docs[&id], &p).unwrap();
                model.docs.insert(id, n);
            }
            Err(e) => {
                st.violation(sg("recovered_collection_rejects_update"), json!({"error": format!("{e:?}"), "context": ctx()}));
                return;
            }
        }
    }
    if let Some(id) = model.docs.keys().next().copied() {
        match coll.remove(id).await {
            Ok(Some(_)) => {
                model.docs.remove(&id);
            }
            other => {
                st.violation(sg("recovered_collection_remove"), json!({"id": id, "result": format!("{:?}", other.map(|o| o.is_some())), "context": ctx()}));
                return;
            }
        }
    }
    if let Err(e) = coll.flush(anda_db::unix_ms()).await {
        st.violation(sg("flush_after_recovery_failed"), json!({"error": format!("{e:?}"), "context": ctx()}));
        return;
    }
    if let Err(e) = db.close().await {
        st.violation(sg("close_after_recovery_failed"), json!({"error": format!("{e:?}"), "context": ctx()}));
        return;
    }
    drop(coll);
    drop(db);
    // clean reopen: state == model
    let (db2, c2) = match try_recover(store.clone(), &clean.cfg, set, false, st).await {
        Ok(x) => x,
        Err(e) => {
            st.violation(sg("reopen_after_recovery_failed"), json!({"error": format!("{e:?}"), "context": ctx()}));
            return;
        }
    };
    if !audit(&c2, &model, set, st, &AuditCtx { sig: &sg("after_recovery_and_writes"), ctx: &ctx }).await {
        return;
    }
    let _ = db2.close().await;
    drop(c2);
    drop(db2);
    // fixpoint: a further reopen + close does not keep repairing
    let mark = rec.mark();
    match try_recover(store.clone(), &clean.cfg, set, false, st).await {
        Ok((db3, c3)) => {
            let n_open = rec.mutations_since(mark, None).iter().filter(|m| m.effective()).count();
            st.max("max_mutations_of_a_settled_reopen", n_open as u64);
            if n_open == 0 {
                st.count("settled_reopen_wrote_nothing");
            }
            let _ = db3.close().await;
            drop(c3);
        }
        Err(e) => {
            st.violation(sg("second_reopen_failed"), json!({"error": format!("{e:?}"), "context": ctx()}));
        }
    }
    st.count("convergence_checks");
}

pub fn recovery_set(clean: &Clean, k: usize) -> (IndexSet, bool) {
    match cut(&clean.recs, k) {
        None => (clean.set0, true),
        Some(c) => {
            // an application restarts with the index configuration it was moving to
            let set = match c.inflight.and_then(|r| r.op.as_ref()) {
                Some(Op::Reopen(ns)) => *ns,
                _ => c.acked.set_after,
            };
            // creation is acknowledged once setup returned
            let _ = c.inflight_index;
            (set, false)
        }
    }
}

pub async fn level1(clean: &Clean, k: usize, rng: &mut Rng, st: &mut Stats, do_converge: bool, l2_samples: usize) {
    let inner = clean.rec.materialize(k).await;
    let r1 = RecStore::over(inner.clone());
    r1.set_record_reads(false);
    let store = wrap(clean.backend, r1.as_dyn());
    let (set, in_setup) = recovery_set(clean, k);
    st.eval();
    st.count("crash_points_l1");
    let ctx = || json!({"backend": format!("{:?}", clean.backend), "cfg": format!("{:?}", clean.cfg), "crash_after_mutation": k,
                        "history": clean.history, "mutation_at_crash": clean.rec.mutations().get(k.saturating_sub(1)).map(|m| m.describe())});
    let (db, coll) = match try_recover(store.clone(), &clean.cfg, set, in_setup, st).await {
        Ok(x) => x,
        Err(e) => {
            st.violation(sg("L1/reopen_failed"), json!({"error": format!("{e:?}"), "context": ctx()}));
            return;
        }
    };
    let r_k = r1.landed() as usize;
    st.max("max_recovery_mutations", r_k as u64);
    if r_k > 0 {
        st.count("recoveries_that_repaired_something");
    }
    let Some((model, issued)) = judge(&coll, clean, k, set, "L1", st, &json!(null)).await else {
        return;
    };
    st.set("recovered_states", vcore::fnv_str(&format!("{:?}", model.docs)));
    if do_converge {
        converge(store, &r1, db, coll, clean, set, model, issued, k, rng, st).await;
    } else {
        drop(coll);
        drop(db);
    }
    // L2: crash the recovery itself after j of its own mutations, then recover again
    if r_k > 0 && l2_samples > 0 {
        let js: Vec<usize> = if l2_samples >= r_k { (0..r_k).collect() } else { (0..l2_samples).map(|_| rng.usize(r_k)).collect() };
        for j in js {
            let inner = clean.rec.materialize(k).await;
            let r2 = RecStore::over(inner);
            r2.set_record_reads(false);
            r2.set_fault(Fault::PowerOffAfter(j as u64));
            let store2 = wrap(clean.backend, r2.as_dyn());
            let first = try_recover(store2, &clean.cfg, set, in_setup, st).await;
            drop(first); // whatever it managed: the process dies here
            r2.reset_faults();
            let dbg = std::env::var("VERIF_DEBUG").ok().and_then(|v| v.parse::<usize>().ok()) == Some(k);
            if dbg {
                println!("--- k={k} j={j}: mutations of the crashed recovery:");
                for m in r2.mutations() {
                    println!("      {}", m.describe());
                }
            }
            let mark2 = r2.mark();
            st.eval();
            st.count("crash_points_l2");
            // cold wrapper instance for the second boot
            let store3 = wrap(clean.backend, r2.as_dyn());
            match try_recover(store3, &clean.cfg, set, true, st).await {
                Ok((_db, coll)) => {
                    if dbg {
                        println!("--- second recovery wrote:");
                        for m in r2.mutations_since(mark2, None) {
                            println!("      {}", m.describe());
                        }
                    }
                    judge(&coll, clean, k, set, "L2", st, &json!({"recovery_crashed_after": j, "of": r_k})).await;
                }
                Err(e) => {
                    let mut c = ctx();
                    c["recovery_crashed_after"] = json!(j);
                    st.violation(sg("L2/reopen_failed"), json!({"error": format!("{e:?}"), "context": c}));
                }
            }
        }
    }
}

/// Unknown-outcome monitor: the workload is re-executed with one backend call failing.
pub async fn unknown_outcome(seed_rng: &Rng, backend: Backend, n_ops: usize, fault: Fault, st: &mut Stats) {
    let mut rng = seed_rng.clone();
    let rng = &mut rng;
    let cfg = Cfg::random(rng);
    let contention = pick_contention(rng);
    let set0 = pick_set0(rng, 3);
    let rec = RecStore::new();
    rec.set_record_reads(false);
    rec.set_fault(fault);
    let store = wrap(backend, rec.as_dyn());
    st.eval();
    st.count("unknown_outcome_runs");
    let mut hist_prefix = vec![format!("fault={fault:?} backend={backend:?}")];
    let mut d = match Driver::start(store.clone(), cfg, set0).await {
        Ok(d) => d,
        Err(e) if crate::driver::is_injected(&e) => {
            // the fault hit database/collection creation: restart like an application
            st.count("fault_hit_setup");
            match recover_driver(store.clone(), cfg, set0, true, st).await {
                Ok(d) => d,
                Err(e2) => {
                    st.violation(sg("UO/reopen_after_failed_setup"), json!({"first_error": format!("{e:?}"), "error": format!("{e2:?}"), "fault": format!("{fault:?}"), "backend": format!("{backend:?}")}));
                    return;
                }
            }
        }
        Err(e) => {
            st.violation(sg("UO/setup_failed"), json!({"error": format!("{e:?}")}));
            return;
        }
    };
    let g = gencfg(contention);
    for _ in 0..n_ops {
        let op = gen_op(rng, &d.model, d.set, &g);
        let before = d.model.clone();
        let issued_before = d.issued.clone();
        let flushed_before = d.flushed_issued.clone();
        let set_before = d.set;
        let step = d.step(&op, st).await;
        match step {
            Step::Applied | Step::Rejected(_) => {}
            Step::Wrong(sig, detail) => {
                hist_prefix.extend(d.history.clone());
                st.violation(format!("{}/UO/{sig}", pfx()), json!({"detail": detail, "history": hist_prefix}));
                return;
            }
            Step::Failed(err) => {
                st.count(&format!("fault_hit_op:{}", op.kind()));
                // unknown outcome: the application reopens (fresh handles, cold wrapper) and looks
                let target_set = match &op { Op::Reopen(ns) => *ns, _ => set_before };
                let cold = wrap(backend, rec.as_dyn());
                let mut nd = match recover_driver(cold, cfg, target_set, false, st).await {
                    Ok(nd) => nd,
                    Err(e2) => {
                        hist_prefix.extend(d.history.clone());
                        st.violation(sg("UO/reopen_failed"), json!({"op_error": err, "error": format!("{e2:?}"), "history": hist_prefix}));
                        return;
                    }
                };
                // resolve the outcome by observation: fully applied or not at all
                let mut resolved = before.clone();
                let _ = &issued_before;
                // after a crash-like reopen only flush-acknowledged ids are protected
                let mut issued = flushed_before.clone();
                match &op {
                    Op::Add(doc) if d.predict_with(&before, set_before, &op).is_none() => {
                        let known: BTreeSet<u64> = before.docs.keys().copied().collect();
                        let extra: Vec<u64> = nd.coll.ids().into_iter().filter(|i| !known.contains(i)).collect();
                        if extra.len() == 1 {
                            let mut n = doc.clone();
                            n._id = extra[0];
                            resolved.docs.insert(extra[0], n);
                            issued.insert(extra[0]);
                            st.count("unknown_outcome_resolved_applied");
                        } else {
                            st.count("unknown_outcome_resolved_not_applied");
                        }
                    }
                    Op::Update(id, p, _) if d.predict_with(&before, set_before, &op).is_none() => {
                        let n = apply_patch(&before.docs[id], p).unwrap();
                        if nd.coll.get_as::<FDoc>(*id).await.ok().as_ref() == Some(&n) && n != before.docs[id] {
                            resolved.docs.insert(*id, n);
                            st.count("unknown_outcome_resolved_applied");
                        } else {
                            st.count("unknown_outcome_resolved_not_applied");
                        }
                    }
                    Op::Remove(id) if before.docs.contains_key(id) => {
                        if !nd.coll.contains(*id) {
                            resolved.docs.remove(id);
                            st.count("unknown_outcome_resolved_applied");
                        } else {
                            st.count("unknown_outcome_resolved_not_applied");
                        }
                    }
                    Op::SaveExt(k, v) => {
                        if nd.coll.get_extension_as::<u64>(k) == Some(*v) {
                            resolved.ext.insert(k.clone(), *v);
                        }
                    }
                    Op::RemoveExt(k) => {
                        if nd.coll.get_extension_as::<u64>(k).is_none() {
                            resolved.ext.remove(k);
                        }
                    }
                    _ => {}
                }
                nd.model = resolved;
                nd.flushed_issued = flushed_before;
                nd.issued = issued;
                nd.history = d.history.clone();
                nd.history.push(format!("-- storage error, application reopened: {}", vcore::clip(&err, 120)));
                d = nd;
                let ctx = d.ctx();
                let ok = audit(&d.coll, &d.model, d.set, st, &AuditCtx { sig: &sg("UO"), ctx: &|| json!({"fault": format!("{fault:?}"), "backend": format!("{backend:?}"), "driver": ctx.clone()}) }).await;
                if !ok {
                    return;
                }
                st.count("unknown_outcome_recoveries_audited");
            }
        }
    }
    // final: clean close + reopen equals the model
    let fired_before_final = rec.fault_fired();
    let _ = d.db.close().await;
    let cold = wrap(backend, rec.as_dyn());
    let mut fin = recover_driver(cold, cfg, d.set, false, st).await;
    if let Err(e) = &fin {
        if crate::driver::is_injected(e) {
            // the one-shot fault fired only now (inside this final close/reopen): restart again
            st.count("fault_hit_final_reopen");
            let cold = wrap(backend, rec.as_dyn());
            fin = recover_driver(cold, cfg, d.set, false, st).await;
        }
    }
    match fin {
        Ok(nd) => {
            // a fault that hit the final clean close leaves the last operations' durability to
            // the crash rules; the model is only binding when the close was undisturbed
            if fired_before_final {
                let ctx = d.ctx();
                audit(&nd.coll, &d.model, d.set, st, &AuditCtx { sig: &sg("UO/final"), ctx: &|| json!({"fault": format!("{fault:?}"), "backend": format!("{backend:?}"), "driver": ctx.clone()}) }).await;
            } else {
                let ctx = d.ctx();
                audit(&nd.coll, &d.model, d.set, st, &AuditCtx { sig: &sg("UO/final_after_late_fault"), ctx: &|| json!({"fault": format!("{fault:?}"), "backend": format!("{backend:?}"), "driver": ctx.clone()}) }).await;
            }
        }
        Err(e) => st.violation(sg("UO/final_reopen_failed"), json!({"error": format!("{e:?}"), "context": d.ctx()})),
    }
    if rec.fault_fired() {
        st.count("unknown_outcome_faults_fired");
    }
}

/// **A backend call fails cleanly, the application keeps using the live handle, later the power
/// goes.** The workload is a run of fresh adds that crosses the 64-id allocation-watermark stride
/// (with one flush somewhere inside); one backend call `a` fails (before landing, or after landing
/// with an error). When the handle stays Active the driver continues on it - as an application
/// that got a clean error for one add would - otherwise it reopens like `unknown_outcome`. After
/// the last add, WITHOUT a flush, the backend is snapshotted (power loss) and recovered: every
/// acknowledged add must be there. This is the combination "single-call fault, then crash later"
/// that neither the prefix enumeration (no faults) nor `unknown_outcome` (reopens at once, ends with
/// a clean close) produces; control-plane writes (watermark, metadata, intents) are always fault
/// targets, document writes on a sample.
pub async fn failed_call_then_crash(seed_rng: &Rng, backend: Backend, tier: vcore::Tier, st: &mut Stats) {
    // clean pass: which attempt touches which object
    let plan = |rng: &mut Rng| -> (Cfg, IndexSet, usize, usize) {
        let cfg = Cfg::random(rng);
        let set0 = pick_set0(rng, 2);
        let n_adds = 70 + rng.usize(70);
        let flush_at = rng.usize(n_adds);
        (cfg, set0, n_adds, flush_at)
    };
    let run = |fault: Option<Fault>| {
        let mut rng = seed_rng.clone();
        async move {
            let (cfg, set0, n_adds, flush_at) = plan(&mut rng);
            let rec = RecStore::new();
            rec.set_record_reads(false);
            let store = wrap(backend, rec.as_dyn());
            let d = Driver::start(store, cfg, set0).await;
            (rng, cfg, set0, n_adds, flush_at, rec, d, fault)
        }
    };
    let (mut rng, _cfg, _set0, n_adds, flush_at, rec, d, _) = run(None).await;
    let Ok(mut d) = d else { return };
    let setup_attempts = rec.attempts() as usize;
    for i in 0..n_adds {
        let mut doc = crate::gen_doc(&mut rng, 1 << 40);
        doc.codes.clear();
        doc.slot = 2_000_000 + i as u64;
        if !matches!(d.step(&Op::Add(doc), st).await, Step::Applied) {
            st.inconclusive("C01 failed_call_then_crash: clean pass add not applied");
            return;
        }
        if i == flush_at {
            let _ = d.step(&Op::Flush, st).await;
        }
    }
    let muts = rec.mutations();
    let mut targets: Vec<(usize, bool)> = vec![]; // (attempt, control plane?)
    for (a, m) in muts.iter().enumerate().skip(setup_attempts) {
        let desc = m.describe();
        let is_doc = desc.contains("/data/") || desc.contains("data/");
        let control = desc.contains("alloc_watermark") || desc.contains("meta") && !is_doc || desc.contains("intent") || desc.contains("ids");
        targets.push((a, control && !is_doc || desc.contains("alloc_watermark")));
    }
    let control: Vec<usize> = targets.iter().filter(|t| t.1).map(|t| t.0).collect();
    let mut sample: Vec<usize> = targets.iter().filter(|t| !t.1).map(|t| t.0).collect();
    let mut pick_rng = seed_rng.clone().fork();
    pick_rng.shuffle(&mut sample);
    sample.truncate(tier.pick(3, 24));
    // every write of the allocation watermark, then an evenly spaced sample of the other
    // control-plane writes, then the sampled document writes
    let wm: Vec<usize> = muts.iter().enumerate().skip(setup_attempts).filter(|(_, m)| m.describe().contains("alloc_watermark")).map(|(a, _)| a).collect();
    st.add("fcc_watermark_write_targets", wm.len() as u64);
    let mut chosen: Vec<usize> = wm.clone();
    let others: Vec<usize> = control.iter().copied().filter(|a| !wm.contains(a)).collect();
    let want = tier.pick(8, 200).min(others.len());
    for j in 0..want {
        chosen.push(others[j * others.len() / want.max(1)]);
    }
    chosen.extend(sample);
    st.add("fcc_control_plane_targets", control.len() as u64);
    for a in chosen {
        for fault in [Fault::FailBefore(a as u64), Fault::FailAfter(a as u64)] {
            let (mut rng, cfg, _set0, n_adds, flush_at, rec, d, _) = run(Some(fault)).await;
            let Ok(mut d) = d else { continue };
            rec.set_fault(fault);
            st.eval();
            st.count("failed_call_then_crash_runs");
            let mut hist_extra: Vec<String> = vec![format!("fault={fault:?} backend={backend:?} target={}", muts[a].describe())];
            let mut aborted = false;
            for i in 0..n_adds {
                let mut doc = crate::gen_doc(&mut rng, 1 << 40);
                doc.codes.clear();
                doc.slot = 2_000_000 + i as u64;
                let before = d.model.clone();
                let set_before = d.set;
                let op = Op::Add(doc.clone());
                match d.step(&op, st).await {
                    Step::Applied | Step::Rejected(_) => {}
                    Step::Wrong(sig, detail) => {
                        hist_extra.extend(d.history.clone());
                        st.violation(format!("{}/FCC/{sig}", pfx()), json!({"detail": detail, "history": hist_extra}));
                        aborted = true;
                        break;
                    }
                    Step::Failed(err) => {
                        st.count("fcc_fault_hit_add");
                        let known: BTreeSet<u64> = before.docs.keys().copied().collect();
                        if d.coll.state() == anda_db::error::CollectionState::Active {
                            // clean error, live handle: the application goes on with it
                            st.count("fcc_continued_on_live_handle");
                            let extra: Vec<u64> = d.coll.ids().into_iter().filter(|i| !known.contains(i)).collect();
                            if extra.len() == 1 {
                                let mut n = doc.clone();
                                n._id = extra[0];
                                d.model.docs.insert(extra[0], n);
                                d.issued.insert(extra[0]);
                            }
                            d.history.push(format!("-- storage error, handle still Active, application continues: {}", vcore::clip(&err, 100)));
                        } else {
                            st.count("fcc_reopened_after_fault");
                            let cold = wrap(backend, rec.as_dyn());
                            let mut nd = match recover_driver(cold, cfg, set_before, false, st).await {
                                Ok(nd) => nd,
                                Err(e2) => {
                                    hist_extra.extend(d.history.clone());
                                    st.violation(sg("FCC/reopen_failed"), json!({"op_error": err, "error": format!("{e2:?}"), "history": hist_extra}));
                                    aborted = true;
                                    break;
                                }
                            };
                            let mut resolved = before.clone();
                            let extra: Vec<u64> = nd.coll.ids().into_iter().filter(|i| !known.contains(i)).collect();
                            let mut issued = d.flushed_issued.clone();
                            if extra.len() == 1 {
                                let mut n = doc.clone();
                                n._id = extra[0];
                                resolved.docs.insert(extra[0], n);
                                issued.insert(extra[0]);
                            }
                            nd.model = resolved;
                            nd.flushed_issued = d.flushed_issued.clone();
                            nd.issued = issued;
                            nd.history = d.history.clone();
                            nd.history.push("-- storage error, application reopened".into());
                            d = nd;
                        }
                    }
                }
                if i == flush_at {
                    match d.step(&Op::Flush, st).await {
                        Step::Failed(_) => {
                            // a failed flush poisons the handle: reopen like an application
                            st.count("fcc_fault_hit_flush");
                            let cold = wrap(backend, rec.as_dyn());
                            match recover_driver(cold, cfg, d.set, false, st).await {
                                Ok(mut nd) => {
                                    nd.model = d.model.clone();
                                    nd.flushed_issued = d.flushed_issued.clone();
                                    nd.issued = d.flushed_issued.clone();
                                    nd.history = d.history.clone();
                                    d = nd;
                                }
                                Err(e2) => {
                                    st.violation(sg("FCC/reopen_failed"), json!({"error": format!("{e2:?}"), "history": d.history}));
                                    aborted = true;
                                    break;
                                }
                            }
                        }
                        Step::Wrong(sig, detail) => {
                            st.violation(format!("{}/FCC/{sig}", pfx()), json!({"detail": detail, "history": d.history}));
                            aborted = true;
                            break;
                        }
                        _ => {}
                    }
                }
            }
            if aborted {
                return;
            }
            if !rec.fault_fired() {
                st.count("fcc_fault_never_reached");
                continue;
            }
            // power loss now (no flush, no close): everything acknowledged must be recovered
            let snap = rec.snapshot().await;
            let cold = wrap(backend, snap as Arc<dyn ObjectStore>);
            match recover_driver(cold, cfg, d.set, false, st).await {
                Err(e) => {
                    hist_extra.extend(d.history.clone());
                    st.violation(sg("FCC/recovery_failed"), json!({"error": format!("{e:?}"), "history": hist_extra}));
                    return;
                }
                Ok(nd) => {
                    let ctx = d.ctx();
                    let he = hist_extra.clone();
                    let ok = audit(&nd.coll, &d.model, d.set, st, &AuditCtx { sig: &sg("FCC"), ctx: &|| json!({"scenario": he, "driver": ctx.clone()}) }).await;
                    st.count("fcc_recoveries_audited");
                    if !ok {
                        return;
                    }
                    // and the recovered collection hands out only fresh ids
                    let mut nd = nd;
                    nd.model = d.model.clone();
                    nd.issued = d.model.docs.keys().copied().collect();
                    for j in 0..3u64 {
                        let mut doc = crate::gen_doc(&mut rng, 1 << 40);
                        doc.codes.clear();
                        doc.slot = 3_000_000 + j;
                        if let Step::Wrong(sig, detail) = nd.step(&Op::Add(doc), st).await {
                            st.violation(format!("{}/FCC/after_recovery/{sig}", pfx()), json!({"detail": detail, "scenario": hist_extra, "history": nd.history}));
                            return;
                        }
                    }
                }
            }
        }
    }
}

pub async fn recover_driver(store: Arc<dyn ObjectStore>, cfg: Cfg, set: IndexSet, allow_recreate: bool, st: &mut Stats) -> Result<Driver, DBError> {
    let (db, coll) = try_recover(store.clone(), &cfg, set, allow_recreate, st).await?;
    Ok(Driver { store, cfg, set, db, coll, model: Model::default(), issued: BTreeSet::new(), flushed_issued: BTreeSet::new(), history: vec![] })
}

pub trait PredictWith {
    fn predict_with(&self, m: &Model, set: IndexSet, op: &Op) -> Option<crate::Reject>;
}
impl PredictWith for Driver {
    fn predict_with(&self, m: &Model, set: IndexSet, op: &Op) -> Option<crate::Reject> {
        match op {
            Op::Add(d) => {
                if m.conflicts(0, d, set) {
                    Some(crate::Reject::Conflict)
                } else if set.has(IndexSet::HNSW) && d.embedding.len() != crate::DIM {
                    Some(crate::Reject::BadVector)
                } else {
                    None
                }
            }
            Op::Update(id, p, bad) => {
                let cur = m.docs.get(id)?;
                if let Some(b) = bad {
                    if *b != crate::Reject::BadVector || set.has(IndexSet::HNSW) {
                        return Some(*b);
                    }
                }
                match apply_patch(cur, p) {
                    Some(n) => m.conflicts(*id, &n, set).then_some(crate::Reject::Conflict),
                    None => Some(crate::Reject::Schema),
                }
            }
            _ => None,
        }
    }
}

pub fn case(case: u64, rng: &mut Rng, st: &mut Stats, tier: vcore::Tier) {
    let backend = [Backend::Plain, Backend::Meta, Backend::Enc][(case % 3) as usize];
    // one workload in eight carries an allocation burst (see `Burst`); it is kept short otherwise
    let burst = if case % 8 == 5 {
        let kind = [Burst::Holes, Burst::Kept, Burst::Mixed][((case / 8) % 3) as usize];
        let k = match kind {
            Burst::Kept => 60 + rng.usize(tier.pick(12, 80)),
            _ => *rng.pick(&[17usize, 24, 33, 48, 65, 70]) + rng.usize(tier.pick(4, 40)),
        };
        Some((kind, k))
    } else {
        None
    };
    let n_ops = if burst.is_some() { 6 + rng.usize(5) } else { 12 + rng.usize(tier.pick(14, 29)) };
    let wl_rng = rng.fork();
    block_on(async {
        let mut r = wl_rng.clone();
        let Some(clean) = clean_run_with(&mut r, backend, n_ops, burst, st).await else {
            return;
        };
        let m = clean.rec.landed() as usize;
        st.count(&format!("workloads:{backend:?}"));
        st.add("clean_run_mutations", m as u64);
        let kinds: BTreeSet<&str> = clean.recs.iter().filter_map(|r| r.op.as_ref().map(|o| o.kind())).collect();
        if kinds.contains("flush") && kinds.contains("update") && kinds.contains("remove") {
            st.distinct(vcore::fnv_str(&clean.history.join(";")));
        }
        // L1: every crash point; convergence on a sample (it costs ~4 reopens). Burst workloads have
        // thousands of crash points with long recoveries: their nested level is sampled in both
        // tiers, and a workload that outlives the exploration budget is cut (counted).
        let big = burst.is_some();
        for k in 0..=m {
            let do_conv = if big { k % 13 == (case as usize % 13) } else { tier.pick(k % 7 == (case as usize % 7), k % 2 == 0) };
            let l2 = if big {
                if k % 17 == (case as usize % 17) { tier.pick(2, 6) } else { 0 }
            } else {
                tier.pick(if k % 11 == (case as usize % 11) { 2 } else { 0 }, if k % 3 == 0 { usize::MAX } else { 0 })
            };
            level1(&clean, k, rng, st, do_conv, l2).await;
            if st.violations.len() >= 3 {
                return;
            }
            if deadline_passed() {
                st.count("workloads_cut_by_exploration_budget");
                st.add("crash_points_not_explored_for_time", (m - k) as u64);
                break;
            }
        }
        // a failed call, the live handle kept, a crash later (stride-crossing add runs)
        if case % 8 == 1 {
            failed_call_then_crash(&wl_rng, backend, tier, st).await;
            if st.violations.len() >= 3 {
                return;
            }
        }
        // UO: a single call failing before / after it landed
        let attempts = clean.rec.attempts() as usize;
        let n_uo = tier.pick(10, attempts);
        for i in 0..n_uo {
            let a = if n_uo >= attempts { i } else { rng.usize(attempts.max(1)) } as u64;
            for fault in [Fault::FailAfter(a), Fault::FailBefore(a)] {
                unknown_outcome(&wl_rng, backend, n_ops, fault, st).await;
                if st.violations.len() >= 3 {
                    return;
                }
            }
        }
        st.sample(|| json!({"backend": format!("{backend:?}"), "cfg": format!("{:?}", clean.cfg), "ops": clean.history.iter().take(8).collect::<Vec<_>>(),
                            "mutations": m, "first_mutations": clean.rec.mutations().iter().take(6).map(|x| x.describe()).collect::<Vec<_>>()}));
    });
}


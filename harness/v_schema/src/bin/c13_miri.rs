//! C13 under Miri: the schema-only oracles (pairs incl. invalid/grey mutations, `FieldKey::as_bytes`
//! - the only `unsafe` of the schema crate -, a few upgrade chains and typed round trips) on a
//! small seeded workload. No storage, no tokio, no threads.
//! usage: c13_miri <seed> <n_values>      (default 20 values: ~2 min under Miri on an idle core, + ~1.5 min first build)
//! run:   cd harness && MIRIFLAGS=-Zmiri-disable-isolation cargo +nightly miri run --offline -p v_schema --bin c13_miri -- 1 20
//! The last line `MIRI-C13 done ...` summarises what was executed (parsed by c13's thorough tier).

use v_schema::oracle::{pair_case, typed_roundtrip, upgrade_case};
use vcore::{Rng, Stats};

fn main() {
    let args: Vec<String> = std::env::args().collect();
    let seed: u64 = args.get(1).and_then(|s| s.parse().ok()).unwrap_or(1);
    let n: u64 = args.get(2).and_then(|s| s.parse().ok()).unwrap_or(20);
    v_schema::generate::set_small(true);
    let mut st = Stats::default();
    let progress = std::env::var_os("C13_MIRI_PROGRESS").is_some();
    let t0 = std::time::Instant::now();
    let mut keys_checked = 0u64;
    for i in 0..n {
        if progress {
            eprintln!("value {i} at {:.1}s", t0.elapsed().as_secs_f64());
        }
        let mut rng = Rng::derive(seed ^ 0x6d69_7269, i);
        pair_case(i, &mut rng, &mut st);
        // the one unsafe block: every key variant, compared with the safe equivalent
        let kind = rng.below(3);
        let k = v_schema::generate::gen_key(&mut rng, kind);
        let b = k.as_bytes().to_vec();
        let expect = match &k {
            anda_db_schema::FieldKey::Text(s) => s.as_bytes().to_vec(),
            anda_db_schema::FieldKey::I64(i) => i.to_ne_bytes().to_vec(),
            anda_db_schema::FieldKey::Bytes(b) => b.clone(),
        };
        if b != expect {
            st.violation("C13/miri/as_bytes_differs", vcore::json!({"key": format!("{k:?}")}));
        }
        keys_checked += 1;
    }
    for i in 0..(n / 40).max(1) {
        let mut rng = Rng::derive(seed ^ 0x7570, i);
        upgrade_case(i, &mut rng, &mut st, false);
    }
    {
        let mut rng = Rng::derive(seed ^ 0x7479, 0);
        typed_roundtrip::<v_schema::typed::TScalars>(&mut rng, &mut st, 2);
        typed_roundtrip::<v_schema::typed::TNested>(&mut rng, &mut st, 2);
        typed_roundtrip::<v_schema::typed::TVector>(&mut rng, &mut st, 2);
        typed_roundtrip::<v_schema::typed::TMapsBytes>(&mut rng, &mut st, 2);
        typed_roundtrip::<v_schema::typed::TCborKey>(&mut rng, &mut st, 2);
    }
    for v in st.violations.iter().take(10) {
        println!("MIRI-C13 violation {} {}", v.signature, v.detail);
    }
    for i in &st.inconclusive {
        println!("MIRI-C13 inconclusive {i}");
    }
    let c = |k: &str| st.counters.get(k).copied().unwrap_or(0);
    println!(
        "MIRI-C13 done values={} evaluations={} violations={} valid_pairs={} invalid_mutations={} grey_mutations={} \
         accept_write_implies_accept_read={} invalid_rejected_set_field={} invalid_rejected_try_from={} \
         stored_bytes_reads={} as_bytes_unsafe_checks={} upgrade_chains={} upgrades_applied={} upgrade_old_doc_reads={} \
         typed_roundtrips={} typed_structs={} max_type_depth={} wall_s={:.0}",
        n,
        st.evaluations,
        st.violations.len(),
        c("pairs_valid"),
        c("pairs_invalid"),
        c("pairs_grey"),
        c("oracle_accept_write_implies_accept_read"),
        c("invalid_rejected:set_field"),
        c("invalid_rejected:try_from"),
        c("valid_accepted:stored_bytes")
            + c("grey_accepted:stored_bytes")
            + c("grey_rejected:stored_bytes")
            + st.counters.iter().filter(|(k, _)| k.starts_with("invalid_rejected:stored_bytes")).map(|(_, v)| *v).sum::<u64>(),
        keys_checked,
        c("upgrade_chains"),
        c("upgrades_applied"),
        c("upgrade_old_doc_reads"),
        c("typed_roundtrips"),
        st.sets.get("typed_structs_roundtripped").map(|s| s.len()).unwrap_or(0),
        c("max_type_depth"),
        t0.elapsed().as_secs_f64(),
    );
}

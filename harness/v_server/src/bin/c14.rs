//! C14 - Service keys confine callers to their database; reads never write.
//!
//! Monitors (DESIGN.md C14), all over an in-process `build_router(AppState)` on a recording
//! object store, driven with `tower::ServiceExt::oneshot`:
//!  * `matrix`: the completely enumerated request matrix (caller x path x encoding x method) with
//!    the uniform-rejection, no-effect, confinement, reads-never-write and relational
//!    (B keyed / B re-keyed / B unbound / B absent) non-interference oracles;
//!  * `rnw`: every Read-labelled method under every caller that may call it, on databases in
//!    seven lifecycle states, with a drain for spawned tasks;
//!  * `states`: the lifecycle states in which B is known to the server but not (normally) served -
//!    registered but unopened after a failed reopen at startup, closed and unregistered, closed
//!    with a failed registry write (still registered), re-keyed after a revocation, creation
//!    interrupted at every mutation (one-shot error, outage, crash) - with every database-scope
//!    method sent to B and A by the admin, B's key, A's key, the re-keyed world's key and nobody,
//!    replayed in the four B-worlds for the callers that hold no key of B;
//!  * `hist`: generated histories of create / close / open / connect / set_api_key /
//!    remove_api_key / restart / crash-restart with a model of the bindings, probed after every
//!    step, the same history replayed with B re-keyed and with B absent;
//!  * `guards`: the documented provisioning guards that keep the two tiers apart.
//!
//! The method table (names + Read|Mutating) is read at run time from the `parse` functions of
//! `anda_db_server/src/api/mod.rs` of the tree the harness was built against.

use anda_db_server::{AppState, build_router};
use std::collections::{BTreeMap, BTreeSet};
use v_server::*;
use vcore::{Rng, Run, Stats, Value, json};

// ---------------------------------------------------------------------------------------------
// callers, paths, entries

#[derive(Clone, Debug)]
struct Caller {
    /// stable kind: used in signatures and counters
    kind: &'static str,
    label: String,
    header: Option<Vec<u8>>,
    /// the credential the documented parsing (`Authorization: Bearer <key>`, exact prefix,
    /// visible ASCII) extracts from the header
    token: Option<String>,
    /// holds no credential that some B-mode makes valid: replayed in every world and compared
    relational: bool,
}

fn callers(k: &Keys, stored_hash_of_a: &str) -> Vec<Caller> {
    let mut v = vec![];
    let mut add = |kind: &'static str, label: &str, header: Option<Vec<u8>>, token: Option<&str>, rel: bool| {
        v.push(Caller {
            kind,
            label: label.to_string(),
            header,
            token: token.map(|s| s.to_string()),
            relational: rel,
        })
    };
    add("none", "no Authorization header", None, None, true);
    let (a, adm) = (&k.a, &k.admin);
    add("malformed", "Basic <key A>", Some(format!("Basic {a}").into_bytes()), None, true);
    add("malformed", "bearer <admin> (lower-case scheme)", Some(format!("bearer {adm}").into_bytes()), None, true);
    add("malformed", "Bearer<key A> (no space)", Some(format!("Bearer{a}").into_bytes()), None, true);
    add("malformed", "Bearer  <admin> (two spaces)", Some(format!("Bearer  {adm}").into_bytes()), Some(&format!(" {adm}")), true);
    add("malformed", "<key A> (no scheme)", Some(a.clone().into_bytes()), None, true);
    add("malformed", "Bearer <key A>_ (trailing space)", Some(format!("Bearer {a} ").into_bytes()), Some(&format!("{a} ")), true);
    add("malformed", "Bearer _ (empty token)", Some(b"Bearer ".to_vec()), Some(""), true);
    let mut nonutf = b"Bearer \xff\xfe".to_vec();
    nonutf.extend_from_slice(adm.as_bytes());
    add("malformed", "Bearer <0xFF 0xFE><admin> (not UTF-8)", Some(nonutf), None, true);
    add("malformed", "Bearer<TAB><key A>", Some(format!("Bearer\t{a}").into_bytes()), None, true);
    add("garbage", "unknown key", Some(bearer("zz-not-a-key-41c7")), Some("zz-not-a-key-41c7"), true);
    let dummy = "anda-db-server-timing-equalization-dummy";
    add("garbage", "the timing-equalization dummy", Some(bearer(dummy)), Some(dummy), true);
    add("garbage", "stored SHA3 hash of key A", Some(bearer(stored_hash_of_a)), Some(stored_hash_of_a), true);
    add("admin", "admin key", Some(bearer(&k.admin)), Some(&k.admin), false);
    add("key_a", "key of A", Some(bearer(&k.a)), Some(&k.a), true);
    add("key_b", "key of B", Some(bearer(&k.b)), Some(&k.b), false);
    add("key_b_other", "the key B carries in the re-keyed world", Some(bearer(&k.b_alt)), Some(&k.b_alt), false);
    add("revoked", "first key of A (rotated away)", Some(bearer(&k.a_old)), Some(&k.a_old), true);
    add("revoked", "key of C (removed)", Some(bearer(&k.c_removed)), Some(&k.c_removed), true);
    add("key_closed_db", "key of the closed database D", Some(bearer(&k.d)), Some(&k.d), true);
    v
}

#[derive(Clone, Debug, PartialEq, Eq)]
enum PathClass {
    Root,
    /// routed to `POST /{db_name}` with this percent-decoded name
    Db(String),
    /// routed, but the segment does not decode to UTF-8: answered by the path extractor
    BadUtf8,
    /// matches no route: the router's own fallback, never authenticated
    NoRoute,
}

#[derive(Clone, Debug)]
struct PathSpec {
    label: &'static str,
    uri: String,
    class: PathClass,
}

fn paths(n: &Names) -> Vec<PathSpec> {
    let db = |label: &'static str, uri: String, decoded: String| PathSpec { label, uri, class: PathClass::Db(decoded) };
    let (a, b) = (&n.a, &n.b);
    vec![
        PathSpec { label: "root", uri: "/".into(), class: PathClass::Root },
        db("A", format!("/{a}"), a.clone()),
        db("B", format!("/{b}"), b.clone()),
        db("C (key removed)", format!("/{}", n.c), n.c.clone()),
        db("primary", format!("/{}", n.primary), n.primary.clone()),
        db("D (closed, key kept)", format!("/{}", n.d), n.d.clone()),
        db("missing", format!("/{}", n.missing), n.missing.clone()),
        db("A with a query string naming B", format!("/{a}?db_name={b}&name={b}"), a.clone()),
        db("percent-encoded ..", "/%2E%2E".into(), "..".into()),
        db("..", "/..".into(), "..".into()),
        db("A/../B percent-encoded", format!("/{a}%2F..%2F{b}"), format!("{a}/../{b}")),
        db("B + NUL", format!("/{b}%00"), format!("{b}\0")),
        db("B + space", format!("/{b}%20"), format!("{b} ")),
        db("/B percent-encoded", format!("/%2F{b}"), format!("/{b}")),
        db("A upper-case", format!("/{}", a.to_uppercase()), a.to_uppercase()),
        db("B percent-encoded letter by letter", format!("/{}", b.bytes().map(|c| format!("%{c:02X}")).collect::<String>()), b.clone()),
        db("very long name", format!("/{}", "q".repeat(6000)), "q".repeat(6000)),
        PathSpec { label: "invalid UTF-8 segment", uri: "/%FF%FE".into(), class: PathClass::BadUtf8 },
        PathSpec { label: "A/ (trailing slash)", uri: format!("/{a}/"), class: PathClass::NoRoute },
        PathSpec { label: "B/collection", uri: format!("/{b}/{}", n.coll(b)), class: PathClass::NoRoute },
    ]
}

const UNKNOWN_METHODS: [&str; 6] = ["", "nope", "db.drop", "INFO", "doc.get ", "db.list\u{0}"];

#[derive(Clone, Debug)]
struct Entry {
    method: String,
    aim: RootAim,
    oversize: bool,
    /// the collection parameter is a path-traversal string towards the other database
    traverse: bool,
}

fn entries(table: &MethodTable, class: &PathClass) -> Vec<Entry> {
    let mut v = vec![];
    let mut names = table.all_names();
    names.extend(UNKNOWN_METHODS.iter().map(|s| s.to_string()));
    for m in names {
        v.push(Entry { method: m.clone(), aim: RootAim::Natural, oversize: false, traverse: false });
        if *class == PathClass::Root && root_params(&m, &Names::pair(0), RootAim::Other).is_some() && m != "info" && m != "db.list" {
            v.push(Entry { method: m, aim: RootAim::Other, oversize: false, traverse: false });
        }
    }
    v.push(Entry { method: "info".into(), aim: RootAim::Natural, oversize: true, traverse: false });
    if let PathClass::Db(_) = class {
        for m in TRAVERSE_METHODS {
            if table.db_effect(m).is_some() {
                v.push(Entry { method: m.to_string(), aim: RootAim::Natural, oversize: false, traverse: true });
            }
        }
    }
    v
}

/// Methods additionally sent with `collection` = `../<other database>/<its collection>`.
const TRAVERSE_METHODS: [&str; 9] = [
    "doc.get", "doc.search", "doc.count", "doc.add", "collection.metadata", "collection.delete",
    "collection.create", "collection.ensure", "collection.flush",
];

fn build_req(n: &Names, c: &Caller, p: &PathSpec, enc: Enc, e: &Entry) -> Req {
    let m = e.method.as_str();
    let params = if e.oversize {
        json!({"junk": "x".repeat(MAX_BODY + 4096)})
    } else {
        match &p.class {
            PathClass::Root => root_params(m, n, e.aim)
                .or_else(|| db_params(m, &Target::of(n, None)))
                .unwrap_or_else(|| json!({})),
            PathClass::Db(name) => db_params(m, &Target::of(n, Some(name)))
                .or_else(|| root_params(m, n, RootAim::Natural))
                .unwrap_or_else(|| json!({})),
            _ => db_params(m, &Target::of(n, None))
                .or_else(|| root_params(m, n, RootAim::Natural))
                .unwrap_or_else(|| json!({})),
        }
    };
    let mut params = params;
    if e.traverse {
        let t = Target::of(n, match &p.class {
            PathClass::Db(name) => Some(name.as_str()),
            _ => None,
        });
        let trav = format!("../{}/{}", t.decoy, n.coll(&t.decoy));
        if params.get("collection").is_some() {
            params["collection"] = json!(trav);
        }
        if params.get("config").is_some() {
            params["config"]["name"] = json!(trav);
        }
    }
    Req { path: p.uri.clone(), auth: c.header.clone(), enc, method: e.method.clone(), params }
}

/// What the documented precedence rules (auth.rs rules 2-4; rule 1 = keyless mode is not used
/// by the worlds) say about this caller on this path.
#[derive(Clone, Debug, PartialEq, Eq)]
enum Expect {
    /// the uniform 401
    Reject,
    /// answered from the path alone, identically for every caller
    PathOnly,
    Admin,
    /// `Principal::Database` for this database
    Db(String),
}

fn expect(w: &World, c: &Caller, p: &PathClass) -> Expect {
    match p {
        PathClass::BadUtf8 | PathClass::NoRoute => return Expect::PathOnly,
        _ => {}
    }
    let Some(tok) = &c.token else { return Expect::Reject };
    if *tok == w.spec.keys.admin {
        return Expect::Admin;
    }
    match p {
        PathClass::Db(name) if w.bound_key(name) == Some(tok.as_str()) => Expect::Db(name.clone()),
        _ => Expect::Reject,
    }
}

// ---------------------------------------------------------------------------------------------
// a world plus its cached admin view

struct Lab {
    w: World,
    /// the view after the previous request
    last: Snap,
    /// the last view that carried the heavy part, and how many requests ago it was taken
    last_heavy: Snap,
    since_heavy: u32,
    builds: u64,
}

impl Lab {
    async fn new(spec: WorldSpec) -> Lab {
        let mut w = World::build(spec).await;
        if w.spec.life != Life::Warm {
            // load every collection (the admin view over HTTP reads each of them) so that the
            // matrix measures requests on loaded handles; cold handles are the rnw monitor's
            w.full_snapshot().await;
        }
        let last = w.snap(true).await;
        Lab { w, last_heavy: last.clone(), last, since_heavy: 0, builds: 1 }
    }
    /// As built: collections of a reopened / restarted world are not loaded.
    async fn new_cold(spec: WorldSpec) -> Lab {
        let w = World::build(spec).await;
        let last = w.snap(true).await;
        Lab { w, last_heavy: last.clone(), last, since_heavy: 0, builds: 1 }
    }
    async fn rebuild(&mut self) {
        let spec = self.w.spec.clone();
        let mut fresh = World::build(spec).await;
        if fresh.spec.life != Life::Warm {
            fresh.full_snapshot().await;
        }
        let old = std::mem::replace(&mut self.w, fresh);
        old.shutdown().await;
        self.last = self.w.snap(true).await;
        self.last_heavy = self.last.clone();
        self.since_heavy = 0;
        self.builds += 1;
    }
}

struct Obs {
    resp: Resp,
    /// every mutation that reached the backend during the request (+ drain)
    landed: Vec<Mutation>,
    /// admin-view differences: light part against the view before this request, heavy part (when
    /// taken) against the last heavy view, `window` requests ago
    changed: Vec<String>,
    window: u32,
}

impl Obs {
    fn effective(&self) -> Vec<&Mutation> {
        self.landed.iter().filter(|m| m.effective()).collect()
    }
    fn changed(&self) -> Vec<String> {
        self.changed.clone()
    }
}

/// Sends the request and observes its effects. `heavy` forces the full admin view; otherwise
/// it is taken every `cadence` requests (a change is then attributed to that window).
async fn observe_c(lab: &mut Lab, req: &Req, yields: usize, heavy: bool, cadence: u32) -> Result<Obs, String> {
    let mark = lab.w.rec.mark();
    let resp = send(&lab.w.app, req).await?;
    drain(yields).await;
    let landed = lab.w.rec.mutations_since(mark, None);
    lab.since_heavy += 1;
    let heavy = heavy || !landed.is_empty() || lab.since_heavy >= cadence;
    let after = lab.w.snap(heavy).await;
    let mut changed: BTreeSet<String> = lab.last.diff(&after).into_iter().collect();
    let window = lab.since_heavy;
    if heavy {
        changed.extend(lab.last_heavy.diff(&after));
        lab.last_heavy = after.clone();
        lab.since_heavy = 0;
    }
    lab.last = after;
    Ok(Obs { resp, landed, changed: changed.into_iter().collect(), window })
}

async fn observe(lab: &mut Lab, req: &Req, yields: usize) -> Result<Obs, String> {
    observe_c(lab, req, yields, true, 1).await
}

/// Records a violation; the same signature is kept at most twice per case so that one defect
/// does not crowd the others out of the report.
fn viol(st: &mut Stats, sig: impl Into<String>, detail: Value) {
    let sig = sig.into();
    if st.violations.iter().filter(|v| v.signature == sig).count() < 2 {
        st.violation(sig, detail);
    } else {
        st.count("violations_same_signature_suppressed");
    }
}

fn describe_muts(ms: &[Mutation]) -> Vec<String> {
    ms.iter().take(12).map(|m| m.describe()).collect()
}

fn world_desc(w: &World) -> Value {
    json!({"b_mode": format!("{:?}", w.spec.bmode), "life": format!("{:?}", w.spec.life),
           "A": w.spec.names.a, "B": w.spec.names.b, "C": w.spec.names.c, "D": w.spec.names.d,
           "primary": w.spec.names.primary})
}

/// Strings a `Principal::Database` caller of `own` must never be shown: names and marker content
/// of every other database, the server-level extension keys, every other key. Strings the caller
/// sent itself are not secrets and are dropped.
fn needles(w: &World, own: &str, c: &Caller, req: &Req) -> Vec<String> {
    let (n, k) = (&w.spec.names, &w.spec.keys);
    let mut v: Vec<String> = vec![];
    for db in [&n.primary, &n.a, &n.b, &n.c, &n.d] {
        if db != own {
            if !own.contains(db.as_str()) {
                v.push(db.clone());
            }
            v.push(n.marker(db).to_string());
            v.push(n.coll(db));
        }
    }
    v.push("server:api_keys".into());
    v.push("server:databases".into());
    for key in [&k.admin, &k.a, &k.a_old, &k.b, &k.b_alt, &k.c_removed, &k.d] {
        if c.token.as_deref() != Some(key.as_str()) {
            v.push(key.clone());
        }
    }
    let sent = format!("{} {} {}", req.path, req.method, req.params);
    v.retain(|x| !sent.contains(x.as_str()));
    v
}

struct Cfg {
    table: MethodTable,
    names: Names,
    keys: Keys,
    callers: Vec<Caller>,
    paths: Vec<PathSpec>,
}

fn spec(cfg: &Cfg, bmode: BMode, life: Life) -> WorldSpec {
    WorldSpec { names: cfg.names.clone(), keys: cfg.keys.clone(), bmode, life }
}

/// Label of `method` in the table of the scope `class` addresses.
fn label_of(table: &MethodTable, class: &PathClass, method: &str) -> Option<Effect> {
    match class {
        PathClass::Root => table.root_effect(method),
        PathClass::Db(_) => table.db_effect(method),
        _ => None,
    }
}

/// Is this a request the harness built valid parameters for, against an open database?
fn expected_to_execute(cfg: &Cfg, w: &World, class: &PathClass, enc: Enc, e: &Entry) -> bool {
    if e.oversize || e.traverse || enc == Enc::Missing {
        return false;
    }
    if !matches!(w.spec.life, Life::Warm | Life::Reopened | Life::Restarted | Life::Crashed) {
        return false;
    }
    match class {
        PathClass::Root => {
            e.aim == RootAim::Natural
                && KNOWN_ROOT.contains(&e.method.as_str())
                && cfg.table.root_effect(&e.method).is_some()
        }
        PathClass::Db(name) => {
            w.open_dbs().contains(name)
                && KNOWN_DB.contains(&e.method.as_str())
                && cfg.table.db_effect(&e.method).is_some()
        }
        _ => false,
    }
}

// ---------------------------------------------------------------------------------------------
// monitor 1: the matrix

#[allow(clippy::too_many_arguments)]
fn judge(
    cfg: &Cfg,
    st: &mut Stats,
    w: &World,
    c: &Caller,
    p: &PathSpec,
    enc: Enc,
    e: &Entry,
    req: &Req,
    obs: &Obs,
    exp: &Expect,
    canon: &Resp,
    path_ref: Option<&Resp>,
) -> bool {
    let detail = |what: &str| {
        json!({"what": what, "world": world_desc(w), "caller": c.label, "caller_kind": c.kind,
               "path": p.label, "request": req.describe(), "response": obs.resp.describe(),
               "expected": format!("{exp:?}"),
               "uniform_rejection": canon.describe(),
               "mutations": describe_muts(&obs.landed), "admin_view_changed": obs.changed(),
               "admin_view_window_requests": obs.window})
    };
    st.eval();
    st.count(&format!("outcome:{}:{}", c.kind, obs.resp.status));
    let label = label_of(&cfg.table, &p.class, &e.method);
    let eff = obs.effective();
    let changed = obs.changed();
    let mut dirty = !obs.landed.is_empty() || !changed.is_empty();
    match exp {
        Expect::Reject => {
            st.count("oracle_uniform_rejection");
            st.set("rejection_classes", obs.resp.class_hash() ^ (enc.reply() as u64));
            if obs.resp != *canon {
                let sig = if obs.resp.status / 100 == 2 {
                    format!("C14/reject/served/{}", c.kind)
                } else {
                    format!("C14/reject/not_uniform/{}", c.kind)
                };
                viol(st, sig, detail("an unauthorized caller did not get the uniform rejection"));
            }
            st.count("oracle_no_effect");
            if !eff.is_empty() {
                viol(st, format!("C14/reject/wrote/{}", c.kind), detail("a rejected request wrote to storage"));
            }
            if !changed.is_empty() {
                viol(st, format!("C14/reject/state_changed/{}", c.kind), detail("a rejected request changed the admin view"));
            }
        }
        Expect::PathOnly => {
            st.count("oracle_path_only");
            if let Some(r) = path_ref {
                if obs.resp != *r {
                    viol(st, 
                        format!("C14/path_only/caller_dependent/{}", c.kind),
                        detail("a response that must depend on the path alone depends on the caller"),
                    );
                }
            }
            if !eff.is_empty() || !changed.is_empty() {
                viol(st, format!("C14/path_only/effect/{}", c.kind), detail("an unrouted/undecodable request had an effect"));
            }
        }
        Expect::Admin | Expect::Db(_) => {
            st.count(&format!("accepted:{}", c.kind));
            if obs.resp.status == 401 {
                st.inconclusive(format!(
                    "the rightful key was rejected ({} on {}, {}): accepted-request oracles unobserved",
                    c.kind, p.label, e.method
                ));
                return dirty;
            }
            if expected_to_execute(cfg, w, &p.class, enc, e) {
                if obs.resp.status == 200 {
                    st.count(&format!("executed:{}", c.kind));
                    st.count(&format!("executed_method:{}", e.method));
                } else {
                    st.inconclusive(format!(
                        "a request built to be valid did not execute: {} on {} as {} -> {} {:?}",
                        e.method, p.label, c.kind, obs.resp.status, obs.resp.error_code()
                    ));
                }
            }
            if let Expect::Db(own) = exp {
                st.count("oracle_confinement");
                let prefix = format!("{own}/");
                let outside: Vec<String> = obs
                    .landed
                    .iter()
                    .filter(|m| match m {
                        Mutation::Copy { from, to } | Mutation::Rename { from, to } => {
                            !from.as_ref().starts_with(&prefix) || !to.as_ref().starts_with(&prefix)
                        }
                        _ => !m.path().as_ref().starts_with(&prefix),
                    })
                    .map(|m| m.describe())
                    .collect();
                if !outside.is_empty() {
                    let mut d = detail("a database key caused storage mutations outside its database's prefix");
                    d["outside"] = json!(outside);
                    viol(st, format!("C14/confine/write_outside_prefix/{}", c.kind), d);
                }
                let nd = needles(w, own, c, req);
                if let Some(hit) = find_leak(&obs.resp.body, &nd) {
                    let mut d = detail("the response to a database key contains another database's or server-level data");
                    d["leaked"] = json!(hit);
                    viol(st, format!("C14/confine/response_leak/{}", c.kind), d);
                }
                let foreign: Vec<&String> = changed.iter().filter(|x| *x != own).collect();
                if !foreign.is_empty() {
                    let mut d = detail("a database key changed state outside its database");
                    d["foreign"] = json!(foreign);
                    viol(st, format!("C14/confine/foreign_state_changed/{}", c.kind), d);
                }
            }
            match label {
                Some(Effect::Read) => {
                    st.count("oracle_read_wrote_nothing");
                    st.count(&format!("read_exec:{}", e.method));
                    if e.traverse {
                        st.count("traversal_reads");
                    }
                    if !eff.is_empty() {
                        viol(st, format!("C14/read_wrote/{}", e.method), detail("a Read-labelled method wrote to storage"));
                    }
                    if !changed.is_empty() {
                        viol(st, format!("C14/read_changed_state/{}", e.method), detail("a Read-labelled method changed the admin view"));
                    }
                }
                Some(Effect::Mutating) => {
                    if e.traverse {
                        st.count("traversal_mutating");
                    }
                    // anything the method did (or half did) must not carry over
                    dirty = dirty || obs.resp.status == 200;
                }
                None => {
                    st.count("oracle_unknown_method_no_effect");
                    if !eff.is_empty() || !changed.is_empty() {
                        viol(st, 
                            "C14/unknown_method_effect".to_string(),
                            detail("a method name that is not in the addressed scope's table had an effect"),
                        );
                    }
                }
            }
        }
    }
    dirty
}

/// Fields whose value depends on wall-clock milliseconds (timestamps, and - through the storage
/// metadata rate limiter - how many metadata writes and fetches a script needed): free.
const FREE_FIELDS: [&str; 11] = [
    "version", "last_saved", "check_point", "total_cache_get_count", "total_fetch_count",
    "total_fetch_bytes", "total_put_count", "total_put_bytes", "total_delete_count", "get_count",
    "search_count",
];

fn mask_free(v: &Value) -> Value {
    match v {
        Value::Array(a) => Value::Array(a.iter().map(mask_free).collect()),
        Value::Object(o) => Value::Object(
            o.iter()
                .map(|(k, x)| {
                    if FREE_FIELDS.contains(&k.as_str()) && x.is_number() {
                        (k.clone(), json!("<free>"))
                    } else {
                        (k.clone(), mask_free(x))
                    }
                })
                .collect(),
        ),
        _ => v.clone(),
    }
}

/// Response compared modulo clock-dependent fields (own-database reads across worlds).
fn masked(r: &Resp) -> Value {
    let headers: Vec<&(String, Vec<u8>)> = r.headers.iter().filter(|(k, _)| k != "content-length").collect();
    json!({"status": r.status, "headers": format!("{headers:?}"),
           "body": r.decoded().map(|v| mask_free(&mask_times(&v))).unwrap_or_else(|| json!(format!("{:?}", r.body)))})
}

/// Paths handled by one matrix case (the worlds of a case are shared by its paths).
const PATH_CHUNK: usize = 4;

async fn matrix_group(cfg: &Cfg, life: Life, ci: usize, chunk: usize, st: &mut Stats) -> Result<(), String> {
    let c = &cfg.callers[ci];
    let modes: Vec<BMode> = if c.relational { ALL_BMODES.to_vec() } else { vec![BMode::Keyed] };
    let mut labs: Vec<Lab> = vec![];
    for m in &modes {
        labs.push(Lab::new(spec(cfg, *m, life)).await);
    }
    let none = &cfg.callers[0];
    let probe_entry = Entry { method: "info".into(), aim: RootAim::Natural, oversize: false, traverse: false };
    // (taken in every world so that their histories stay identical)
    let mut reference_full = Value::Null;
    for lab in labs.iter_mut().rev() {
        reference_full = lab.w.full_snapshot().await;
    }
    // the admin view over HTTP consists of Read-labelled methods: taking it twice must give
    // the same view (else those reads change what they read, and the view is no oracle)
    let again = labs[0].w.full_snapshot().await;
    let full_view_usable = again == reference_full;
    if !full_view_usable {
        viol(st, "C14/read_changed_state/admin_view_reads",
             json!({"what": "the admin's Read-labelled view requests (db.list, db.metadata, collection.list, doc.count, doc.get_many, collection.metadata) changed the view they return",
                    "first": reference_full, "second": again, "world": world_desc(&labs[0].w)}));
    }
    let encs = [Enc::Cbor, Enc::Json, Enc::Missing];
    // the uniform rejection of each encoding: what an anonymous `info` on the root gets
    let mut canon: Vec<Vec<Resp>> = vec![];
    for enc in encs {
        let mut per_world = vec![];
        for lab in labs.iter_mut() {
            let r = send(&lab.w.app, &build_req(&cfg.names, none, &cfg.paths[0], enc, &probe_entry)).await?;
            if r.status != 401 || r.error_code().as_deref() != Some("unauthorized") {
                viol(st, "C14/reject/anonymous_root_not_401", json!({"world": world_desc(&lab.w), "response": r.describe()}));
            }
            per_world.push(r);
        }
        for i in 1..per_world.len() {
            st.count("oracle_rejection_same_in_every_world");
            if per_world[i] != per_world[0] {
                viol(st, 
                    "C14/isolation/rejection_differs_across_worlds",
                    json!({"world": world_desc(&labs[i].w), "got": per_world[i].describe(), "reference": per_world[0].describe()}),
                );
            }
        }
        canon.push(per_world);
    }

    let lo = chunk * PATH_CHUNK;
    let hi = (lo + PATH_CHUNK).min(cfg.paths.len());
    for p in &cfg.paths[lo..hi] {
        for (ei, enc) in encs.into_iter().enumerate() {
            let canon = &canon[ei];
            // what the path alone is answered with (anonymous caller), per world
            let mut path_ref: Vec<Option<Resp>> = vec![];
            for lab in labs.iter_mut() {
                path_ref.push(if matches!(p.class, PathClass::BadUtf8 | PathClass::NoRoute) {
                    Some(send(&lab.w.app, &build_req(&cfg.names, none, p, enc, &probe_entry)).await?)
                } else {
                    None
                });
            }

            // own-database reads of a database key, replayed in every world on identical histories
            if let Expect::Db(_) = expect(&labs[0].w, c, &p.class) {
                if c.relational && enc != Enc::Missing {
                    for (m, eff) in cfg.table.db.clone() {
                        if eff != Effect::Read {
                            continue;
                        }
                        let e = Entry { method: m, aim: RootAim::Natural, oversize: false, traverse: false };
                        let req = build_req(&cfg.names, c, p, enc, &e);
                        let mut got: Vec<Value> = vec![];
                        for lab in labs.iter_mut() {
                            let o = observe(lab, &req, 1).await?;
                            got.push(masked(&o.resp));
                        }
                        st.count("relational_own_reads_compared");
                        for i in 1..got.len() {
                            if got[i] != got[0] {
                                viol(st, 
                                    format!("C14/isolation/own_read_depends_on_b/{}", c.kind),
                                    json!({"what": "a database key's read of its own database differs with B's existence/key",
                                           "request": req.describe(), "world": world_desc(&labs[i].w),
                                           "got": got[i], "reference_world_b_keyed": got[0]}),
                                );
                            }
                        }
                    }
                }
            }

            let mut since_full = 0u32;
            for e in entries(&cfg.table, &p.class) {
                if e.oversize && enc == Enc::Missing {
                    continue;
                }
                let req = build_req(&cfg.names, c, p, enc, &e);
                st.distinct(vcore::fnv_str(&format!("{}|{life:?}|{}|{}|{:?}|{:?}", cfg.names.a, c.label, p.label, enc, e)));
                st.count("matrix_requests");
                let exp = expect(&labs[0].w, c, &p.class);
                let comparable = matches!(exp, Expect::Reject | Expect::PathOnly);
                let obs0 = observe_c(&mut labs[0], &req, 2, !comparable, 8).await?;
                st.set("response_classes", obs0.resp.class_hash());
                let dirty = judge(cfg, st, &labs[0].w, c, p, enc, &e, &req, &obs0, &exp, &canon[0], path_ref[0].as_ref());
                if (matches!(exp, Expect::Db(_)) && obs0.resp.status == 200 && e.method.starts_with("doc."))
                    || vcore::fnv_str(&format!("{}{}{}{enc:?}", c.label, p.label, e.method)) % 1499 == 0
                {
                    let mut r = req.describe();
                    if e.oversize {
                        r["params"] = json!("<over the body limit>");
                    }
                    st.sample(|| json!({"monitor": "matrix", "caller": c.label, "path": p.label, "request": r,
                                        "expected": format!("{exp:?}"), "status": obs0.resp.status,
                                        "mutations": describe_muts(&obs0.landed)}));
                }
                if comparable && labs.len() > 1 {
                    st.count("relational_tuples_compared");
                    for i in 1..labs.len() {
                        let exp_i = expect(&labs[i].w, c, &p.class);
                        let obs = observe_c(&mut labs[i], &req, 2, false, 16).await?;
                        let d = judge(cfg, st, &labs[i].w, c, p, enc, &e, &req, &obs, &exp_i, &canon[i], path_ref[i].as_ref());
                        st.count("relational_pairs_compared");
                        if obs.resp != obs0.resp {
                            viol(st, 
                                format!("C14/isolation/differs_across_worlds/{}", c.kind),
                                json!({"what": "the same request is answered differently depending on B's existence or key",
                                       "caller": c.label, "path": p.label, "request": req.describe(),
                                       "world": world_desc(&labs[i].w), "got": obs.resp.describe(),
                                       "reference_world_b_keyed": obs0.resp.describe()}),
                            );
                        }
                        if d {
                            labs[i].rebuild().await;
                        }
                    }
                }
                if dirty {
                    labs[0].rebuild().await;
                    st.count("world_rebuilds");
                } else {
                    since_full += 1;
                    if since_full >= 24 && full_view_usable {
                        since_full = 0;
                        st.count("oracle_full_admin_snapshot");
                        let now = labs[0].w.full_snapshot().await;
                        if now != reference_full {
                            viol(st, 
                                format!("C14/no_effect/full_admin_view_changed/{}", c.kind),
                                json!({"caller": c.label, "path": p.label, "last_request": req.describe(),
                                       "before": reference_full, "after": now}),
                            );
                            labs[0].rebuild().await;
                        }
                    }
                }
            }
        }
    }
    st.count("oracle_full_admin_snapshot");
    let now = labs[0].w.full_snapshot().await;
    if now != reference_full && full_view_usable {
        viol(st, 
            format!("C14/no_effect/full_admin_view_changed/{}", c.kind),
            json!({"caller": c.label, "before": reference_full, "after": now}),
        );
    }
    for mut lab in labs {
        // close the window of the low-cadence heavy view
        let after = lab.w.snap(true).await;
        let d = lab.last_heavy.diff(&after);
        if !d.is_empty() {
            viol(st, 
                format!("C14/no_effect/admin_view_changed_in_window/{}", c.kind),
                json!({"caller": c.label, "world": world_desc(&lab.w), "changed": d, "window_requests": lab.since_heavy}),
            );
        }
        lab.last_heavy = after;
        st.add("worlds_built", lab.builds);
        lab.w.shutdown().await;
    }
    Ok(())
}

/// Other HTTP methods and the health endpoint: answered identically for every caller and every
/// world, without database names or content, without any effect.
async fn http_methods_case(cfg: &Cfg, st: &mut Stats) -> Result<(), String> {
    let mut labs: Vec<Lab> = vec![];
    for m in ALL_BMODES {
        labs.push(Lab::new(spec(cfg, m, Life::Warm)).await);
    }
    let n = &cfg.names;
    let all_names: Vec<String> = [&n.primary, &n.a, &n.b, &n.c, &n.d]
        .iter()
        .flat_map(|d| [d.to_string(), n.marker(d).to_string(), n.coll(d)])
        .collect();
    for hm in ["GET", "PUT", "DELETE", "PATCH", "HEAD", "OPTIONS"] {
        for uri in ["/".to_string(), format!("/{}", n.a), format!("/{}", n.b), format!("/{}", n.missing)] {
            let mut reference: Option<Resp> = None;
            for c in &cfg.callers {
                for lab in labs.iter_mut() {
                    let mark = lab.w.rec.mark();
                    let body = encode_body(Enc::Json, "db.list", &json!({}));
                    let r = send_raw(&lab.w.app, hm, &uri, c.header.as_deref(), Enc::Json, body).await?;
                    drain(2).await;
                    st.eval();
                    st.count("http_method_requests");
                    st.count(&format!("http_outcome:{hm}:{}", r.status));
                    let landed = lab.w.effective_since(mark);
                    let after = lab.w.snap(true).await;
                    let d = json!({"http_method": hm, "uri": uri, "caller": c.label, "world": world_desc(&lab.w),
                                   "response": r.describe(), "mutations": describe_muts(&landed)});
                    if !landed.is_empty() || after != lab.last {
                        viol(st, format!("C14/non_post/effect/{hm}"), d.clone());
                        lab.last = after;
                    }
                    // (the URI itself may be echoed by nothing: the health payload is name+version)
                    let nd: Vec<String> = all_names.iter().filter(|x| !uri.contains(x.as_str())).cloned().collect();
                    if let Some(hit) = find_leak(&r.body, &nd) {
                        let mut d = d.clone();
                        d["leaked"] = json!(hit);
                        viol(st, format!("C14/non_post/leak/{hm}"), d);
                    }
                    match &reference {
                        None => reference = Some(r),
                        Some(x) => {
                            if *x != r {
                                let mut d = d.clone();
                                d["reference"] = x.describe();
                                viol(st, format!("C14/non_post/caller_or_world_dependent/{hm}"), d);
                            }
                        }
                    }
                }
            }
        }
    }
    for lab in labs {
        lab.w.shutdown().await;
    }
    Ok(())
}

// ---------------------------------------------------------------------------------------------
// monitor 2: reads never write, over lifecycle states

async fn rnw_case(cfg: &Cfg, life: Life, st: &mut Stats) -> Result<(), String> {
    let mut lab = Lab::new_cold(spec(cfg, BMode::Keyed, life)).await;
    let n = cfg.names.clone();
    st.count(&format!("rnw_life:{life:?}"));
    let admin = cfg.callers.iter().find(|c| c.kind == "admin").unwrap();
    let key_a = cfg.callers.iter().find(|c| c.kind == "key_a").unwrap();
    let key_b = cfg.callers.iter().find(|c| c.kind == "key_b").unwrap();
    // (caller, path index) pairs that are accepted
    let mut pairs: Vec<(&Caller, usize)> = vec![];
    for (pi, p) in cfg.paths.iter().enumerate() {
        match &p.class {
            PathClass::Root => pairs.push((admin, pi)),
            PathClass::Db(name) if p.uri == format!("/{name}") && lab.w.open_dbs().contains(name) => {
                pairs.push((admin, pi));
                if *name == n.a {
                    pairs.push((key_a, pi));
                }
                if *name == n.b {
                    pairs.push((key_b, pi));
                }
            }
            _ => {}
        }
    }
    let block_mark = lab.w.rec.mark();
    let mut accounted = 0usize;
    for (c, pi) in pairs {
        let p = &cfg.paths[pi];
        let tbl = if p.class == PathClass::Root { &cfg.table.root } else { &cfg.table.db };
        for enc in [Enc::Cbor, Enc::Json] {
            for (m, eff) in tbl {
                if *eff != Effect::Read {
                    continue;
                }
                let e = Entry { method: m.clone(), aim: RootAim::Natural, oversize: false, traverse: false };
                let req = build_req(&n, c, p, enc, &e);
                let exp = expect(&lab.w, c, &p.class);
                // a read that names a collection whose handle is not loaded performs the
                // documented lazy open (api/collection.rs::open), which may flush: measured
                // and confined, not asserted; the read is then measured on the loaded handle
                if let PathClass::Db(db) = &p.class {
                    let key = (db.clone(), n.coll(db));
                    if touches_collection(m) && !lab.w.warm.contains(&key) {
                        let o = observe(&mut lab, &req, 30).await?;
                        st.count("rnw_cold_open_reads");
                        st.add("rnw_cold_open_mutations", o.effective().len() as u64);
                        st.add(&format!("rnw_cold_open_mutations:{life:?}"), o.effective().len() as u64);
                        if !o.effective().is_empty() {
                            st.sample(|| json!({"monitor": "rnw", "note": "documented lazy open on a read wrote (counted, not asserted)",
                                "life": format!("{life:?}"), "request": req.describe(), "mutations": describe_muts(&o.landed)}));
                        }
                        accounted += o.effective().len();
                        let prefix = format!("{db}/");
                        if o.landed.iter().any(|x| !x.path().as_ref().starts_with(&prefix)) {
                            viol(st, 
                                format!("C14/confine/cold_open_wrote_outside_prefix/{}", c.kind),
                                json!({"world": world_desc(&lab.w), "caller": c.label, "request": req.describe(),
                                       "mutations": describe_muts(&o.landed)}),
                            );
                        }
                        if o.resp.status == 200 {
                            // the handle is loaded now: it joins the admin view
                            lab.w.warm.insert(key);
                            lab.last = lab.w.snap(true).await;
                            lab.last_heavy = lab.last.clone();
                        }
                    }
                }
                let o = observe(&mut lab, &req, 30).await?;
                st.eval();
                st.count("rnw_executions");
                st.count(&format!("rnw:{m}"));
                st.count(&format!("rnw_caller:{}", c.kind));
                st.distinct(vcore::fnv_str(&format!("rnw|{}|{life:?}|{}|{}|{enc:?}|{m}", cfg.names.a, c.kind, p.label)));
                if o.resp.status == 200 {
                    st.count("rnw_status_200");
                } else if o.resp.status == 401 {
                    st.inconclusive(format!("rnw: rightful caller rejected ({} {m})", c.kind));
                } else if KNOWN_DB.contains(&m.as_str()) || KNOWN_ROOT.contains(&m.as_str()) {
                    st.inconclusive(format!("rnw: read built to be valid answered {} ({m}, {life:?})", o.resp.status));
                }
                accounted += o.effective().len();
                let detail = |what: &str| {
                    json!({"what": what, "world": world_desc(&lab.w), "caller": c.label, "request": req.describe(),
                           "response": o.resp.describe(), "mutations": describe_muts(&o.landed),
                           "admin_view_changed": o.changed()})
                };
                if !o.effective().is_empty() {
                    viol(st, format!("C14/read_wrote/{m}"), detail("a Read-labelled method wrote to storage"));
                }
                if !o.changed().is_empty() {
                    viol(st, format!("C14/read_changed_state/{m}"), detail("a Read-labelled method changed the admin view"));
                }
                if let Expect::Db(own) = &exp {
                    if let Some(hit) = find_leak(&o.resp.body, &needles(&lab.w, own, c, &req)) {
                        let mut d = detail("the response to a database key contains foreign data");
                        d["leaked"] = json!(hit);
                        viol(st, format!("C14/confine/response_leak/{}", c.kind), d);
                    }
                }
            }
        }
    }
    // late writers: give timers and detached tasks real time, then the log must not have grown
    tokio::time::sleep(std::time::Duration::from_millis(3)).await;
    drain(50).await;
    let total = lab.w.effective_since(block_mark).len();
    st.count("oracle_no_late_write");
    if total != accounted {
        let all = lab.w.effective_since(block_mark);
        viol(st, 
            "C14/read_wrote/late",
            json!({"what": "storage mutations appeared after the read responses were delivered",
                   "world": world_desc(&lab.w), "accounted": accounted, "total": total,
                   "tail": describe_muts(&all[all.len().saturating_sub(12)..])}),
        );
    }
    lab.w.shutdown().await;
    Ok(())
}

// ---------------------------------------------------------------------------------------------
// monitor 2b: lifecycle states in which B is known to the server but not (normally) served

/// Callers of the lifecycle-state monitor, relational ones first (their requests are replayed in
/// every B-world on histories that are still identical).
const STATE_CALLERS: [&str; 5] = ["key_a", "none", "key_b", "admin", "key_b_other"];

/// A case stops once it has produced this many violations (a lazy reopen fires on every request).
const STATE_CASE_MAX_VIOLATIONS: usize = 6;

async fn states_case(cfg: &Cfg, life: Life, st: &mut Stats) -> Result<(), String> {
    let kind = life.kind();
    let n = cfg.names.clone();
    let mut labs: Vec<Lab> = vec![];
    for m in ALL_BMODES {
        labs.push(Lab::new(spec(cfg, m, life)).await);
    }
    st.count(&format!("state:{kind}"));
    st.set("lifecycle_states", vcore::fnv_str(&format!("{}|{life:?}", n.a)));

    // --- is the world in the state the case is about? (else: inconclusive, never a pass)
    let b_open = labs[0].w.b_open;
    let reached: Result<(), String> = async {
        let w = &labs[0].w;
        if life.b_must_be_dormant() && b_open {
            return Err("B is still served".to_string());
        }
        if matches!(life, Life::FailedReopenThenOpened | Life::RekeyedAfterRevoke) && !b_open {
            return Err("B is not served".to_string());
        }
        if let Some(want) = life.b_must_be_registered() {
            let got = w.reopened_by_a_restart(&n.b).await?;
            if got != want {
                return Err(format!("a restart over the current store would reopen B: {got}, expected {want}"));
            }
            st.count(&format!("state_registry_on_disk_confirmed:{kind}"));
        }
        Ok(())
    }
    .await;
    if let Err(why) = reached {
        st.inconclusive(format!("states: {life:?} was not reached ({why}); script: {:?}", labs[0].w.life_notes));
        for lab in labs {
            lab.w.shutdown().await;
        }
        return Ok(());
    }
    st.count(&format!("state_b_{}:{kind}", if b_open { "served" } else { "dormant" }));
    if life.creates_b_late() {
        let w = &labs[0].w;
        let interrupted = w.life_notes.iter().any(|x| x.starts_with("db.create -> ") && !x.starts_with("db.create -> 200"));
        if interrupted {
            st.count("create_interrupted");
            st.count(&format!("create_interrupted:{kind}"));
        }
        st.count(&format!(
            "create_outcome:{kind}:{}:{}",
            if b_open { "served" } else { "not_served" },
            if w.b_bound_observed { "key_bound" } else { "key_not_bound" }
        ));
        st.set("create_cut_outcomes", vcore::fnv_str(&format!("{kind}|{b_open}|{}|{:?}", w.b_bound_observed, w.life_notes)));
    }
    // how the state was reached, as a counter key (the sample slots are taken by the matrix)
    st.count(&format!(
        "state_script:{life:?}: {} => B {}, its key {}",
        labs[0].w.life_notes.join("; "),
        if b_open { "served" } else { "not served" },
        if labs[0].w.b_bound_observed { "accepted" } else { "not accepted" }
    ));
    st.sample(|| json!({"monitor": "states", "life": format!("{life:?}"), "world": world_desc(&labs[0].w),
                        "b_served": b_open, "b_key_accepted": labs[0].w.b_bound_observed,
                        "open_databases": labs[0].last.list, "script": labs[0].w.life_notes}));

    // --- the uniform rejection of each encoding, per world
    let none = &cfg.callers[0];
    let probe_entry = Entry { method: "info".into(), aim: RootAim::Natural, oversize: false, traverse: false };
    let encs = [Enc::Cbor, Enc::Json];
    let mut canon: Vec<Vec<Resp>> = vec![];
    for enc in encs {
        let mut per_world = vec![];
        for lab in labs.iter_mut() {
            let r = send(&lab.w.app, &build_req(&n, none, &cfg.paths[0], enc, &probe_entry)).await?;
            if r.status != 401 || r.error_code().as_deref() != Some("unauthorized") {
                viol(st, "C14/reject/anonymous_root_not_401", json!({"world": world_desc(&lab.w), "response": r.describe()}));
            }
            per_world.push(r);
        }
        for i in 1..per_world.len() {
            if per_world[i] != per_world[0] {
                viol(st, "C14/isolation/rejection_differs_across_worlds",
                     json!({"world": world_desc(&labs[i].w), "got": per_world[i].describe(), "reference": per_world[0].describe()}));
            }
        }
        canon.push(per_world);
    }

    let picks: Vec<&Caller> = STATE_CALLERS.iter().filter_map(|k| cfg.callers.iter().find(|c| c.kind == *k)).collect();
    let targets: Vec<&PathSpec> = ["B", "A", "root"].iter().filter_map(|l| cfg.paths.iter().find(|p| p.label == *l)).collect();
    if picks.len() != STATE_CALLERS.len() || targets.len() != 3 {
        st.inconclusive("states: callers / paths of the monitor not found in the configuration");
    }
    let block_mark = labs[0].w.rec.mark();
    let (mut accounted, mut rebuilt) = (0usize, 0u32);
    'all: for c in picks {
        for p in &targets {
            let exp0 = expect(&labs[0].w, c, &p.class);
            let on_b = matches!(&p.class, PathClass::Db(name) if *name == n.b);
            let served = match &p.class {
                PathClass::Db(name) => labs[0].w.open_dbs().contains(name),
                _ => true,
            };
            let tbl = if p.class == PathClass::Root { &cfg.table.root } else { &cfg.table.db };
            // what is sent: a caller that must be rejected sends every name of both tables; an
            // accepted caller sends the Read-labelled methods of the scope, and - where the database
            // is not served, so that nothing can legitimately execute - the Mutating ones as well
            let methods: Vec<String> = match &exp0 {
                Expect::Reject => cfg.table.all_names().into_iter().chain(["nope".to_string()]).collect(),
                _ => tbl
                    .iter()
                    .filter(|(_, e)| *e == Effect::Read || !served)
                    .map(|(m, _)| m.clone())
                    .chain((!served).then(|| "nope".to_string()))
                    .collect(),
            };
            for (ei, enc) in encs.into_iter().enumerate() {
                for m in &methods {
                    let e = Entry { method: m.clone(), aim: RootAim::Natural, oversize: false, traverse: false };
                    let req = build_req(&n, c, p, enc, &e);
                    let obs0 = observe(&mut labs[0], &req, 8).await?;
                    accounted += obs0.effective().len();
                    st.count("states_requests");
                    st.distinct(vcore::fnv_str(&format!("states|{}|{life:?}|{}|{}|{enc:?}|{m}", n.a, c.kind, p.label)));
                    let dirty = judge(cfg, st, &labs[0].w, c, p, enc, &e, &req, &obs0, &exp0, &canon[ei][0], None);
                    let label = label_of(&cfg.table, &p.class, m);
                    match (&exp0, label) {
                        (Expect::Reject, _) => st.count(&format!("state_rejected:{kind}:{}", c.kind)),
                        (_, Some(Effect::Read)) => {
                            st.count("states_read_executions");
                            st.count(&format!("state_read:{kind}"));
                            st.count(&format!("state_read_method:{m}"));
                            if on_b && !served {
                                st.count(&format!("state_dormant_read:{kind}:{}", c.kind));
                                st.count(&format!("state_dormant_read_status:{}", obs0.resp.status));
                            } else if !on_b && obs0.resp.status != 200 && (KNOWN_DB.contains(&m.as_str()) || KNOWN_ROOT.contains(&m.as_str())) {
                                st.inconclusive(format!("states: read built to be valid answered {} ({m} on {}, {life:?})", obs0.resp.status, p.label));
                            }
                        }
                        (_, Some(Effect::Mutating)) => {
                            st.count(&format!("state_dormant_mutating:{kind}:{}", c.kind));
                            st.count(&format!("state_dormant_mutating_status:{}", obs0.resp.status));
                        }
                        _ => {}
                    }
                    // the same request in the other B-worlds, for a caller that holds no key of B
                    if c.relational {
                        st.count("oracle_state_relational");
                        for i in 1..labs.len() {
                            let exp_i = expect(&labs[i].w, c, &p.class);
                            let obs = observe(&mut labs[i], &req, 8).await?;
                            let d = judge(cfg, st, &labs[i].w, c, p, enc, &e, &req, &obs, &exp_i, &canon[ei][i], None);
                            // a rejection byte for byte; a read of the caller's own database modulo
                            // the clock-dependent statistics
                            let same = if exp0 == Expect::Reject { obs.resp == obs0.resp } else { masked(&obs.resp) == masked(&obs0.resp) };
                            if !same {
                                viol(st, format!("C14/isolation/differs_across_worlds/{}", c.kind),
                                     json!({"what": "the same request is answered differently depending on B's existence, key or lifecycle state",
                                            "life": format!("{life:?}"), "caller": c.label, "path": p.label, "request": req.describe(),
                                            "world": world_desc(&labs[i].w), "got": obs.resp.describe(),
                                            "reference_world_b_keyed": obs0.resp.describe()}));
                            }
                            if d {
                                labs[i].rebuild().await;
                            }
                        }
                    }
                    if dirty {
                        labs[0].rebuild().await;
                        rebuilt += 1;
                        st.count("states_world_rebuilds");
                    }
                    if st.violations.len() >= STATE_CASE_MAX_VIOLATIONS || rebuilt > 40 {
                        break 'all;
                    }
                }
            }
        }
    }
    // late writers, as in `rnw` (only meaningful on the world the block started on)
    if rebuilt == 0 {
        tokio::time::sleep(std::time::Duration::from_millis(3)).await;
        drain(50).await;
        let all = labs[0].w.effective_since(block_mark);
        st.count("oracle_no_late_write_states");
        if all.len() != accounted {
            viol(st, "C14/read_wrote/late",
                 json!({"what": "storage mutations appeared after the responses were delivered",
                        "life": format!("{life:?}"), "world": world_desc(&labs[0].w), "accounted": accounted, "total": all.len(),
                        "tail": describe_muts(&all[all.len().saturating_sub(12)..])}));
        }
        // the world is thrown away now: confirm what the running server (not the disk) believes
        // about B with a request that is allowed to mutate
        let want_known = match life {
            Life::UnopenedAfterFailedReopen | Life::ClosedStillRegistered => Some(true),
            Life::ClosedUnregistered => Some(false),
            _ => None,
        };
        if let Some(want) = want_known {
            let known = labs[0].w.known_to_server_destructive(&n.b).await;
            if known == want {
                st.count(&format!("state_registration_in_memory_confirmed:{kind}"));
            } else {
                st.inconclusive(format!("states: {life:?}: the running server {} B at the end of the case (expected the opposite)",
                                        if known { "knows" } else { "does not know" }));
            }
        }
    }
    if !st.violations.is_empty() || st.get("violations_same_signature_suppressed") > 0 {
        // (the report keeps one violation per signature: this tells in which states it fired)
        st.count(&format!("state_with_violation:{life:?}"));
    }
    for lab in labs {
        st.add("worlds_built", lab.builds);
        lab.w.shutdown().await;
    }
    Ok(())
}

/// Mutation attempts of one uninterrupted keyed `db.create` (sizes the enumeration of the cuts).
fn create_mutation_attempts(names: &Names, keys: &Keys) -> u64 {
    let rt = new_runtime();
    rt.block_on(async {
        let w = World::build(WorldSpec { names: names.clone(), keys: keys.clone(), bmode: BMode::Absent, life: Life::Warm }).await;
        let before = w.rec.attempts();
        w.admin_ok("/", "db.create", json!({"name": names.b, "api_key": keys.b})).await;
        drain(8).await;
        let n = w.rec.attempts() - before;
        w.shutdown().await;
        n
    })
}

// ---------------------------------------------------------------------------------------------
// monitor 3: histories of lifecycle and key operations, with a model of the bindings

const HIST_DBS: [&str; 3] = ["hist_alpha", "hist_zebra_zq", "hist_cedar"];
const HIST_PRIMARY: &str = "hist_prim";
const HIST_ADMIN: &str = "adm-hist-0f3e7a";
/// Long-key histories: every key of the history (admin, tenants, rotations, the garbage token)
/// is derived as `<one shared prefix of 96 bytes><role suffix>`, the way an operator derives
/// tenant keys from one master secret; the keys differ only behind the prefix.
const HIST_LONG_PREFIX: &str = "hk-master-9f27c4d1e8b35a60-9f27c4d1e8b35a60-9f27c4d1e8b35a60-9f27c4d1e8b35a60-9f27c4d1e8b35a60:::";

#[derive(Clone, Debug, PartialEq)]
enum HOp {
    Create(usize, bool),
    Close(usize),
    Open(usize),
    Connect(usize),
    SetKey(usize),
    SetKeyGenerated(usize),
    RemoveKey(usize),
    AddDoc(usize),
    Restart,
    CrashRestart,
    /// the wrapped key operation (keyed Create, SetKey, RemoveKey) with ONE transient backend
    /// error: the n-th mutation attempt of the request fails before landing
    Faulty(Box<HOp>, u64),
}

impl HOp {
    fn db(&self) -> Option<usize> {
        match self {
            HOp::Faulty(inner, _) => inner.db(),
            HOp::Create(d, _) | HOp::Close(d) | HOp::Open(d) | HOp::Connect(d) | HOp::SetKey(d)
            | HOp::SetKeyGenerated(d) | HOp::RemoveKey(d) | HOp::AddDoc(d) => Some(*d),
            _ => None,
        }
    }
}

#[derive(Clone, Debug, Default)]
struct HModel {
    exists: BTreeSet<usize>,
    open: BTreeSet<usize>,
    binding: BTreeMap<usize, String>,
    /// every key ever issued, by the history step that issued it: (db, key)
    issued: BTreeMap<usize, (usize, String)>,
    has_coll: BTreeSet<usize>,
}

fn gen_history(rng: &mut Rng, len: usize) -> Vec<HOp> {
    // generated against a model so that most operations are valid; a few are not on purpose
    let mut m = HModel::default();
    let mut ops = vec![];
    // A and B always come to life early, each under a key
    for d in [0usize, 1] {
        ops.push(HOp::Create(d, true));
        m.exists.insert(d);
        m.open.insert(d);
    }
    // A request that failed on a backend error has an indeterminate durable outcome until the next
    // successful metadata flush (its first write may have landed before a later one failed): no
    // power loss is generated between a faulted request and the next clean restart.
    let mut fault_dirty = false;
    while ops.len() < len {
        let d = rng.usize(3);
        let op = match rng.weighted(&[8, 10, 10, 6, 16, 5, 12, 8, 6, 8, 12]) {
            10 => {
                let inner = match rng.weighted(&[5, 4, 2]) {
                    0 => HOp::Create(d, true),
                    1 => HOp::SetKey(d),
                    _ => HOp::RemoveKey(d),
                };
                HOp::Faulty(Box::new(inner), rng.below(5))
            }
            0 => HOp::Create(d, rng.chance(2, 3)),
            1 => HOp::Close(d),
            2 => HOp::Open(d),
            3 => HOp::Connect(d),
            4 => HOp::SetKey(d),
            5 => HOp::SetKeyGenerated(d),
            6 => HOp::RemoveKey(d),
            7 => HOp::AddDoc(d),
            8 => HOp::Restart,
            _ if fault_dirty => HOp::Restart,
            _ => HOp::CrashRestart,
        };
        match &op {
            HOp::Faulty(..) => fault_dirty = true,
            HOp::Restart => fault_dirty = false,
            _ => {}
        }
        // keep mostly valid operations
        let judged = match &op {
            HOp::Faulty(inner, _) => (**inner).clone(),
            o => o.clone(),
        };
        let valid = match &judged {
            HOp::Create(d, _) => !m.exists.contains(d),
            HOp::Close(d) | HOp::SetKey(d) | HOp::SetKeyGenerated(d) | HOp::RemoveKey(d) | HOp::AddDoc(d) => m.open.contains(d),
            HOp::Open(d) => m.exists.contains(d) && !m.open.contains(d),
            _ => true,
        };
        if !valid && !rng.chance(1, 6) {
            continue;
        }
        if valid && matches!(op, HOp::Faulty(..)) {
            // the operator's reaction to a failed keyed creation: bring the database up without a
            // key (or give up), and sooner or later the server restarts
            if let HOp::Faulty(inner, _) = &op {
                if let HOp::Create(d, _) = **inner {
                    ops.push(op.clone());
                    if rng.chance(3, 4) {
                        ops.push(if rng.bool() { HOp::Connect(d) } else { HOp::Create(d, false) });
                        m.exists.insert(d);
                        m.open.insert(d);
                    }
                    if rng.chance(1, 2) {
                        ops.push(HOp::Restart);
                        fault_dirty = false;
                    }
                    continue;
                }
            }
        }
        if valid && !matches!(op, HOp::Faulty(..)) {
            match &op {
                HOp::Create(d, _) | HOp::Connect(d) | HOp::Open(d) => {
                    m.exists.insert(*d);
                    m.open.insert(*d);
                }
                HOp::Close(d) => {
                    m.open.remove(d);
                }
                _ => {}
            }
        }
        ops.push(op);
    }
    ops
}

#[derive(Clone, Copy, PartialEq, Eq, Debug)]
enum Variant {
    Full,
    /// every key bound to B is a different string
    BRekeyed,
    /// every operation on B is dropped: B never exists
    BAbsent,
}

struct HWorld {
    variant: Variant,
    rec: RecStore,
    state: AppState,
    app: axum::Router,
    model: HModel,
    key_counter: u64,
    long_keys: bool,
}

impl HWorld {
    async fn new(variant: Variant, long_keys: bool) -> HWorld {
        let rec = RecStore::new();
        rec.set_record_reads(false);
        let mut w = HWorld { variant, rec: rec.clone(), state: AppState::connect(rec.as_dyn(), server_options(HIST_PRIMARY, Some(hist_admin_key(long_keys)))).await.expect("AppState::connect"), app: axum::Router::new(), model: HModel::default(), key_counter: 0, long_keys };
        w.app = build_router(w.state.clone());
        w
    }

    fn admin_key(&self) -> String {
        hist_admin_key(self.long_keys)
    }

    fn garbage_key(&self) -> String {
        if self.long_keys { format!("{HIST_LONG_PREFIX}garbage-00") } else { "hk-garbage-00".into() }
    }

    async fn admin(&self, path: &str, method: &str, params: Value) -> Result<Resp, String> {
        send(&self.app, &Req { path: path.into(), auth: Some(bearer(&self.admin_key())), enc: Enc::Cbor, method: method.into(), params }).await
    }

    fn next_key(&mut self, d: usize) -> String {
        self.key_counter += 1;
        let alt = if self.variant == Variant::BRekeyed && d == 1 { "-other" } else { "" };
        let pre = if self.long_keys { HIST_LONG_PREFIX } else { "" };
        format!("{pre}hk-{d}-{}-7e1f{alt}", self.key_counter)
    }

    async fn restart(&mut self, crash: bool) {
        let rec = if crash {
            let r = RecStore::over(self.rec.snapshot().await);
            r.set_record_reads(false);
            r
        } else {
            self.state.shutdown().await;
            self.rec.clone()
        };
        let state = AppState::connect(rec.as_dyn(), server_options(HIST_PRIMARY, Some(self.admin_key())))
            .await
            .expect("AppState::connect (restart)");
        self.app = build_router(state.clone());
        self.state = state;
        self.rec = rec;
    }

    /// Applies one operation as the admin; the model follows the server's answers.
    async fn apply(&mut self, op: &HOp, step: usize, st: &mut Stats) -> Result<u16, String> {
        // keep key numbering aligned across variants even when the operation is dropped
        let dropped = self.variant == Variant::BAbsent && op.db() == Some(1);
        let name = |d: usize| HIST_DBS[d].to_string();
        let (op, fault) = match op {
            HOp::Faulty(inner, n) => (&**inner, Some(*n)),
            o => (o, None),
        };
        if let (Some(n), false) = (fault, dropped) {
            self.rec.set_fault(Fault::FailBefore(self.rec.attempts() + n));
        }
        let status = match op {
            HOp::Faulty(..) => return Err("nested Faulty".into()),
            HOp::Create(d, keyed) => {
                let key = keyed.then(|| self.next_key(*d));
                if dropped {
                    return Ok(0);
                }
                let mut p = json!({"name": name(*d)});
                if let Some(k) = &key {
                    p["api_key"] = json!(k);
                }
                let r = self.admin("/", "db.create", p).await?;
                if r.status == 200 {
                    self.model.exists.insert(*d);
                    self.model.open.insert(*d);
                    if let Some(k) = key {
                        self.model.binding.insert(*d, k.clone());
                        self.model.issued.insert(step, (*d, k));
                    }
                } else if let Some(k) = key {
                    // the key of a creation that was refused or failed (and was unwound) is no
                    // credential: tracked as issued, bound to nothing
                    self.model.issued.insert(step, (*d, k));
                    st.count("hist_failed_request_keys_tracked");
                }
                r.status
            }
            HOp::Close(d) => {
                if dropped {
                    return Ok(0);
                }
                let r = self.admin("/", "db.close", json!({"name": name(*d)})).await?;
                if r.status == 200 {
                    self.model.open.remove(d);
                }
                r.status
            }
            HOp::Open(d) | HOp::Connect(d) => {
                if dropped {
                    return Ok(0);
                }
                let m = if matches!(op, HOp::Open(_)) { "db.open" } else { "db.connect" };
                let r = self.admin("/", m, json!({"name": name(*d)})).await?;
                if r.status == 200 {
                    self.model.exists.insert(*d);
                    self.model.open.insert(*d);
                }
                r.status
            }
            HOp::SetKey(d) => {
                let key = self.next_key(*d);
                if dropped {
                    return Ok(0);
                }
                let r = self.admin("/", "db.set_api_key", json!({"name": name(*d), "api_key": key})).await?;
                if r.status == 200 {
                    self.model.binding.insert(*d, key.clone());
                    self.model.issued.insert(step, (*d, key));
                } else {
                    // a rotation that failed binds nothing: the previous binding stays
                    self.model.issued.insert(step, (*d, key));
                    st.count("hist_failed_request_keys_tracked");
                }
                r.status
            }
            HOp::SetKeyGenerated(d) => {
                if dropped {
                    return Ok(0);
                }
                let r = self.admin("/", "db.set_api_key", json!({"name": name(*d)})).await?;
                if r.status == 200 {
                    match r.result().and_then(|v| v.get("api_key").and_then(|k| k.as_str().map(|s| s.to_string()))) {
                        Some(k) => {
                            self.model.binding.insert(*d, k.clone());
                            self.model.issued.insert(step, (*d, k));
                        }
                        None => st.inconclusive("db.set_api_key without a key returned no generated key"),
                    }
                }
                r.status
            }
            HOp::RemoveKey(d) => {
                if dropped {
                    return Ok(0);
                }
                let r = self.admin("/", "db.remove_api_key", json!({"name": name(*d)})).await?;
                if r.status == 200 {
                    self.model.binding.remove(d);
                }
                r.status
            }
            HOp::AddDoc(d) => {
                if dropped {
                    return Ok(0);
                }
                let path = format!("/{}", name(*d));
                let marker = ["HALPHA", "HZEBRAQUARTZ", "HCEDAR"][*d];
                if !self.model.has_coll.contains(d) {
                    let r = self.admin(&path, "collection.create", collection_params("hcoll", marker, false)).await?;
                    if r.status == 200 {
                        self.model.has_coll.insert(*d);
                    }
                }
                let r = self.admin(&path, "doc.add", json!({"collection": "hcoll", "doc": doc_for(marker, 1, false)})).await?;
                r.status
            }
            HOp::Restart => {
                self.restart(false).await;
                200
            }
            HOp::CrashRestart => {
                self.restart(true).await;
                200
            }
        };
        if fault.is_some() {
            if self.rec.fault_fired() {
                st.count("hist_fault_fired");
                if status != 200 {
                    st.count("hist_faulted_request_failed");
                }
            }
            self.rec.reset_faults();
        }
        Ok(status)
    }
}

/// One probe: who asks what where.
#[derive(Clone, Debug)]
struct Probe {
    who: ProbeWho,
    /// None = root, Some(d) = database d, Some(3) = a database that never exists
    target: Option<usize>,
    mutating: bool,
    enc: Enc,
}

#[derive(Clone, Debug, PartialEq)]
enum ProbeWho {
    None,
    Garbage,
    Admin,
    /// holder of the key issued by this history step
    Issued(usize),
}

fn hist_admin_key(long_keys: bool) -> String {
    if long_keys { format!("{HIST_LONG_PREFIX}admin-0f3e7a") } else { HIST_ADMIN.into() }
}

async fn hist_case(case: u64, rng: &mut Rng, st: &mut Stats, len: usize) -> Result<(), String> {
    let ops = gen_history(rng, len);
    let long_keys = case % 2 == 1;
    let mut worlds = vec![
        HWorld::new(Variant::Full, long_keys).await,
        HWorld::new(Variant::BRekeyed, long_keys).await,
        HWorld::new(Variant::BAbsent, long_keys).await,
    ];
    st.count(if long_keys { "hist_cases_long_keys" } else { "hist_cases_short_keys" });
    let mut canon: BTreeMap<u8, Resp> = BTreeMap::new();
    for enc in [Enc::Cbor, Enc::Json] {
        let r = send(&worlds[0].app, &Req { path: "/".into(), auth: None, enc, method: "info".into(), params: json!({}) }).await?;
        if r.status != 401 {
            viol(st, "C14/reject/anonymous_root_not_401", json!({"response": r.describe()}));
        }
        canon.insert(enc as u8, r);
    }
    let mut kinds = BTreeSet::new();
    let mut trace: Vec<String> = vec![];
    let mut tainted: BTreeSet<usize> = BTreeSet::new();
    for (step, op) in ops.iter().enumerate() {
        let kind = format!("{op:?}").split('(').next().unwrap_or("").to_string();
        st.count(&format!("hist_op:{kind}"));
        kinds.insert(kind);
        let mut statuses = vec![];
        for w in worlds.iter_mut() {
            statuses.push(w.apply(op, step, st).await?);
        }
        trace.push(format!("{op:?} -> {statuses:?}"));
        // A `db.create` that failed on a backend error is unwound in memory, but whether the
        // database is registered after later restarts depends on which metadata flush comes next
        // (lifecycle, decided by the admin's own requests; no subject of this property): from here
        // on the live set of such a database is OBSERVED per world, and requests that depend on
        // it are not compared across worlds.
        if let HOp::Faulty(inner, _) = op {
            if let (HOp::Create(d, _), true) = (&**inner, statuses.iter().any(|s| *s != 200 && *s != 0)) {
                if tainted.insert(*d) {
                    st.count("hist_lifecycle_observed_after_failed_create");
                }
            }
        }
        if !tainted.is_empty() {
            for w in worlds.iter_mut() {
                let names = w.state.db_names().await;
                for d in &tainted {
                    if names.iter().any(|n| n == HIST_DBS[*d]) {
                        w.model.open.insert(*d);
                    } else {
                        w.model.open.remove(d);
                    }
                }
            }
        }
        let lifecycle_observed = |d: Option<usize>| d.map(|d| tainted.contains(&d)).unwrap_or(false);
        // The injected error is placed by mutation-attempt index; how many backend writes a request
        // issues depends on state the variants do not share (a metadata flush skips objects that are
        // not dirty), so the same faulted request may fail in one world and succeed in another. The
        // worlds have then legitimately diverged: the history ends here (counted).
        if matches!(op, HOp::Faulty(..)) {
            let live: Vec<u16> = statuses.iter().copied().filter(|s| *s != 0).collect();
            if live.windows(2).any(|w| w[0] != w[1]) {
                st.count("hist_ended_at_fault_hitting_worlds_differently");
                break;
            }
        }
        // operations that do not concern B must be answered alike in every variant
        if op.db() != Some(1) && !lifecycle_observed(op.db()) && (statuses[1] != statuses[0] || statuses[2] != statuses[0]) {
            st.inconclusive(format!("hist: admin operation {op:?} answered differently across variants {statuses:?}; history {trace:?}"));
            break;
        }
        // probes
        let slots: Vec<usize> = worlds[0].model.issued.keys().copied().collect();
        let mut whos = vec![ProbeWho::None, ProbeWho::Garbage, ProbeWho::Admin];
        let lo = slots.len().saturating_sub(7);
        for s in &slots[lo..] {
            whos.push(ProbeWho::Issued(*s));
        }
        if lo > 0 {
            whos.push(ProbeWho::Issued(slots[0]));
        }
        let mut probes = vec![];
        for who in &whos {
            for target in [None, Some(0), Some(1), Some(2), Some(3)] {
                let enc = if rng.bool() { Enc::Cbor } else { Enc::Json };
                probes.push(Probe { who: who.clone(), target, mutating: false, enc });
                if rng.chance(1, 3) {
                    probes.push(Probe { who: who.clone(), target, mutating: true, enc });
                }
            }
        }
        for pr in probes {
            let mut answers: Vec<Option<Resp>> = vec![];
            for w in worlds.iter_mut() {
                // the holder of an issued key: in the B-absent variant keys of B were never issued
                let (token, holder_db): (Option<String>, Option<usize>) = match &pr.who {
                    ProbeWho::None => (None, None),
                    ProbeWho::Garbage => (Some(w.garbage_key()), None),
                    ProbeWho::Admin => (Some(w.admin_key()), None),
                    // the key issued by that history step in this variant (absent when the step
                    // was dropped here: keys of B in the B-absent variant)
                    ProbeWho::Issued(slot) => match w.model.issued.get(slot) {
                        Some((db, key)) => (Some(key.clone()), Some(*db)),
                        None => {
                            answers.push(None);
                            continue;
                        }
                    },
                };
                let path = match pr.target {
                    None => "/".to_string(),
                    Some(3) => "/hist_never".to_string(),
                    Some(d) => format!("/{}", HIST_DBS[d]),
                };
                let (method, params) = match (pr.target, pr.mutating) {
                    (None, false) => ("db.list", json!({})),
                    (None, true) => ("db.close", json!({"name": HIST_DBS[1]})),
                    (_, false) => ("db.metadata", json!({})),
                    (_, true) => ("db.save_extension", json!({"key": "probe", "value": 1})),
                };
                let admin = pr.who == ProbeWho::Admin;
                if admin && pr.mutating {
                    answers.push(None);
                    continue;
                }
                let req = Req { path, auth: token.as_ref().map(|t| bearer(t)), enc: pr.enc, method: method.into(), params };
                let mark = w.rec.mark();
                let r = send(&w.app, &req).await?;
                drain(1).await;
                let landed: Vec<Mutation> = w.rec.mutations_since(mark, None).into_iter().filter(|m| m.effective()).collect();
                st.eval();
                st.count("hist_probes");
                let accept = admin
                    || match (pr.target, &token) {
                        (Some(d), Some(t)) if d < 3 => w.model.binding.get(&d) == Some(t),
                        _ => false,
                    };
                let detail = |what: &str| {
                    json!({"what": what, "variant": format!("{:?}", w.variant), "history": trace, "step": step,
                           "request": req.describe(), "response": r.describe(), "key_issued_for": holder_db.map(|d| HIST_DBS[d]),
                           "model_bindings": w.model.binding.iter().map(|(d, k)| format!("{}={k}", HIST_DBS[*d])).collect::<Vec<_>>(),
                           "model_open": w.model.open.iter().map(|d| HIST_DBS[*d]).collect::<Vec<_>>(),
                           "mutations": describe_muts(&landed)})
                };
                if !accept {
                    st.count("hist_expected_reject");
                    let revoked = holder_db.is_some() && holder_db == pr.target;
                    if revoked {
                        st.count("hist_revoked_key_on_own_db");
                    }
                    if r != canon[&(pr.enc as u8)] {
                        let sig = if revoked { "C14/history/revoked_key_not_rejected" } else { "C14/history/not_uniform_rejection" };
                        viol(st, sig, detail("a caller without a valid binding did not get the uniform rejection"));
                    }
                    if !landed.is_empty() {
                        viol(st, "C14/history/rejected_request_wrote", detail("a rejected request wrote to storage"));
                    }
                } else {
                    st.count("hist_expected_accept");
                    let want = match pr.target {
                        Some(d) if d < 3 && !w.model.open.contains(&d) => 404,
                        Some(3) => 404,
                        _ => 200,
                    };
                    if r.status == 401 {
                        // not forbidden by the property (the caller is confined even more), but the
                        // model of the documented bindings no longer describes the server
                        st.inconclusive(format!(
                            "hist: the key the documented rules keep bound is rejected after {op:?} (model out of sync)"
                        ));
                    } else if r.status != want {
                        st.inconclusive(format!("hist: accepted probe answered {} (model expects {want}) for {op:?}; history {trace:?}", r.status));
                    }
                    if !pr.mutating && !landed.is_empty() {
                        viol(st, format!("C14/read_wrote/{method}"), detail("a Read-labelled method wrote to storage"));
                    }
                    if !admin {
                        if let Some(d) = pr.target {
                            let nd: Vec<String> = (0..3)
                                .filter(|x| *x != d)
                                .flat_map(|x| [HIST_DBS[x].to_string(), ["HALPHA", "HZEBRAQUARTZ", "HCEDAR"][x].to_string()])
                                .chain([HIST_PRIMARY.to_string(), "server:api_keys".to_string()])
                                .collect();
                            if let Some(hit) = find_leak(&r.body, &nd) {
                                let mut dd = detail("response to a database key contains foreign data");
                                dd["leaked"] = json!(hit);
                                viol(st, "C14/history/response_leak", dd);
                            }
                            let prefix = format!("{}/", HIST_DBS[d]);
                            if landed.iter().any(|m| !m.path().as_ref().starts_with(&prefix)) {
                                viol(st, "C14/history/write_outside_prefix", detail("a database key wrote outside its prefix"));
                            }
                        }
                    }
                }
                answers.push(Some(r));
            }
            // relational: a caller that holds no key of B sees the same answers whatever B is
            let holder_of_b = matches!(&pr.who, ProbeWho::Issued(i) if worlds[0].model.issued[i].0 == 1);
            let own_db = matches!((&pr.who, pr.target), (ProbeWho::Issued(i), Some(t)) if worlds[0].model.issued[i].0 == t);
            // the holder of a key of a database whose live set is observed per world (see above)
            let own_observed = own_db && lifecycle_observed(pr.target);
            if pr.who != ProbeWho::Admin && !holder_of_b && !own_observed {
                if let Some(Some(base)) = answers.first() {
                    st.count("hist_relational_tuples");
                    for (vi, a) in answers.iter().enumerate().skip(1) {
                        let Some(a) = a else { continue };
                        let same = if own_db { masked(a) == masked(base) } else { a == base };
                        if !same {
                            viol(st, 
                                "C14/isolation/history_differs_across_worlds",
                                json!({"what": "a caller without any key of B gets different answers depending on B",
                                       "history": trace, "step": step, "probe": format!("{pr:?}"),
                                       "variant": format!("{:?}", worlds[vi].variant),
                                       "got": a.describe(), "reference": base.describe()}),
                            );
                        }
                    }
                }
            }
        }
        if !st.violations.is_empty() {
            break;
        }
    }
    if kinds.len() >= 5 {
        st.distinct(vcore::hash_debug(&ops));
    }
    st.sample(|| json!({"monitor": "hist", "case": case, "history": trace.iter().take(14).collect::<Vec<_>>()}));
    for w in worlds {
        w.state.shutdown().await;
    }
    Ok(())
}

// ---------------------------------------------------------------------------------------------
// monitor 4: the documented provisioning guards, stated as confinement

async fn guards_case(cfg: &Cfg, st: &mut Stats) -> Result<(), String> {
    let (n, k) = (&cfg.names, &cfg.keys);
    let probe = |app: &axum::Router, key: Option<&str>, path: String, method: &str| {
        let app = app.clone();
        let req = Req { path, auth: key.map(bearer), enc: Enc::Json, method: method.into(), params: json!({"key": "ext_db"}) };
        async move { send(&app, &req).await }
    };

    // 1. a restart without the admin key over a store that carries bindings must not serve the
    //    bound databases to anybody (documented: the server refuses to start)
    let w = World::build(spec(cfg, BMode::Keyed, Life::Warm)).await;
    w.state.shutdown().await;
    st.eval();
    match AppState::connect(w.rec.as_dyn(), server_options(&n.primary, None)).await {
        Err(_) => st.count("guard_keyless_restart_refused"),
        Ok(state) => {
            let app = build_router(state.clone());
            for db in [&n.a, &n.b] {
                let r = probe(&app, None, format!("/{db}"), "db.metadata").await?;
                if r.status == 200 {
                    viol(st, 
                        "C14/guards/keyless_restart_serves_bound_database",
                        json!({"what": "restarted without an admin key over persisted bindings: a bound database answers an anonymous caller",
                               "database": db, "response": r.describe()}),
                    );
                }
            }
            state.shutdown().await;
        }
    }
    // 1b. the same after the bound databases were closed by the admin (db.close unregisters a
    //     database but keeps its key binding): a keyless restart must still be refused, or - if the
    //     server comes up - nobody without a key may open or read a bound database
    for close_which in [vec![&n.b], vec![&n.a, &n.b]] {
        let w = World::build(spec(cfg, BMode::Keyed, Life::Warm)).await;
        for db in &close_which {
            let r = send(&w.app, &Req { path: "/".into(), auth: Some(bearer(&k.admin)), enc: Enc::Json, method: "db.close".into(), params: json!({"name": db}) }).await?;
            if r.status != 200 {
                st.inconclusive(format!("guards: admin db.close of a bound database answered {}", r.status));
            }
        }
        w.state.shutdown().await;
        st.eval();
        match AppState::connect(w.rec.as_dyn(), server_options(&n.primary, None)).await {
            Err(_) => st.count("guard_keyless_restart_after_close_refused"),
            Ok(state) => {
                st.count("guard_keyless_restart_after_close_started");
                let app = build_router(state.clone());
                for db in [&n.a, &n.b] {
                    let opened = send(&app, &Req { path: "/".into(), auth: None, enc: Enc::Json, method: "db.open".into(), params: json!({"name": db}) }).await?;
                    let r = probe(&app, None, format!("/{db}"), "db.metadata").await?;
                    if opened.status == 200 || r.status == 200 {
                        viol(st,
                            "C14/guards/keyless_restart_serves_bound_database",
                            json!({"what": "restarted without an admin key over persisted bindings of CLOSED databases: an anonymous caller opens / reads a bound database",
                                   "database": db, "closed_before_restart": close_which, "db.open": opened.describe(), "db.metadata": r.describe()}),
                        );
                    }
                }
                state.shutdown().await;
            }
        }
    }
    // 2. a restart under another admin key: the old admin key is a stranger, bindings still hold
    st.eval();
    let state = AppState::connect(w.rec.as_dyn(), server_options(&n.primary, Some("adm-second-91".into())))
        .await
        .map_err(|e| format!("restart under a new admin key failed: {}", e.message))?;
    let app = build_router(state.clone());
    for (key, path, want_ok) in [
        (k.admin.as_str(), "/".to_string(), false),
        (k.admin.as_str(), format!("/{}", n.a), false),
        (k.a.as_str(), format!("/{}", n.a), true),
        (k.a.as_str(), format!("/{}", n.b), false),
        (k.a_old.as_str(), format!("/{}", n.a), false),
        (k.c_removed.as_str(), format!("/{}", n.c), false),
        ("adm-second-91", format!("/{}", n.b), true),
    ] {
        let r = probe(&app, Some(key), path.clone(), if path == "/" { "db.list" } else { "db.metadata" }).await?;
        st.count("guard_restart_probes");
        if want_ok && r.status != 200 {
            st.inconclusive(format!("guards: bound key not accepted after restart ({path}: {})", r.status));
        }
        if !want_ok && r.status != 401 {
            viol(st, 
                "C14/guards/stale_or_foreign_key_accepted_after_restart",
                json!({"path": path, "key": key, "response": r.describe()}),
            );
        }
    }
    state.shutdown().await;

    // 3. the primary database (registry + key hashes) cannot be delegated; an empty key cannot be
    //    bound; a failed db.create over existing storage does not re-key
    let w = World::build(spec(cfg, BMode::Keyed, Life::Warm)).await;
    st.eval();
    let attempts = [
        ("db.set_api_key", json!({"name": n.primary, "api_key": "kp-try-1"}), "kp-try-1", n.primary.clone()),
        ("db.create", json!({"name": n.primary, "api_key": "kp-try-2"}), "kp-try-2", n.primary.clone()),
        ("db.connect", json!({"name": n.primary, "api_key": "kp-try-3"}), "kp-try-3", n.primary.clone()),
        ("db.set_api_key", json!({"name": n.a, "api_key": "  "}), "  ", n.a.clone()),
        ("db.set_api_key", json!({"name": n.a, "api_key": ""}), "", n.a.clone()),
        ("db.create", json!({"name": n.d, "api_key": "kd-try-4"}), "kd-try-4", n.d.clone()),
        ("db.create", json!({"name": n.a, "api_key": "ka-try-5"}), "ka-try-5", n.a.clone()),
    ];
    for (method, params, key, db) in attempts {
        let r = send(&w.app, &Req { path: "/".into(), auth: Some(bearer(&k.admin)), enc: Enc::Json, method: method.into(), params: params.clone() }).await?;
        st.count("guard_binding_attempts");
        if r.status == 200 {
            st.count("guard_binding_attempt_answered_200");
        }
        let after = probe(&w.app, Some(key), format!("/{db}"), "db.get_extension").await?;
        if after.status != 401 {
            viol(st, 
                "C14/guards/refused_binding_took_effect",
                json!({"what": "a key the documentation says cannot be bound this way is accepted afterwards",
                       "attempt": {"method": method, "params": params, "status": r.status},
                       "then": {"key": key, "database": db, "response": after.describe()}}),
            );
        }
    }
    // the rightful bindings survived all attempts
    for (key, db) in [(&k.a, &n.a), (&k.b, &n.b)] {
        let r = probe(&w.app, Some(key), format!("/{db}"), "db.metadata").await?;
        if r.status != 200 {
            st.inconclusive(format!("guards: binding of {db} lost after refused attempts ({})", r.status));
        }
    }
    w.shutdown().await;
    Ok(())
}

// ---------------------------------------------------------------------------------------------

fn stored_hash_of_a(cfg_names: &Names, keys: &Keys) -> Option<String> {
    let rt = new_runtime();
    rt.block_on(async {
        let w = World::build(WorldSpec { names: cfg_names.clone(), keys: keys.clone(), bmode: BMode::Keyed, life: Life::Warm }).await;
        let meta = w.admin_ok(&format!("/{}", cfg_names.primary), "db.metadata", json!({})).await;
        let h = meta["extensions"]["server:api_keys"][&cfg_names.a].as_str().map(|s| s.to_string());
        w.shutdown().await;
        h
    })
}

/// Drives one case on a runtime of its own: tasks a case leaves behind die with it.
macro_rules! drive {
    ($st:expr, $what:expr, $fut:expr) => {{
        let rt = new_runtime();
        let r: Result<(), String> = rt.block_on($fut);
        if let Err(e) = r {
            $st.inconclusive(format!("{}: harness could not drive a request: {e}", $what));
        }
    }};
}

fn main() {
    let mut run = Run::from_args(
        "C14",
        "exploration",
        "a matrix request is the tuple (caller, path, encoding, method entry) and every tuple is \
         distinct and executed; rnw and states executions are distinct by (lifecycle state, caller, \
         database, encoding, method); a history is non-trivial when it uses >= 5 operation kinds (distinct \
         by operation sequence)",
    );
    run.assume("keyless mode (no admin key) is open by design (auth.rs rule 1) and is not driven; the worlds always run with an admin key");
    run.assume("the uniform rejection is compared as status + all response headers + body bytes; no field needed masking (no date / request-id header is produced in-process)");
    run.assume("own-database reads of a database key are compared across the B-worlds modulo integers in the unix-millisecond range and the clock-dependent statistics fields version/last_saved/check_point/total_*/get_count/search_count (storage metadata writes are rate-limited by wall-clock milliseconds)");
    run.assume("a read that names a collection whose handle is not loaded performs the lazy open documented in api/collection.rs::open (detached task, may flush): its writes are counted and confined to the database prefix, the reads-never-write oracle measures the read on the loaded handle");
    run.assume("database <-> storage mapping: every object of database X lives under the prefix `X/` (anda_db: Path::from(db.name())); no server-level bookkeeping is documented for (or was observed from) a database-scope request, so a database key may mutate nothing outside that prefix");
    run.assume("lifecycle states: a registered database whose reopen failed is reached with a fault layer (the repository's anda_object_store::FaultStore, pass-through unless a rule is pushed) between AppState and the recording store: every GET under `<B>/` fails while AppState::connect runs and the rule is cleared before the first probe; `db.close` with a failed registry write = every PUT under `<primary>/` fails during that one request; interrupted creation = RecStore FailBefore / PowerOffAfter at the n-th mutation of the db.create request (cleared after the answer) or a restart over the first n landed mutations. Whether the binding of an interrupted creation survives is documented as best-effort (state.rs undo_api_key_binding) and is observed, not prescribed; the oracles are then applied for the caller class observed");
    run.assume("the in-memory registration of a dormant database is not observable without a mutation: it is confirmed at the end of the case, on the world that is thrown away, by the admin's db.set_api_key (404 for an unknown name); the persisted registration by a throw-away AppState over a copy of the store");
    run.assume("flush_interval is one day so that the periodic flush task never fires inside a measured window; spawned tasks are drained with yield_now rounds plus one 3 ms sleep per lifecycle block");

    let dir = server_crate_dir(run.args.get("server_src"));
    let table = match extract_method_table(&dir) {
        Ok(t) => t,
        Err(e) => {
            run.stats.inconclusive(format!("cannot extract the dispatch table from {dir}: {e}"));
            run.finish();
        }
    };
    // today's table has 8 root and 31 database methods; finding fewer means the extractor lost arms
    if table.root.len() < 8 || table.db.len() < 31 {
        run.stats.inconclusive(format!(
            "dispatch table extraction found {} root / {} database methods (floor 8 / 31)",
            table.root.len(),
            table.db.len()
        ));
    }
    let not_built_for: Vec<String> = table
        .root
        .iter()
        .filter(|(n, _)| !KNOWN_ROOT.contains(&n.as_str()))
        .chain(table.db.iter().filter(|(n, _)| !KNOWN_DB.contains(&n.as_str())))
        .map(|(n, _)| n.clone())
        .collect();
    run.set_extra(
        "methods_extracted",
        json!({"source": table.source,
               "root": table.root.iter().map(|(n, e)| format!("{n}: {}", e.name())).collect::<Vec<_>>(),
               "database": table.db.iter().map(|(n, e)| format!("{n}: {}", e.name())).collect::<Vec<_>>(),
               "without_params_builder (sent with {})": not_built_for}),
    );

    let keys = Keys::default();
    let tier = run.tier;
    let pairs: Vec<usize> = tier.pick(vec![(run.seed % 3) as usize], vec![0, 1, 2]);
    let mut matrix_complete = true;
    let mut matrix_expected = 0u64;
    let mut matrix_runs = 0u64;
    let (mut n_callers, mut n_paths) = (0u64, 0u64);
    for pair in &pairs {
        let names = Names::pair(*pair);
        let Some(hash) = stored_hash_of_a(&names, &keys) else {
            run.stats.inconclusive("cannot read the stored hash of key A from the primary database's extensions");
            continue;
        };
        let cfg = Cfg { table: table.clone(), names: names.clone(), keys: keys.clone(), callers: callers(&keys, &hash), paths: paths(&names) };
        let (nc, np) = (cfg.callers.len() as u64, cfg.paths.len() as u64);
        (n_callers, n_paths) = (nc, np);
        if run.wants("matrix") {
            let lives: Vec<Life> = tier.pick(vec![Life::Warm], vec![Life::Warm, Life::Restarted, Life::ReadOnly, Life::CrashedPending]);
            for life in lives {
                for p in &cfg.paths {
                    let e = entries(&cfg.table, &p.class).len() as u64;
                    // three encodings, the over-limit entry is not sent without a content type
                    matrix_expected += nc * (3 * e - 1);
                }
                let chunks = np.div_ceil(PATH_CHUNK as u64);
                let label = if life == Life::Warm { format!("matrix_p{pair}") } else { format!("matrix_p{pair}_{life:?}") };
                let ran = run.parallel(&label, nc * chunks, tier.pick(0.7, 0.25), |case, _rng, st| {
                    let (ci, chunk) = ((case / chunks) as usize, (case % chunks) as usize);
                    drive!(st, "matrix", matrix_group(&cfg, life, ci, chunk, st));
                });
                if ran != nc * chunks && run.replay.is_none() {
                    matrix_complete = false;
                }
                matrix_runs += 1;
            }
            run.parallel(&format!("http_methods_p{pair}"), 1, 0.3, |_c, _rng, st| {
                drive!(st, "http_methods", http_methods_case(&cfg, st));
            });
        }
        if run.wants("rnw") {
            run.parallel(&format!("rnw_p{pair}"), ALL_LIVES.len() as u64, 0.4, |case, _rng, st| {
                drive!(st, "rnw", rnw_case(&cfg, ALL_LIVES[case as usize], st));
            });
        }
        if run.wants("states") {
            let n_cut = create_mutation_attempts(&names, &keys).min(12) as u8;
            run.stats.max("create_mutation_attempts", n_cut as u64);
            let mut lives: Vec<Life> = DORMANT_LIVES.to_vec();
            for cut in 0..n_cut {
                lives.push(Life::CreateFailedAt(cut));
                lives.push(Life::CreateOutageAt(cut));
                lives.push(Life::CreateCrashedAt(cut));
            }
            run.parallel(&format!("states_p{pair}"), lives.len() as u64, 0.5, |case, _rng, st| {
                drive!(st, "states", states_case(&cfg, lives[case as usize], st));
            });
        }
        if run.wants("guards") {
            run.parallel(&format!("guards_p{pair}"), 1, 0.3, |_c, _rng, st| {
                drive!(st, "guards", guards_case(&cfg, st));
            });
        }
    }
    if run.wants("hist") {
        let len = tier.pick(16, 26);
        run.parallel("hist", tier.pick(192, 45000), 0.9, |case, rng, st| {
            drive!(st, "hist", hist_case(case, rng, st, len));
        });
    }

    if run.wants("matrix") && run.replay.is_none() {
        let got = run.stats.get("matrix_requests");
        run.set_extra("matrix", json!({"requests_expected": matrix_expected, "requests_executed": got,
            "callers": n_callers, "paths": n_paths, "encodings": 3, "matrix_runs (name pair x lifecycle state)": matrix_runs}));
        run.exhaustive = Some(matrix_complete && got == matrix_expected);
        if got != matrix_expected {
            run.stats.inconclusive(format!("matrix not enumerated completely: {got} of {matrix_expected} requests"));
        }
    }
    run.floor("oracle_uniform_rejection", 20_000);
    run.floor("oracle_no_effect", 20_000);
    run.floor("oracle_path_only", 1_000);
    run.floor("oracle_confinement", 200);
    run.floor("oracle_read_wrote_nothing", 400);
    run.floor("oracle_unknown_method_no_effect", 100);
    run.floor("oracle_full_admin_snapshot", 400);
    run.floor("relational_tuples_compared", 20_000);
    run.floor("relational_own_reads_compared", 60);
    run.floor("executed:admin", 300);
    run.floor("executed:key_a", 100);
    run.floor("executed:key_b", 50);
    run.floor("world_rebuilds", 100);
    run.floor("traversal_reads", 50);
    run.floor("traversal_mutating", 50);
    run.floor("http_method_requests", 1_000);
    for (m, _) in table.root.iter().filter(|(m, _)| KNOWN_ROOT.contains(&m.as_str())) {
        run.floor(&format!("executed_method:{m}"), 1);
    }
    for (m, _) in table.db.iter().filter(|(m, _)| KNOWN_DB.contains(&m.as_str())) {
        run.floor(&format!("executed_method:{m}"), 1);
    }
    run.floor("rnw_executions", 1_200);
    run.floor("rnw_cold_open_reads", 6);
    run.floor("rnw_caller:admin", 500);
    run.floor("rnw_caller:key_a", 150);
    run.floor("oracle_no_late_write", 7);
    for life in ALL_LIVES {
        run.floor(&format!("rnw_life:{life:?}"), 1);
    }
    for (m, e) in table.root.iter().chain(table.db.iter()) {
        if *e == Effect::Read {
            run.floor(&format!("rnw:{m}"), 14);
        }
    }
    // lifecycle states: every fixed state probed, every Read-labelled database method under both
    // encodings by the admin and by B's key on the dormant B, and by the admin and A's key on A
    let n_read_db = table.db.iter().filter(|(_, e)| *e == Effect::Read).count() as u64;
    let n_pairs = pairs.len() as u64;
    for life in DORMANT_LIVES {
        let kind = life.kind();
        run.floor(&format!("state:{kind}"), n_pairs);
        run.floor(&format!("state_read:{kind}"), n_pairs * n_read_db * 4);
        if life.b_must_be_dormant() {
            for who in ["admin", "key_b"] {
                run.floor(&format!("state_dormant_read:{kind}:{who}"), n_pairs * n_read_db * 2);
                run.floor(&format!("state_dormant_mutating:{kind}:{who}"), n_pairs * 2);
            }
            run.floor(&format!("state_registration_in_memory_confirmed:{kind}"), n_pairs);
        } else {
            run.floor(&format!("state_b_served:{kind}"), n_pairs);
        }
        if life.b_must_be_registered().is_some() {
            run.floor(&format!("state_registry_on_disk_confirmed:{kind}"), n_pairs);
        }
        for who in ["key_a", "none", "key_b_other"] {
            run.floor(&format!("state_rejected:{kind}:{who}"), n_pairs * 100);
        }
    }
    for kind in ["CreateFailedAt", "CreateOutageAt", "CreateCrashedAt"] {
        run.floor(&format!("state:{kind}"), n_pairs * 3);
        run.floor(&format!("state_read:{kind}"), n_pairs * 3 * n_read_db * 4);
    }
    run.floor("create_interrupted:CreateFailedAt", n_pairs * 2);
    run.floor("create_interrupted:CreateOutageAt", n_pairs * 2);
    run.floor_set("create_cut_outcomes", 3);
    run.floor("oracle_state_relational", n_pairs * 5_000);
    run.floor("oracle_no_late_write_states", n_pairs * 10);
    for (m, e) in table.db.iter() {
        if *e == Effect::Read {
            run.floor(&format!("state_read_method:{m}"), n_pairs * 40);
        }
    }
    run.floor("hist_probes", 20_000);
    run.floor("hist_expected_accept", 2_000);
    run.floor("hist_revoked_key_on_own_db", 300);
    run.floor("hist_relational_tuples", 5_000);
    run.floor("hist_cases_long_keys", 40);
    run.floor("hist_cases_short_keys", 40);
    run.floor("hist_faulted_request_failed", 60);
    run.floor("hist_failed_request_keys_tracked", 60);
    for op in ["Create", "Close", "Open", "Connect", "SetKey", "SetKeyGenerated", "RemoveKey", "AddDoc", "Restart", "CrashRestart", "Faulty"] {
        run.floor(&format!("hist_op:{op}"), 20);
    }
    run.floor("guard_binding_attempts", 7);
    run.floor("guard_restart_probes", 7);
    run.finish();
}

//! Shared fixtures of the v_kip monitors (C15, C16): harness-side tokenizer and metamorphic
//! renderers, the grammar-derived sentence generator, token-level mutators, the corpus loader
//! and the child-process runner that attributes parser aborts to inputs.
pub mod corpus;
pub mod generate;
pub mod lex;
pub mod mutate;
pub mod families;
pub mod proc;
pub mod walker;

//! C05 - Concurrent writers serialize: nothing lost, nothing doubled, state converges.
//! Sets of 2-4 concurrent operations (same-document and different-document mixes, stripe-sharing
//! ids, adds, extensions, flush, compaction, reads) over a pre-populated, pre-flushed collection
//! run under controlled schedules: every backend call of every task is a scheduling point
//! (gated RecStore + manual polling; DFS within a budget, random schedules beyond). Oracles:
//!  1. the mutations' return values are explained by a total order that respects real time
//!     (brute-force search over permutations of <= 4 operations against a sequential model);
//!  2. reads that overlap writers return whole documents some call wrote, never older than the
//!     last write that returned before the read was called;
//!  3. once all calls returned, documents, indexes and counts equal the result of that order
//!     (full C02 audit);
//!  4. at the moment a concurrent flush returns the backend is snapshotted; reopening the
//!     snapshot yields the state after the mutations that had returned by then (which must form
//!     a prefix of a valid order) and passes the audit.
//! A multi-threaded stress variant (S-mt) runs larger operation counts on a multi-thread runtime
//! with the same convergence audit.
//! Section `triples` enumerates every ordered triple (first call, second call, holder of the
//! exclusive operation gate) over one document / one doc-lock stripe with the first call parked at
//! each of its suspension points and the other two queued in both orders: a wedge is decided on
//! logical grounds (no call enabled, calls unfinished), completed histories go through the oracles
//! above. Section `ext_threads` overlaps the synchronous functional extension setters of the
//! collection and of the database on OS threads with unambiguous histories (counters, append-only
//! logs, a log that is taken away by `remove_extension` meanwhile).

use anda_db::query::{Filter, RangeQuery};
use anda_db::schema::Fv;
use std::collections::{BTreeMap, BTreeSet};
use std::sync::Arc;
use v_db::audit::{AuditCtx, audit};
use v_db::driver::{Driver, Op, Step};
use v_db::{Cfg, FDoc, IndexSet, Model, Patch, apply_patch, connect, gen_doc, gen_patch, open_coll};
use vcore::manual::{Chooser, DfsChooser, ManualExec, RandChooser, Stuck, drive};
use vcore::recstore::RecStore;
use vcore::run::block_on;
use vcore::{Rng, Run, Stats, Value, json};

#[derive(Clone, Debug)]
enum COp {
    Add(FDoc),
    Update(u64, Patch),
    Remove(u64),
    Get(u64),
    Query(String),
    SaveExt(String, u64),
    RemoveExt(String),
    /// the synchronous setter (`set_extension`): takes no operation lease, lands in memory at
    /// once and is persisted by the next flush / close
    SetExt(String, u64),
    Flush,
    Compact,
    /// the other holders of the exclusive operation gate (section `triples` only)
    CompactBm25,
    Reconcile,
    Close,
}

impl COp {
    fn is_mutation(&self) -> bool {
        matches!(self, COp::Add(_) | COp::Update(..) | COp::Remove(_) | COp::SaveExt(..) | COp::RemoveExt(_) | COp::SetExt(..))
    }
    fn brief(&self) -> String {
        match self {
            COp::Add(d) => format!("add(uname={},codes={:?},grp={},slot={})", d.uname, d.codes, d.grp, d.slot),
            COp::Update(id, p) => format!("update({id},{:?})", p.iter().map(|(k, v)| format!("{k}={}", { let s = format!("{v:?}"); if s.len() > 40 { s[..40].to_string() } else { s } })).collect::<Vec<_>>()),
            other => format!("{other:?}"),
        }
    }
    fn kind(&self) -> &'static str {
        match self {
            COp::Add(_) => "add",
            COp::Update(..) => "update",
            COp::Remove(_) => "remove",
            COp::Get(_) => "get",
            COp::Query(_) => "query",
            COp::SaveExt(..) => "save_extension",
            COp::RemoveExt(_) => "remove_extension",
            COp::SetExt(..) => "set_extension",
            COp::Flush => "flush",
            COp::Compact => "compact",
            COp::CompactBm25 => "compact_bm25",
            COp::Reconcile => "reconcile",
            COp::Close => "close",
        }
    }
}

#[derive(Clone, Debug, PartialEq)]
enum CRes {
    Added(u64),
    Updated(Box<FDoc>),
    Removed(Option<Box<FDoc>>),
    Got(Option<Box<FDoc>>),
    Ids(Vec<u64>),
    Ext(Option<u64>),
    Done,
    NotFound,
    Conflict,
    /// refused by the handle's lifecycle / read-only state (legal only once a close was called)
    Refused,
    Err(String),
}

fn classify(e: &anda_db::error::DBError) -> CRes {
    use anda_db::error::CollectionState as S;
    if matches!(e.collection_state(), Some(S::Closing | S::Closed)) {
        return CRes::Refused;
    }
    match e {
        anda_db::error::DBError::NotFound { .. } => CRes::NotFound,
        anda_db::error::DBError::AlreadyExists { .. } => CRes::Conflict,
        other => {
            let s = format!("{other:?}");
            if s.contains("AlreadyExists") { CRes::Conflict } else { CRes::Err(s) }
        }
    }
}

/// Error of a call that has no modelled rejection: refused by a closing / closed handle, or unexpected.
fn other_err(e: &anda_db::error::DBError) -> CRes {
    match classify(e) {
        CRes::Refused => CRes::Refused,
        _ => CRes::Err(format!("{e:?}")),
    }
}

struct Config {
    cfg: Cfg,
    /// also park tasks AFTER a backend read returned (response in hand, not yet acted upon)
    post_reads: bool,
    n_initial: u64,
    ops: Vec<COp>,
    label: String,
}

fn gen_config(rng: &mut Rng, stripe: bool, ext_heavy: bool) -> Config {
    let cfg = Cfg { cache: rng.chance(2, 3), compress: *rng.pick(&[0, 3]), bucket: *rng.pick(&[64usize, 1 << 20]) };
    let n_initial = if stripe { 130 } else { 4 };
    let n = 2 + rng.usize(3);
    let hot: Vec<u64> = if stripe { vec![1, 129, 2] } else { vec![1, 1, 2, 3] };
    let mut ops = vec![];
    let mut tag = 0;
    for _ in 0..n {
        tag += 1;
        let id = *rng.pick(&hot);
        let w: [u32; 10] = if ext_heavy { [3, 6, 3, 0, 0, 26, 16, 18, 2, 26] } else { [18, 30, 16, 12, 4, 5, 3, 8, 6, 3] };
        let op = match rng.weighted(&w) {
            0 => {
                let mut d = gen_doc(rng, 6);
                d.uname = format!("new{tag}-{}", rng.below(2)); // two adds may collide on purpose
                d.codes = vec![];
                d.grp = "gn".into();
                d.slot = 500 + tag;
                COp::Add(d)
            }
            1 => {
                let mut p = gen_patch(rng, 6, None);
                p.remove("codes");
                p.remove("grp");
                p.remove("slot");
                if let Some(Fv::Text(u)) = p.get("uname").cloned() {
                    p.insert("uname".into(), Fv::Text(format!("upd-{u}")));
                }
                p.insert("body".into(), Fv::Text(format!("kernel lemon tag{tag}")));
                COp::Update(id, p)
            }
            2 => COp::Remove(id),
            3 => COp::Get(id),
            4 => COp::Query("kernel".into()),
            5 => COp::SaveExt(format!("k{}", rng.below(2)), 100 + tag),
            6 => COp::RemoveExt(format!("k{}", rng.below(2))),
            7 => COp::Flush,
            8 => COp::Compact,
            _ => COp::SetExt(format!("k{}", rng.below(2)), 200 + tag),
        };
        ops.push(op);
    }
    let mut kinds: Vec<&str> = ops.iter().map(|o| o.kind()).collect();
    kinds.sort_unstable();
    // the read-then-act window (cache fill after a fetch, read-modify-write) needs a suspension
    // point between a read's response and its consumer; always on when a get is in the mix
    let post_reads = ops.iter().any(|o| matches!(o, COp::Get(_))) || rng.chance(1, 3);
    Config { cfg, post_reads, n_initial, label: format!("{}{}{}{}", if stripe { "stripe:" } else { "" }, if ext_heavy { "ext:" } else { "" }, if post_reads { "postread:" } else { "" }, kinds.join("+")), ops }
}

/// Directed schedule (section `triples`): task 0 is polled `park` times - it is then parked at its
/// `park`-th suspension point (before a backend call, or after a backend read with the response in
/// hand) holding whatever it holds there -, the other tasks are started with one poll each in
/// `start` order (each runs until it queues on a lock or reaches its own first backend call), then
/// everything is released under `release`.
struct Plan {
    park: u32,
    start: Vec<usize>,
    release: Release,
}

enum Release {
    /// always poll the first enabled task of this priority list
    Prio(Vec<usize>),
    Rand(u64),
}

enum Sched<'a> {
    Free(&'a mut dyn Chooser),
    Directed(&'a Plan),
}

#[derive(Default, Debug)]
struct Shape {
    /// task 0 was still unfinished after `park` polls (the park point exists)
    reached: bool,
    /// per started task: its first poll ended at a lock wait (no backend call of its own pending)
    queued: Vec<bool>,
}

struct Outcome {
    shape: Shape,
    results: Vec<CRes>,
    call: Vec<usize>,
    ret: Vec<usize>,
    trace: Vec<usize>,
    /// (position in trace, reopened documents) for every flush that returned
    snapshots: Vec<(usize, Result<BTreeMap<u64, FDoc>, String>)>,
    initial: Model,
}

async fn run_schedule(c: &Config, sched: Sched<'_>, st: &mut Stats) -> Option<(Outcome, Arc<anda_db::collection::Collection>, RecStore)> {
    let store = RecStore::new();
    store.set_record_reads(false);
    let mut d = match Driver::start(Arc::new(store.clone()), c.cfg, IndexSet::ALL).await {
        Ok(d) => d,
        Err(e) => {
            st.violation("C05/setup_failed", json!(format!("{e:?}")));
            return None;
        }
    };
    let mut seed = vcore::Rng::new(7 + c.n_initial);
    for i in 0..c.n_initial {
        let mut doc = gen_doc(&mut seed, 1000);
        doc.uname = format!("init{i}");
        doc.codes = vec![format!("ci{i}")];
        doc.grp = "gi".into();
        doc.slot = i;
        doc.body = "kernel apple".into();
        if !matches!(d.step(&Op::Add(doc), st).await, Step::Applied) {
            st.inconclusive("harness: initial add rejected");
            return None;
        }
    }
    let _ = d.step(&Op::SaveExt("k0".into(), 1), st).await;
    let _ = d.step(&Op::Flush, st).await;
    let initial = d.model.clone();
    store.set_gate(true);
    store.set_gate_after_reads(c.post_reads);
    let coll = d.coll.clone();
    let mut ex: ManualExec<'_, CRes> = ManualExec::new();
    for op in &c.ops {
        let coll = coll.clone();
        let op = op.clone();
        ex.spawn(async move {
            match op {
                COp::Add(doc) => coll.add_from(&doc).await.map(CRes::Added).unwrap_or_else(|e| classify(&e)),
                COp::Update(id, p) => match coll.update(id, p).await {
                    Ok(doc) => match doc.try_into::<FDoc>() {
                        Ok(f) => CRes::Updated(Box::new(f)),
                        Err(e) => CRes::Err(format!("returned document does not decode: {e:?}")),
                    },
                    Err(e) => classify(&e),
                },
                COp::Remove(id) => match coll.remove(id).await {
                    Ok(Some(doc)) => match doc.try_into::<FDoc>() {
                        Ok(f) => CRes::Removed(Some(Box::new(f))),
                        Err(e) => CRes::Err(format!("returned document does not decode: {e:?}")),
                    },
                    Ok(None) => CRes::Removed(None),
                    Err(e) => classify(&e),
                },
                COp::Get(id) => match coll.get_as::<FDoc>(id).await {
                    Ok(f) => CRes::Got(Some(Box::new(f))),
                    Err(anda_db::error::DBError::NotFound { .. }) => CRes::Got(None),
                    Err(e) => other_err(&e),
                },
                COp::Query(word) => {
                    let q = anda_db::query::Query { search: Some(anda_db::query::Search { text: Some(word), ..Default::default() }),
                        filter: Some(Filter::Field(("age".into(), RangeQuery::Ge(Fv::U64(0))))), limit: Some(50) };
                    coll.search_ids(q).await.map(CRes::Ids).unwrap_or_else(|e| other_err(&e))
                }
                COp::SaveExt(k, v) => coll.save_extension(k, Fv::U64(v)).await.map(|_| CRes::Done).unwrap_or_else(|e| other_err(&e)),
                COp::RemoveExt(k) => match coll.remove_extension(&k).await {
                    Ok(v) => CRes::Ext(v.and_then(|v| match v { Fv::U64(x) => Some(x), _ => None })),
                    Err(e) => other_err(&e),
                },
                COp::SetExt(k, v) => {
                    coll.set_extension(k, Fv::U64(v));
                    CRes::Done
                }
                COp::Flush => coll.flush(anda_db::unix_ms()).await.map(|_| CRes::Done).unwrap_or_else(|e| other_err(&e)),
                COp::Compact => coll.compact_btree_index(&["uname"]).await.map(|_| CRes::Done).unwrap_or_else(|e| other_err(&e)),
                COp::CompactBm25 => coll.compact_bm25_index(&["body"]).await.map(|_| CRes::Done).unwrap_or_else(|e| other_err(&e)),
                COp::Reconcile => coll.reconcile_storage().await.map(|_| CRes::Done).unwrap_or_else(|e| other_err(&e)),
                COp::Close => coll.close().await.map(|_| CRes::Done).unwrap_or_else(|e| other_err(&e)),
            }
        });
    }
    let n = c.ops.len();
    let mut ret = vec![usize::MAX; n];
    let mut snaps: Vec<(usize, Arc<object_store::memory::InMemory>)> = vec![];
    let ops = &c.ops;
    let store2 = store.clone();
    let post_reads = c.post_reads;
    let mut on_step = |ex: &mut ManualExec<'_, CRes>, i: usize, done: bool| {
        if done {
            ret[i] = ex.trace.len() - 1;
            if matches!(ops[i], COp::Flush) && matches!(ex.result(i), Some(CRes::Done)) {
                // "pull the plug" at the instant the flush returned
                store2.set_gate(false);
                store2.set_gate_after_reads(false);
                let snap = drive(store2.snapshot());
                store2.set_gate(true);
                store2.set_gate_after_reads(post_reads);
                snaps.push((ex.trace.len() - 1, snap));
            }
        }
    };
    let mut shape = Shape::default();
    let r = match sched {
        Sched::Free(chooser) => ex.run(chooser, 6000, &mut on_step),
        Sched::Directed(plan) => 'run: {
            // 1. park the first call
            for _ in 0..plan.park {
                if ex.is_done(0) || !ex.enabled().contains(&0) {
                    break;
                }
                let done = ex.poll(0);
                on_step(&mut ex, 0, done);
            }
            shape.reached = !ex.is_done(0) && ex.polls(0) == plan.park;
            // 2. the other calls arrive, in this order
            for &t in &plan.start {
                let done = ex.poll(t);
                on_step(&mut ex, t, done);
                shape.queued.push(!done && !ex.enabled().contains(&t));
            }
            // 3. release. A task that is not enabled waits for a lock (a task parked at a backend call
            //    wakes itself): with nothing enabled and calls unfinished, every one of them waits for
            //    a lock that only another waiting call can release - no backend call is outstanding.
            let mut rc = match &plan.release {
                Release::Rand(s) => Some(RandChooser(Rng::new(*s))),
                Release::Prio(_) => None,
            };
            let mut steps = 0;
            loop {
                if ex.all_done() {
                    break 'run Ok(());
                }
                let en = ex.enabled();
                if en.is_empty() {
                    break 'run Err(Stuck::Deadlock(ex.unfinished()));
                }
                steps += 1;
                if steps > 6000 {
                    break 'run Err(Stuck::StepCap);
                }
                let i = match (&plan.release, rc.as_mut()) {
                    (Release::Prio(p), _) => p.iter().copied().find(|t| en.contains(t)).unwrap_or(en[0]),
                    (_, Some(rc)) => en[if en.len() == 1 { 0 } else { rc.choose(en.len()) }],
                    _ => en[0],
                };
                let done = ex.poll(i);
                on_step(&mut ex, i, done);
            }
        }
    };
    store.set_gate(false);
    store.set_gate_after_reads(false);
    let trace = ex.trace.clone();
    match r {
        Ok(()) => {}
        Err(Stuck::Deadlock(t)) => {
            // decided on logical grounds, not by a clock: no task is enabled, so no backend call is
            // outstanding and the driver holds nothing closed; the blocked calls wait for each other
            st.violation("C05/deadlock", json!({"configuration": c.label, "blocked_tasks": t, "blocked": t.iter().map(|i| c.ops[*i].brief()).collect::<Vec<_>>(),
                "returned": (0..c.ops.len()).filter(|i| !t.contains(i)).map(|i| c.ops[i].brief()).collect::<Vec<_>>(),
                "schedule": trace, "ops": c.ops.iter().map(|o| o.brief()).collect::<Vec<_>>()}));
            return None;
        }
        Err(Stuck::StepCap) => {
            st.inconclusive("C05: step cap reached");
            return None;
        }
    }
    let mut call = vec![usize::MAX; n];
    for (pos, t) in trace.iter().enumerate() {
        if call[*t] == usize::MAX {
            call[*t] = pos;
        }
    }
    let results: Vec<CRes> = (0..n).map(|i| ex.take_result(i).unwrap()).collect();
    drop(ex);
    // reopen every snapshot (cold, no gate) and read its documents
    let mut snapshots = vec![];
    for (pos, snap) in snaps {
        let r = async {
            let db = connect(snap.clone(), &c.cfg).await.map_err(|e| format!("connect: {e:?}"))?;
            let col = open_coll(&db, IndexSet::ALL).await.map_err(|e| format!("open: {e:?}"))?;
            let mut docs = BTreeMap::new();
            for id in col.ids() {
                let d = col.get_as::<FDoc>(id).await.map_err(|e| format!("get({id}): {e:?}"))?;
                docs.insert(id, d);
            }
            Ok::<_, String>((docs, col))
        }
        .await;
        match r {
            Ok((docs, col)) => {
                // the persisted state passes the index<->document audit as well
                let m = Model { docs: docs.clone(), ext: Default::default() };
                let ctx = || json!({"schedule": trace, "ops": c.ops.iter().map(|o| o.brief()).collect::<Vec<_>>(), "snapshot_at": pos});
                audit(&col, &m, IndexSet::ALL, st, &AuditCtx { sig: "C05/flush_snapshot_audit", ctx: &ctx }).await;
                st.count("flush_snapshots_reopened");
                snapshots.push((pos, Ok(docs)));
            }
            Err(e) => snapshots.push((pos, Err(e))),
        }
    }
    Some((Outcome { shape, results, call, ret, trace, snapshots, initial }, coll, store))
}

/// Applies mutation `i` to `m` in the sequential model; None when the recorded result cannot be
/// produced in this state.
fn apply_seq(m: &mut Model, handed: &mut BTreeSet<u64>, op: &COp, res: &CRes) -> Option<()> {
    match (op, res) {
        (COp::Add(d), CRes::Added(id)) => {
            if m.conflicts(0, d, IndexSet::ALL) || m.docs.contains_key(id) || !handed.insert(*id) {
                return None;
            }
            let mut n = d.clone();
            n._id = *id;
            m.docs.insert(*id, n);
            Some(())
        }
        (COp::Add(d), CRes::Conflict) => m.conflicts(0, d, IndexSet::ALL).then_some(()),
        (COp::Update(id, p), CRes::Updated(got)) => {
            let cur = m.docs.get(id)?;
            let mut n = apply_patch(cur, p)?;
            n._id = *id;
            if m.conflicts(*id, &n, IndexSet::ALL) || **got != n {
                return None;
            }
            m.docs.insert(*id, n);
            Some(())
        }
        (COp::Update(id, _), CRes::NotFound) => (!m.docs.contains_key(id)).then_some(()),
        (COp::Update(id, p), CRes::Conflict) => {
            let cur = m.docs.get(id)?;
            let n = apply_patch(cur, p)?;
            m.conflicts(*id, &n, IndexSet::ALL).then_some(())
        }
        (COp::Remove(id), CRes::Removed(Some(got))) => {
            let cur = m.docs.get(id)?;
            if **got != *cur {
                return None;
            }
            m.docs.remove(id);
            Some(())
        }
        (COp::Remove(id), CRes::Removed(None)) => (!m.docs.contains_key(id)).then_some(()),
        (COp::SaveExt(k, v), CRes::Done) | (COp::SetExt(k, v), CRes::Done) => {
            m.ext.insert(k.clone(), *v);
            Some(())
        }
        (COp::RemoveExt(k), CRes::Ext(old)) => {
            if m.ext.get(k).copied() != *old {
                return None;
            }
            m.ext.remove(k);
            Some(())
        }
        // refused by a closing / closed handle: no effect (whether the refusal itself was legal is
        // decided by `judge_close`)
        (_, CRes::Refused) => Some(()),
        _ => None,
    }
}

/// All total orders of the mutations that respect real time (and `extra` precedence pairs) and
/// explain every return value. Returns the orders with the model after each step.
fn linearizations(c: &Config, o: &Outcome, extra: &[(usize, usize)], limit: usize) -> Vec<(Vec<usize>, Vec<Model>)> {
    let muts: Vec<usize> = (0..c.ops.len()).filter(|i| c.ops[*i].is_mutation()).collect();
    let mut out = vec![];
    fn rec(c: &Config, o: &Outcome, extra: &[(usize, usize)], muts: &[usize], done: &mut Vec<usize>, states: &mut Vec<Model>, handed: &BTreeSet<u64>,
           out: &mut Vec<(Vec<usize>, Vec<Model>)>, limit: usize) {
        if out.len() >= limit {
            return;
        }
        if done.len() == muts.len() {
            out.push((done.clone(), states.clone()));
            return;
        }
        for &i in muts {
            if done.contains(&i) {
                continue;
            }
            // real-time order: nothing still pending may have returned before i was called
            if muts.iter().any(|&j| j != i && !done.contains(&j) && o.ret[j] < o.call[i]) {
                continue;
            }
            if extra.iter().any(|&(a, b)| b == i && !done.contains(&a)) {
                continue;
            }
            let mut m = states.last().unwrap().clone();
            let mut h = handed.clone();
            if apply_seq(&mut m, &mut h, &c.ops[i], &o.results[i]).is_some() {
                done.push(i);
                states.push(m);
                rec(c, o, extra, muts, done, states, &h, out, limit);
                states.pop();
                done.pop();
            }
        }
    }
    let handed: BTreeSet<u64> = o.initial.docs.keys().copied().collect();
    rec(c, o, extra, &muts, &mut vec![], &mut vec![o.initial.clone()], &handed, &mut out, limit);
    out
}

/// Oracle 2: every overlapping read returned a version of the document that lies, along some valid
/// order, between the last write that returned before the read was called and the last write that
/// was called before the read returned.
fn check_reads(c: &Config, o: &Outcome, lins: &[(Vec<usize>, Vec<Model>)], st: &mut Stats, ctx: &dyn Fn() -> Value) -> bool {
    for (i, op) in c.ops.iter().enumerate() {
        if let (COp::Get(id), CRes::Got(got)) = (op, &o.results[i]) {
            st.count("oracle_overlapping_reads");
            let mut ok = false;
            for (order, states) in lins {
                // versions of the document along this order
                let mut versions: Vec<(Option<&FDoc>, usize, usize)> = vec![(states[0].docs.get(id), 0, 0)]; // (value, call, ret) of producer
                for (k, &mi) in order.iter().enumerate() {
                    let v = states[k + 1].docs.get(id);
                    if v != versions.last().unwrap().0 {
                        versions.push((v, o.call[mi], o.ret[mi]));
                    }
                }
                // not older than the last write that returned before the read was called, not
                // newer than the last write that was called before the read returned
                let lo = versions.iter().rposition(|(_, _, r)| *r < o.call[i] || *r == 0).unwrap_or(0);
                let hi = versions.iter().rposition(|(_, cl, _)| *cl < o.ret[i] || *cl == 0).unwrap_or(0);
                if versions[lo..=hi.max(lo)].iter().any(|(v, _, _)| v.cloned() == got.as_deref().cloned()) {
                    ok = true;
                    break;
                }
            }
            if !ok {
                st.violation("C05/read_returned_unexplained_document", json!({"read": i, "got": format!("{got:?}"), "context": ctx()}));
                return false;
            }
        }
    }
    true
}

async fn judge(c: &Config, o: &Outcome, coll: &anda_db::collection::Collection, store: &RecStore, mode: &str, st: &mut Stats) -> bool {
    let ctx = || {
        json!({"mode": mode, "cfg": format!("{:?}", c.cfg), "schedule": o.trace,
               "history": (0..c.ops.len()).map(|i| format!("t{i} [{}..{}] {} -> {}", o.call[i], o.ret[i], c.ops[i].brief(), { let s = format!("{:?}", o.results[i]); if s.len() > 300 { format!("{}..", &s[..300]) } else { s } })).collect::<Vec<_>>()})
    };
    for (i, r) in o.results.iter().enumerate() {
        if let CRes::Err(e) = r {
            st.violation(format!("C05/unexpected_error/{}", c.ops[i].kind()), json!({"error": e, "context": ctx()}));
            return false;
        }
        if *r == CRes::Refused {
            st.violation(format!("C05/unexpected_error/{}", c.ops[i].kind()), json!({"error": "refused as closing / closed although no close was called", "context": ctx()}));
            return false;
        }
    }
    st.count("oracle_linearizability_searches");
    let lins = linearizations(c, o, &[], 64);
    if lins.is_empty() {
        st.violation("C05/not_linearizable", json!({"context": ctx()}));
        return false;
    }
    if lins.len() > 1 {
        st.count("histories_with_several_valid_orders");
    }
    // 3. convergence: the final state equals the result of a valid order
    let finals: Vec<&Model> = lins.iter().map(|(_, s)| s.last().unwrap()).collect();
    let first_final = finals[0];
    let all_same = finals.iter().all(|m| m.docs == first_final.docs);
    if !all_same {
        st.count("valid_orders_disagree_on_final_state");
    }
    let live: BTreeMap<u64, FDoc> = {
        let mut m = BTreeMap::new();
        for id in coll.ids() {
            if let Ok(d) = coll.get_as::<FDoc>(id).await {
                m.insert(id, d);
            }
        }
        m
    };
    let live_ext: BTreeMap<String, u64> = ["k0", "k1"].iter().filter_map(|k| coll.get_extension_as::<u64>(k).map(|v| (k.to_string(), v))).collect();
    let Some(fin) = finals.iter().find(|m| m.docs == live && m.ext.iter().filter(|(k, _)| k.as_str() == "k0" || k.as_str() == "k1").map(|(k, v)| (k.clone(), *v)).collect::<BTreeMap<String, u64>>() == live_ext).or_else(|| {
        // documents match some order but the extension map does not: report that precisely
        if finals.iter().any(|m| m.docs == live) {
            st.violation("C05/final_extensions_match_no_valid_order", json!({"live_extensions": format!("{live_ext:?}"),
                "expected_one_of": finals.iter().map(|m| format!("{:?}", m.ext)).collect::<Vec<_>>(), "context": ctx()}));
        }
        None
    }) else {
        if finals.iter().any(|m| m.docs == live) {
            return false;
        }
        st.violation("C05/final_state_matches_no_valid_order", json!({"live_documents": format!("{live:?}"), "expected_one_of": finals.iter().map(|m| format!("{:?}", m.docs)).collect::<Vec<_>>(), "context": ctx()}));
        return false;
    };
    if !audit(coll, fin, IndexSet::ALL, st, &AuditCtx { sig: "C05/final_audit", ctx: &ctx }).await {
        return false;
    }
    // 2. reads that overlap writers
    if !check_reads(c, o, &lins, st, &ctx) {
        return false;
    }
    // 4. what a concurrent flush persisted
    for (pos, snap) in &o.snapshots {
        st.count("oracle_flush_snapshots");
        match snap {
            Err(e) => {
                st.violation("C05/flush_snapshot_does_not_reopen", json!({"error": e, "snapshot_at": pos, "context": ctx()}));
                return false;
            }
            Ok(docs) => {
                let muts: Vec<usize> = (0..c.ops.len()).filter(|i| c.ops[*i].is_mutation()).collect();
                let inc: Vec<usize> = muts.iter().copied().filter(|i| o.ret[*i] < *pos).collect();
                let exc: Vec<usize> = muts.iter().copied().filter(|i| o.ret[*i] > *pos).collect();
                let extra: Vec<(usize, usize)> = inc.iter().flat_map(|a| exc.iter().map(move |b| (*a, *b))).collect();
                let lins2 = linearizations(c, o, &extra, 64);
                let okp = lins2.iter().any(|(_, states)| states[inc.len()].docs == *docs);
                if !okp {
                    st.violation("C05/flush_persisted_state_is_no_prefix", json!({"snapshot_at": pos, "persisted": format!("{docs:?}"),
                        "mutations_returned_before": inc, "candidates": lins2.iter().map(|(_, s)| format!("{:?}", s[inc.len()].docs.keys().collect::<Vec<_>>())).collect::<Vec<_>>(), "context": ctx()}));
                    return false;
                }
            }
        }
    }
    // 5. nothing lost: what the live handle shows after every call returned is what a flush +
    //    clean close makes durable (documents and extensions), for sets with extension writers
    if c.ops.iter().any(|o| matches!(o, COp::SaveExt(..) | COp::RemoveExt(_) | COp::SetExt(..))) {
        st.count("oracle_durable_after_flush_and_close");
        if let Err(e) = coll.flush(anda_db::unix_ms()).await {
            st.violation("C05/unexpected_error/final_flush", json!({"error": format!("{e:?}"), "context": ctx()}));
            return false;
        }
        if let Err(e) = coll.close().await {
            st.violation("C05/unexpected_error/final_close", json!({"error": format!("{e:?}"), "context": ctx()}));
            return false;
        }
        let snap = store.snapshot().await;
        let r = async {
            let db = connect(snap.clone(), &c.cfg).await.map_err(|e| format!("connect: {e:?}"))?;
            let col = open_coll(&db, IndexSet::ALL).await.map_err(|e| format!("open: {e:?}"))?;
            let mut docs = BTreeMap::new();
            for id in col.ids() {
                docs.insert(id, col.get_as::<FDoc>(id).await.map_err(|e| format!("get({id}): {e:?}"))?);
            }
            let ext: BTreeMap<String, u64> = ["k0", "k1"].iter().filter_map(|k| col.get_extension_as::<u64>(k).map(|v| (k.to_string(), v))).collect();
            Ok::<_, String>((docs, ext))
        }
        .await;
        match r {
            Err(e) => {
                st.violation("C05/reopen_after_clean_close_failed", json!({"error": e, "context": ctx()}));
                return false;
            }
            Ok((docs, ext)) => {
                if docs != live {
                    st.violation("C05/documents_lost_or_changed_by_clean_close", json!({"live": format!("{live:?}"), "reopened": format!("{docs:?}"), "context": ctx()}));
                    return false;
                }
                if ext != live_ext {
                    st.violation("C05/extension_lost_or_changed_by_clean_close", json!({"live": format!("{live_ext:?}"), "reopened": format!("{ext:?}"), "context": ctx()}));
                    return false;
                }
            }
        }
    }
    true
}

/// Sets whose third call is `close` (section `triples`). A call that returned after the close was
/// called may have been refused (no effect); the accepted ones must linearize, and what the clean
/// close made durable must be the result of such an order - read back from a cold reopen, since the
/// closed handle is retired.
async fn judge_close(c: &Config, o: &Outcome, store: &RecStore, mode: &str, st: &mut Stats) -> bool {
    let ctx = || {
        json!({"mode": mode, "cfg": format!("{:?}", c.cfg), "schedule": o.trace,
               "history": (0..c.ops.len()).map(|i| format!("t{i} [{}..{}] {} -> {}", o.call[i], o.ret[i], c.ops[i].brief(), { let s = format!("{:?}", o.results[i]); if s.len() > 300 { format!("{}..", &s[..300]) } else { s } })).collect::<Vec<_>>()})
    };
    let Some(ci) = c.ops.iter().position(|op| matches!(op, COp::Close)) else { return true };
    for (i, r) in o.results.iter().enumerate() {
        match r {
            CRes::Err(e) => {
                st.violation(format!("C05/unexpected_error/{}", c.ops[i].kind()), json!({"error": e, "context": ctx()}));
                return false;
            }
            CRes::Refused if i == ci || o.ret[i] < o.call[ci] => {
                st.violation(format!("C05/unexpected_error/{}", c.ops[i].kind()), json!({"error": "refused as closing / closed before any close was called (or the close itself was refused)", "context": ctx()}));
                return false;
            }
            CRes::Refused => st.count("calls_refused_by_a_concurrent_close"),
            _ => {}
        }
    }
    st.count("oracle_linearizability_searches");
    let lins = linearizations(c, o, &[], 64);
    if lins.is_empty() {
        st.violation("C05/not_linearizable", json!({"context": ctx()}));
        return false;
    }
    if !check_reads(c, o, &lins, st, &ctx) {
        return false;
    }
    st.count("oracle_durable_after_concurrent_close");
    let snap = store.snapshot().await;
    let r = async {
        let db = connect(snap.clone(), &c.cfg).await.map_err(|e| format!("connect: {e:?}"))?;
        let col = open_coll(&db, IndexSet::ALL).await.map_err(|e| format!("open: {e:?}"))?;
        let mut docs = BTreeMap::new();
        for id in col.ids() {
            docs.insert(id, col.get_as::<FDoc>(id).await.map_err(|e| format!("get({id}): {e:?}"))?);
        }
        let ext: BTreeMap<String, u64> = ["k0", "k1"].iter().filter_map(|k| col.get_extension_as::<u64>(k).map(|v| (k.to_string(), v))).collect();
        Ok::<_, String>((docs, ext, col))
    }
    .await;
    match r {
        Err(e) => {
            st.violation("C05/reopen_after_clean_close_failed", json!({"error": e, "context": ctx()}));
            false
        }
        Ok((docs, ext, col)) => {
            let want_ext = |m: &Model| m.ext.iter().filter(|(k, _)| k.as_str() == "k0" || k.as_str() == "k1").map(|(k, v)| (k.clone(), *v)).collect::<BTreeMap<String, u64>>();
            let Some((_, states)) = lins.iter().find(|(_, s)| s.last().unwrap().docs == docs && want_ext(s.last().unwrap()) == ext) else {
                st.violation("C05/state_after_concurrent_close_matches_no_valid_order", json!({"reopened_documents": format!("{docs:?}"), "reopened_extensions": format!("{ext:?}"),
                    "expected_one_of": lins.iter().map(|(_, s)| format!("{:?} {:?}", s.last().unwrap().docs, s.last().unwrap().ext)).collect::<Vec<_>>(), "context": ctx()}));
                return false;
            };
            audit(&col, states.last().unwrap(), IndexSet::ALL, st, &AuditCtx { sig: "C05/audit_after_concurrent_close", ctx: &ctx }).await
        }
    }
}

fn case(case: u64, rng: &mut Rng, st: &mut Stats, budget: u64) {
    let stripe = case % 8 == 7;
    // one configuration in four is dominated by extension writers (save / remove / the synchronous
    // setter) racing each other and a flush: they share one metadata object and its version
    let ext_heavy = case % 4 == 2;
    let c = gen_config(rng, stripe, ext_heavy);
    let budget = if stripe { (budget / 6).max(10) } else { budget };
    block_on(async {
        let mut dfs = DfsChooser::new();
        let mut runs = 0u64;
        let mut exhausted = false;
        loop {
            dfs.begin_run();
            let Some((o, coll, store)) = run_schedule(&c, Sched::Free(&mut dfs), st).await else { return };
            runs += 1;
            st.eval();
            st.count("schedules_run");
            st.set("distinct_schedules", vcore::hash_debug(&o.trace) ^ case.wrapping_mul(0x9e3779b97f4a7c15));
            st.max("max_schedule_len", o.trace.len() as u64);
            // polls that ended at a lock wait (the task was polled again later without having
            // passed a backend call) show that gate / doc-lock windows were actually hit
            if !judge(&c, &o, &coll, &store, "S-enum", st).await {
                return;
            }
            if !dfs.next_run() {
                exhausted = true;
                break;
            }
            if runs >= budget {
                break;
            }
        }
        st.count(if exhausted { "schedule_spaces_exhausted" } else { "schedule_spaces_truncated" });
        if !exhausted {
            let mut rc = RandChooser(rng.fork());
            for _ in 0..budget / 2 {
                let Some((o, coll, store)) = run_schedule(&c, Sched::Free(&mut rc), st).await else { return };
                st.eval();
                st.count("schedules_run");
                st.set("distinct_schedules", vcore::hash_debug(&o.trace) ^ case.wrapping_mul(0x9e3779b97f4a7c15));
                if !judge(&c, &o, &coll, &store, "S-rand", st).await {
                    return;
                }
            }
        }
        st.count(&format!("config:{}", if stripe { "stripe" } else { "plain" }));
        if ext_heavy {
            st.count("config:extension_heavy");
        }
        if c.post_reads {
            st.count("config:post_read_gate");
        }
        st.set("configurations", vcore::fnv_str(&c.label));
        st.distinct(vcore::fnv_str(&format!("{:?}", c.ops.iter().map(|o| o.brief()).collect::<Vec<_>>())));
        for o in &c.ops {
            st.count(&format!("cop:{}", o.kind()));
        }
        st.sample(|| json!({"configuration": c.label, "ops": c.ops.iter().map(|o| o.brief()).collect::<Vec<_>>(), "schedules": runs, "exhaustive": exhausted}));
    });
}

// ---------------------------------------------------------------------------------------------
// Section `triples`: the shape "one call parked at a backend call while holding whatever it holds,
// a second call queued, a third call that needs the exclusive operation gate queued as well, then
// release" made systematic. The random sets above only meet it when the generator happens to draw
// the three kinds over one document; here every ordered triple (first, second, holder of the
// exclusive gate) is enumerated, the first call is parked at EACH of its suspension points (before
// every backend call, and after every backend read with the response in hand), the other two arrive
// in both orders, and the release runs under several priority orders. A wedge is decided on logical
// grounds (nothing enabled, calls unfinished); histories that complete go through the same oracles.

#[derive(Clone, Copy, Debug, PartialEq, Eq, Hash)]
enum K {
    Update,
    Remove,
    Get,
    Add,
    SaveExt,
    RemoveExt,
}

#[derive(Clone, Copy, Debug, PartialEq, Eq, Hash)]
enum X {
    Flush,
    CompactBtree,
    CompactBm25,
    Reconcile,
    Close,
}

const KS: [K; 6] = [K::Update, K::Remove, K::Get, K::Add, K::SaveExt, K::RemoveExt];
const XS: [X; 5] = [X::Flush, X::CompactBtree, X::CompactBm25, X::Reconcile, X::Close];

#[derive(Clone, Copy, Debug, Hash)]
struct Combo {
    a: K,
    b: K,
    /// document of the second call: 1 = the first call's document, 129 = another document of the
    /// same doc-lock stripe
    b_id: u64,
    x: X,
    /// the holder of the exclusive gate arrives before the second call
    x_first: bool,
}

fn combos() -> Vec<Combo> {
    let mut v = vec![];
    for a in KS {
        for b in KS {
            for x in XS {
                for x_first in [false, true] {
                    v.push(Combo { a, b, b_id: 1, x, x_first });
                }
            }
        }
    }
    for a in [K::Update, K::Remove] {
        for b in [K::Update, K::Remove] {
            for x in [X::Flush, X::Close] {
                for x_first in [false, true] {
                    v.push(Combo { a, b, b_id: 129, x, x_first });
                }
            }
        }
    }
    v
}

fn k_op(k: K, id: u64, tag: u64) -> COp {
    match k {
        K::Update => {
            let mut p = Patch::new();
            p.insert("uname".into(), Fv::Text(format!("tri-u{tag}")));
            p.insert("age".into(), Fv::U64(40 + tag));
            p.insert("body".into(), Fv::Text(format!("kernel lemon tag{tag}")));
            COp::Update(id, p)
        }
        K::Remove => COp::Remove(id),
        K::Get => COp::Get(id),
        K::Add => {
            let mut d = gen_doc(&mut Rng::new(900 + tag), 6);
            d.uname = format!("tri-new{tag}");
            d.codes = vec![format!("tri-c{tag}")];
            d.grp = "gn".into();
            d.slot = 500 + tag;
            COp::Add(d)
        }
        K::SaveExt => COp::SaveExt("k0".into(), 100 + tag),
        K::RemoveExt => COp::RemoveExt("k0".into()),
    }
}

fn x_op(x: X) -> COp {
    match x {
        X::Flush => COp::Flush,
        X::CompactBtree => COp::Compact,
        X::CompactBm25 => COp::CompactBm25,
        X::Reconcile => COp::Reconcile,
        X::Close => COp::Close,
    }
}

fn triple_case(case: u64, rng: &mut Rng, st: &mut Stats, all: &[Combo], thorough: bool) {
    let co = all[case as usize % all.len()];
    let ops = vec![k_op(co.a, 1, 1), k_op(co.b, co.b_id, 2), x_op(co.x)];
    let kinds = format!("{}({})|{}({})|{}", ops[0].kind(), 1, ops[1].kind(), co.b_id, ops[2].kind());
    // every read of the first call reaches the backend with the cache off; one combination in four
    // is additionally run with the cache on (other suspension points: cache fills)
    let mut caches = vec![false];
    if thorough || rng.chance(1, 4) {
        caches.push(true);
    }
    let start = if co.x_first { vec![2, 1] } else { vec![1, 2] };
    block_on(async {
        for cache in caches {
            let cfg = Cfg { cache, compress: *rng.pick(&[0, 3]), bucket: *rng.pick(&[64usize, 1 << 20]) };
            let mut full_shape_seen = false;
            for park in 1..=48u32 {
                let mut releases = vec![Release::Prio(vec![0, 1, 2]), Release::Prio(vec![2, 1, 0]), Release::Prio(vec![1, 2, 0]), Release::Rand(rng.next_u64())];
                if thorough {
                    releases.extend([Release::Prio(vec![1, 0, 2]), Release::Prio(vec![0, 2, 1]), Release::Prio(vec![2, 0, 1]), Release::Rand(rng.next_u64())]);
                }
                let mut reached = false;
                for (ri, release) in releases.into_iter().enumerate() {
                    let plan = Plan { park, start: start.clone(), release };
                    let c = Config { cfg, post_reads: true, n_initial: if co.b_id > 4 { 130 } else { 4 }, ops: ops.clone(),
                        label: format!("triple:{kinds} first parked after {park} polls, arrival order {:?}, release {}, cache {cache}", plan.start,
                            match &plan.release { Release::Prio(p) => format!("priority {p:?}"), Release::Rand(s) => format!("random({s})") }) };
                    let Some((o, coll, store)) = run_schedule(&c, Sched::Directed(&plan), st).await else { return };
                    if !o.shape.reached {
                        break; // the first call has fewer suspension points than `park`
                    }
                    reached = true;
                    st.eval();
                    st.count("triple_schedules");
                    st.set("distinct_schedules", vcore::hash_debug(&o.trace) ^ vcore::hash_debug(&co) ^ (cache as u64) << 7);
                    if ri == 0 {
                        st.count("triple_park_points");
                        st.count(&format!("triple_first:{}", ops[0].kind()));
                        st.count(&format!("triple_third:{}", ops[2].kind()));
                        let (second_queued, third_queued) = if co.x_first { (o.shape.queued[1], o.shape.queued[0]) } else { (o.shape.queued[0], o.shape.queued[1]) };
                        if second_queued {
                            st.count("triple_second_call_queued_on_a_lock");
                        }
                        if third_queued {
                            st.count("triple_exclusive_call_queued_on_the_gate");
                        }
                        if second_queued && third_queued {
                            st.count("triple_both_queued_behind_the_parked_call");
                            full_shape_seen = true;
                        }
                    }
                    let ok = if co.x == X::Close { judge_close(&c, &o, &store, &c.label, st).await } else { judge(&c, &o, &coll, &store, &c.label, st).await };
                    if !ok {
                        return;
                    }
                }
                if !reached {
                    st.max("max_triple_park_points", (park - 1) as u64);
                    break;
                }
            }
            st.set("triple_combinations", vcore::hash_debug(&co));
            if full_shape_seen {
                st.set("triple_combinations_with_both_queued", vcore::hash_debug(&co));
            }
        }
        st.distinct(vcore::hash_debug(&co));
        st.sample(|| json!({"section": "triples", "combination": kinds, "exclusive_call_arrives_first": co.x_first}));
    });
}

/// S-mt: many operations from several tasks on a multi-thread runtime; convergence only.
fn stress_case(case: u64, rng: &mut Rng, st: &mut Stats, tasks: usize, ops_per_task: usize) {
    let cfg = Cfg { cache: true, compress: 0, bucket: 256 };
    let rt = tokio::runtime::Builder::new_multi_thread().worker_threads(4).enable_time().build().unwrap();
    let seed = rng.next_u64();
    rt.block_on(async {
        let store = RecStore::new();
        store.set_record_reads(false);
        let Ok(db) = connect(Arc::new(store.clone()), &cfg).await else { return };
        let Ok(coll) = open_coll(&db, IndexSet::ALL).await else { return };
        let mut hs = vec![];
        for t in 0..tasks {
            let coll = coll.clone();
            hs.push(tokio::spawn(async move {
                // each task owns its documents: the final state is determined per task
                let mut rng = vcore::Rng::derive(seed, t as u64);
                let mut mine: BTreeMap<u64, FDoc> = BTreeMap::new();
                let mut errs = vec![];
                for i in 0..ops_per_task {
                    match rng.below(10) {
                        0..=4 => {
                            let mut d = gen_doc(&mut rng, 1_000_000);
                            d.uname = format!("t{t}-{i}");
                            d.codes = vec![];
                            d.grp = format!("g{t}");
                            d.slot = i as u64;
                            match coll.add_from(&d).await {
                                Ok(id) => {
                                    d._id = id;
                                    if mine.insert(id, d).is_some() { errs.push(format!("id {id} handed out twice")); }
                                }
                                Err(e) => errs.push(format!("add: {e:?}")),
                            }
                        }
                        5..=7 if !mine.is_empty() => {
                            let id = *mine.keys().nth(rng.usize(mine.len())).unwrap();
                            let mut p = Patch::new();
                            p.insert("age".into(), Fv::U64(rng.below(100)));
                            p.insert("body".into(), Fv::Text(format!("lemon island r{}", rng.below(50))));
                            match coll.update(id, p.clone()).await {
                                Ok(_) => {
                                    let n = apply_patch(&mine[&id], &p).unwrap();
                                    mine.insert(id, n);
                                }
                                Err(e) => errs.push(format!("update: {e:?}")),
                            }
                        }
                        8 if !mine.is_empty() => {
                            let id = *mine.keys().nth(rng.usize(mine.len())).unwrap();
                            match coll.remove(id).await {
                                Ok(Some(_)) => { mine.remove(&id); }
                                other => errs.push(format!("remove({id}): {:?}", other.map(|o| o.is_some()))),
                            }
                        }
                        _ => {
                            if t == 0 && i % 16 == 9 {
                                if let Err(e) = coll.flush(anda_db::unix_ms()).await { errs.push(format!("flush: {e:?}")); }
                            } else if let Some(id) = mine.keys().next().copied() {
                                match coll.get_as::<FDoc>(id).await {
                                    Ok(d) if d == mine[&id] => {}
                                    other => errs.push(format!("get({id}) = {other:?}")),
                                }
                            }
                        }
                    }
                    if rng.chance(1, 4) { tokio::task::yield_now().await; }
                }
                (mine, errs)
            }));
        }
        let mut model = Model::default();
        for h in hs {
            match h.await {
                Ok((mine, errs)) => {
                    if !errs.is_empty() {
                        st.violation("C05/stress/operation_failed_or_wrong", json!({"errors": errs.iter().take(5).collect::<Vec<_>>(), "case": case}));
                        return;
                    }
                    for (id, d) in mine {
                        if model.docs.insert(id, d).is_some() {
                            st.violation("C05/stress/id_handed_out_twice", json!({"id": id, "case": case}));
                            return;
                        }
                    }
                }
                Err(e) => {
                    st.inconclusive(format!("stress task join error: {e}"));
                    return;
                }
            }
        }
        st.eval();
        st.count("stress_runs");
        st.add("stress_ops", (tasks * ops_per_task) as u64);
        let ctx = || json!({"mode": "S-mt", "case": case, "tasks": tasks, "ops_per_task": ops_per_task});
        audit(&coll, &model, IndexSet::ALL, st, &AuditCtx { sig: "C05/stress/final_audit", ctx: &ctx }).await;
        let _ = db.close().await;
    });
}

// ---------------------------------------------------------------------------------------------
// Section `ext_threads`: the functional extension setters (`set_extension_with`,
// `set_extension_from_with`, on the collection and on the database) are synchronous read-modify-write
// calls: no await, no backend call, so the schedules above cannot put anything between their read
// and their write - only OS threads can. 2-4 threads hammer a handful of keys with updates whose
// histories are unambiguous: counters (every call adds one) and logs (every call appends its own
// unique tag). Serial execution in SOME order means: the values the closures were handed form one
// chain from the initial value to the final one (no value handed out twice = no acknowledged update
// lost, none applied twice), the previous value a call returns is the one its update was computed
// from, and a thread's own calls appear in the order it made them.

#[derive(Clone, Copy, Debug, PartialEq, Eq)]
enum Level {
    Collection,
    Database,
}

/// The four functional setters behind one face.
trait ExtTarget: Sync {
    fn with(&self, key: &str, f: &mut dyn FnMut(Option<&Fv>) -> Option<Fv>) -> Option<Fv>;
    fn from_with_u64(&self, key: &str, f: &mut dyn FnMut(Option<u64>) -> Option<u64>) -> Option<u64>;
    fn from_with_list(&self, key: &str, f: &mut dyn FnMut(Option<Vec<u64>>) -> Option<Vec<u64>>) -> Option<Vec<u64>>;
    fn read(&self, key: &str) -> Option<Fv>;
}

impl ExtTarget for anda_db::collection::Collection {
    fn with(&self, key: &str, f: &mut dyn FnMut(Option<&Fv>) -> Option<Fv>) -> Option<Fv> {
        self.set_extension_with(key.to_string(), |o| f(o))
    }
    fn from_with_u64(&self, key: &str, f: &mut dyn FnMut(Option<u64>) -> Option<u64>) -> Option<u64> {
        self.set_extension_from_with::<_, u64>(key.to_string(), |o| f(o))
    }
    fn from_with_list(&self, key: &str, f: &mut dyn FnMut(Option<Vec<u64>>) -> Option<Vec<u64>>) -> Option<Vec<u64>> {
        self.set_extension_from_with::<_, Vec<u64>>(key.to_string(), |o| f(o))
    }
    fn read(&self, key: &str) -> Option<Fv> {
        self.get_extension(key)
    }
}

impl ExtTarget for anda_db::database::AndaDB {
    fn with(&self, key: &str, f: &mut dyn FnMut(Option<&Fv>) -> Option<Fv>) -> Option<Fv> {
        self.set_extension_with(key.to_string(), |o| f(o))
    }
    fn from_with_u64(&self, key: &str, f: &mut dyn FnMut(Option<u64>) -> Option<u64>) -> Option<u64> {
        self.set_extension_from_with::<_, u64>(key.to_string(), |o| f(o))
    }
    fn from_with_list(&self, key: &str, f: &mut dyn FnMut(Option<Vec<u64>>) -> Option<Vec<u64>>) -> Option<Vec<u64>> {
        self.set_extension_from_with::<_, Vec<u64>>(key.to_string(), |o| f(o))
    }
    fn read(&self, key: &str) -> Option<Fv> {
        self.get_extension(key)
    }
}

/// key -> (is a log, API used: 0 = set_extension_with, 1 = set_extension_from_with, 2 = both in turn)
const EXT_KEYS: [(&str, bool, u8); 6] = [("ctr_with", false, 0), ("ctr_from_with", false, 1), ("ctr_both", false, 2), ("log_with", true, 0), ("log_from_with", true, 1), ("log_both", true, 2)];

fn fv_u64(v: Option<&Fv>) -> Result<u64, String> {
    match v {
        None => Ok(0),
        Some(Fv::U64(x)) => Ok(*x),
        Some(other) => Err(format!("{other:?}")),
    }
}

fn fv_list(v: Option<&Fv>) -> Result<Vec<u64>, String> {
    match v {
        None => Ok(vec![]),
        Some(Fv::Array(a)) => a.iter().map(|x| match x { Fv::U64(x) => Ok(*x), other => Err(format!("{other:?}")) }).collect(),
        Some(other) => Err(format!("{other:?}")),
    }
}

/// One functional-setter call as its caller saw it. Counters: `seen` / `returned` hold one element
/// (0 = absent); logs: the whole list.
#[derive(Debug, Clone)]
struct ExtCall {
    thread: usize,
    key: usize,
    api: u8,
    /// unique per call (the appended log entry)
    tag: u64,
    /// the closure returned None: the call must change nothing and return None
    noop: bool,
    seen: Result<Vec<u64>, String>,
    returned: Result<Vec<u64>, String>,
    /// another thread was inside a setter call while this call's closure ran
    overlapped: bool,
}

struct Rendezvous {
    in_call: std::sync::atomic::AtomicUsize,
    closures: std::sync::atomic::AtomicU64,
}

/// Runs inside the caller's closure, i.e. between the setter's read and its write: seeded pauses, and
/// in a quarter of the calls a bounded wait for another thread to arrive at a setter (with the
/// repository's locking that thread sits at the metadata lock until this closure returns; the wait
/// is bounded in iterations, never in time, and decides nothing).
fn closure_pause(rng: &mut Rng, rv: &Rendezvous) -> bool {
    use std::sync::atomic::Ordering::SeqCst;
    let mine = rv.closures.fetch_add(1, SeqCst) + 1;
    let before = rv.in_call.load(SeqCst) > 1;
    match rng.below(8) {
        0..=2 => {}
        3 => std::thread::yield_now(),
        4 => {
            for _ in 0..rng.below(400) {
                std::hint::spin_loop();
            }
        }
        5 => std::thread::sleep(std::time::Duration::from_micros(rng.below(30))),
        _ => {
            for _ in 0..150 {
                if rv.in_call.load(SeqCst) > 1 {
                    break;
                }
                std::thread::yield_now();
            }
            for _ in 0..40 {
                if rv.closures.load(SeqCst) != mine {
                    break;
                }
                std::thread::yield_now();
            }
        }
    }
    before || rv.in_call.load(SeqCst) > 1
}

fn ext_worker(target: &dyn ExtTarget, thread: usize, calls: usize, rng: &mut Rng, rv: &Rendezvous) -> Vec<ExtCall> {
    use std::sync::atomic::Ordering::SeqCst;
    let mut out = Vec::with_capacity(calls);
    for i in 0..calls {
        let key = rng.usize(EXT_KEYS.len());
        let (name, is_log, api) = EXT_KEYS[key];
        let api = if api == 2 { rng.below(2) as u8 } else { api };
        let tag = ((thread as u64 + 1) << 20) | (i as u64 + 1);
        let noop = rng.chance(1, 12);
        let mut seen: Result<Vec<u64>, String> = Err("closure not called".into());
        let mut overlapped = false;
        rv.in_call.fetch_add(1, SeqCst);
        let returned: Result<Vec<u64>, String> = match (is_log, api) {
            (false, 0) => {
                let r = target.with(name, &mut |old| {
                    let cur = fv_u64(old);
                    seen = cur.clone().map(|x| vec![x]);
                    overlapped = closure_pause(rng, rv);
                    if noop { None } else { Some(Fv::U64(cur.unwrap_or(0) + 1)) }
                });
                fv_u64(r.as_ref()).map(|x| vec![x])
            }
            (false, _) => {
                let r = target.from_with_u64(name, &mut |old| {
                    let cur = old.unwrap_or(0);
                    seen = Ok(vec![cur]);
                    overlapped = closure_pause(rng, rv);
                    if noop { None } else { Some(cur + 1) }
                });
                Ok(vec![r.unwrap_or(0)])
            }
            (true, 0) => {
                let r = target.with(name, &mut |old| {
                    let cur = fv_list(old);
                    seen = cur.clone();
                    overlapped = closure_pause(rng, rv);
                    let mut l = cur.unwrap_or_default();
                    l.push(tag);
                    if noop { None } else { Some(Fv::Array(l.into_iter().map(Fv::U64).collect())) }
                });
                fv_list(r.as_ref())
            }
            (true, _) => {
                let r = target.from_with_list(name, &mut |old| {
                    let mut l = old.unwrap_or_default();
                    seen = Ok(l.clone());
                    overlapped = closure_pause(rng, rv);
                    l.push(tag);
                    if noop { None } else { Some(l) }
                });
                Ok(r.unwrap_or_default())
            }
        };
        rv.in_call.fetch_sub(1, SeqCst);
        out.push(ExtCall { thread, key, api, tag, noop, seen, returned, overlapped });
        if rng.chance(1, 6) {
            std::thread::yield_now();
        }
    }
    out
}

/// Judges the calls on one key against "they ran one at a time in some order that respects each
/// thread's own order". Returns (signature suffix, detail) of the first contradiction.
/// `removed`: what the (single) thread that calls `remove_extension` on this key got back, in its
/// call order: every removal ends one chain and the next update starts a new one from "absent".
fn judge_ext_key(key: usize, calls: &[&ExtCall], removed: &[Vec<u64>], fin: Option<&Fv>) -> Option<(&'static str, Value)> {
    let (name, is_log, _) = EXT_KEYS[key];
    let show = |c: &ExtCall| json!({"thread": c.thread, "tag": c.tag, "api": if c.api == 0 { "set_extension_with" } else { "set_extension_from_with" }, "noop": c.noop,
        "closure_was_handed": format!("{:?}", c.seen), "returned_previous": format!("{:?}", c.returned)});
    for c in calls {
        if c.seen.is_err() || c.returned.is_err() {
            return Some(("extension_value_of_foreign_shape", json!({"key": name, "call": show(c)})));
        }
    }
    let acked: Vec<&&ExtCall> = calls.iter().filter(|c| !c.noop).collect();
    // position of every acknowledged call in the chain
    let mut pos: Vec<(usize, &ExtCall)> = vec![];
    if is_log {
        let fin = match fv_list(fin) {
            Ok(l) => l,
            Err(e) => return Some(("extension_value_of_foreign_shape", json!({"key": name, "final": e}))),
        };
        // the chains in the order they existed: the removed lists, then the live one
        let segs: Vec<&Vec<u64>> = removed.iter().chain(std::iter::once(&fin)).collect();
        for c in &acked {
            let at: Vec<(usize, usize)> = segs.iter().enumerate().flat_map(|(si, seg)| seg.iter().enumerate().filter(|(_, t)| **t == c.tag).map(move |(i, _)| (si, i))).collect();
            match at.as_slice() {
                [] => return Some(("acknowledged_extension_update_lost", json!({"key": name, "lost": show(c), "final": format!("{fin:?}"), "removed": format!("{removed:?}"), "acknowledged_updates": acked.len()}))),
                [(si, p)] => {
                    if c.seen.as_ref().unwrap() != &segs[*si][..*p] {
                        return Some(("extension_updates_not_serial", json!({"key": name, "call": show(c), "its_entry_is_at": p, "of_the_list": format!("{:?}", segs[*si])})));
                    }
                    pos.push((si * 1_000_000 + p, **c));
                }
                _ => return Some(("extension_update_applied_twice", json!({"key": name, "call": show(c), "final": format!("{fin:?}"), "removed": format!("{removed:?}")}))),
            }
        }
        if segs.iter().map(|s| s.len()).sum::<usize>() != acked.len() {
            return Some(("extension_holds_entries_nobody_wrote", json!({"key": name, "final": format!("{fin:?}"), "removed": format!("{removed:?}"), "acknowledged_updates": acked.len()})));
        }
    } else {
        let fin = match fv_u64(fin) {
            Ok(x) => x,
            Err(e) => return Some(("extension_value_of_foreign_shape", json!({"key": name, "final": e}))),
        };
        let mut by_seen: BTreeMap<u64, Vec<&ExtCall>> = BTreeMap::new();
        for c in &acked {
            by_seen.entry(c.seen.as_ref().unwrap()[0]).or_default().push(**c);
        }
        if let Some((v, cs)) = by_seen.iter().find(|(_, cs)| cs.len() > 1) {
            // two acknowledged increments computed from the same value: one of them overwrote the other
            return Some(("acknowledged_extension_update_lost", json!({"key": name, "both_computed_from": v, "calls": cs.iter().map(|c| show(c)).collect::<Vec<_>>(),
                "final": fin, "acknowledged_updates": acked.len()})));
        }
        if fin != acked.len() as u64 {
            return Some((if fin < acked.len() as u64 { "acknowledged_extension_update_lost" } else { "extension_update_applied_twice" },
                json!({"key": name, "final": fin, "acknowledged_updates": acked.len()})));
        }
        for (v, cs) in &by_seen {
            if *v >= fin {
                return Some(("extension_updates_not_serial", json!({"key": name, "call": show(cs[0]), "final": fin})));
            }
            pos.push((*v as usize, cs[0]));
        }
    }
    // each call's return value is the one that order produces
    for c in calls {
        let (Ok(seen), Ok(ret)) = (&c.seen, &c.returned) else { continue };
        if c.noop {
            if !ret.iter().all(|x| *x == 0) {
                return Some(("declined_extension_update_returned_a_value", json!({"key": name, "call": show(c)})));
            }
        } else if seen != ret {
            // the value the insert displaced is not the value the new one was computed from
            return Some(("extension_update_returned_wrong_previous_value", json!({"key": name, "call": show(c)})));
        }
    }
    // a thread's own calls take effect in the order it made them (tags grow with the call number)
    pos.sort_by_key(|(p, _)| *p);
    let mut last: BTreeMap<usize, u64> = BTreeMap::new();
    for (_, c) in &pos {
        if let Some(prev) = last.insert(c.thread, c.tag) {
            if prev > c.tag {
                return Some(("extension_updates_against_the_callers_own_order", json!({"key": name, "call": show(c), "took_effect_after_its_later_call_with_tag": prev})));
            }
        }
    }
    // a declined call saw a value of the chain
    for c in calls.iter().filter(|c| c.noop) {
        let seen = c.seen.as_ref().unwrap();
        let ok = if is_log { fv_list(fin).map(|f| f.starts_with(seen)).unwrap_or(false) || removed.iter().any(|r| r.starts_with(seen)) } else { seen[0] <= acked.len() as u64 };
        if !ok {
            return Some(("extension_updates_not_serial", json!({"key": name, "declined_call": show(c)})));
        }
    }
    None
}

fn ext_threads_case(case: u64, rng: &mut Rng, st: &mut Stats, calls: usize) {
    let level = if case % 2 == 0 { Level::Collection } else { Level::Database };
    let lv = if level == Level::Collection { "collection" } else { "database" };
    let n_threads = 2 + (case / 2 % 3) as usize;
    // half of the cases: one more thread issues the asynchronous extension calls and flushes on a key
    // of its own while the setters run (same metadata object, same version counter)
    let side = case % 4 >= 2;
    let cfg = Cfg { cache: rng.bool(), compress: 0, bucket: 1 << 20 };
    let store = Arc::new(object_store::memory::InMemory::new());
    let set = IndexSet(IndexSet::UNAME | IndexSet::AGE);
    let (coll, db) = match block_on(async {
        let db = connect(store.clone(), &cfg).await?;
        let c = open_coll(&db, set).await?;
        Ok::<_, anda_db::error::DBError>((c, db))
    }) {
        Ok(x) => x,
        Err(e) => {
            st.inconclusive(format!("C05 ext_threads: setup failed: {e:?}"));
            return;
        }
    };
    let target: &dyn ExtTarget = match level {
        Level::Collection => &*coll,
        Level::Database => &db,
    };
    let rv = Rendezvous { in_call: Default::default(), closures: Default::default() };
    let barrier = std::sync::Barrier::new(n_threads + side as usize);
    let seed = rng.next_u64();
    let stop = std::sync::atomic::AtomicBool::new(false);
    let (per_thread, side_errs, removed_logs): (Vec<Vec<ExtCall>>, Vec<String>, Vec<Vec<u64>>) = std::thread::scope(|s| {
        let hs: Vec<_> = (0..n_threads)
            .map(|t| {
                let (rv, barrier) = (&rv, &barrier);
                s.spawn(move || {
                    let mut rng = Rng::derive(seed, t as u64);
                    barrier.wait();
                    ext_worker(target, t, calls, &mut rng, rv)
                })
            })
            .collect();
        let sh = side.then(|| {
            let (barrier, stop, coll, db) = (&barrier, &stop, &coll, &db);
            s.spawn(move || {
                let mut rng = Rng::derive(seed, 99);
                let mut errs = vec![];
                let mut removed: Vec<Vec<u64>> = vec![];
                barrier.wait();
                let mut i = 0u64;
                while !stop.load(std::sync::atomic::Ordering::SeqCst) && i < 400 {
                    i += 1;
                    let r: Result<(), String> = block_on(async {
                        match (level, rng.below(4)) {
                            (Level::Collection, 0) => coll.flush(anda_db::unix_ms()).await.map(|_| ()).map_err(|e| format!("flush: {e:?}")),
                            (Level::Database, 0) => db.flush_metadata(anda_db::unix_ms()).await.map_err(|e| format!("flush_metadata: {e:?}")),
                            (_, 1) => {
                                // the plain setter, then the value must be there: nobody else writes this key
                                match level {
                                    Level::Collection => coll.set_extension("side".into(), Fv::U64(i)),
                                    Level::Database => db.set_extension("side".into(), Fv::U64(i)),
                                }
                                let got = target.read("side");
                                if got != Some(Fv::U64(i)) { Err(format!("set_extension(side, {i}) by the key's only writer, then get_extension = {got:?}")) } else { Ok(()) }
                            }
                            (_, 2) => {
                                let r = match level {
                                    Level::Collection => coll.save_extension("side".into(), Fv::U64(i)).await,
                                    Level::Database => db.save_extension("side".into(), Fv::U64(i)).await,
                                };
                                let got = target.read("side");
                                match r {
                                    Err(e) => Err(format!("save_extension: {e:?}")),
                                    Ok(()) if got != Some(Fv::U64(i)) => Err(format!("save_extension(side, {i}) by the key's only writer, then get_extension = {got:?}")),
                                    Ok(()) => Ok(()),
                                }
                            }
                            (_, 3) if rng.chance(1, 2) => {
                                // take away a log the setter threads are appending to: what comes back is
                                // one whole chain, the appends that follow start a new one
                                let r = match level {
                                    Level::Collection => coll.remove_extension("log_both").await,
                                    Level::Database => db.remove_extension("log_both").await,
                                };
                                match r {
                                    Err(e) => Err(format!("remove_extension: {e:?}")),
                                    Ok(None) => Ok(()),
                                    Ok(Some(old)) => match fv_list(Some(&old)) {
                                        Ok(l) => {
                                            removed.push(l);
                                            Ok(())
                                        }
                                        Err(e) => Err(format!("remove_extension(log_both) returned a value nobody wrote: {e}")),
                                    },
                                }
                            }
                            _ => {
                                let before = target.read("side");
                                let r = match level {
                                    Level::Collection => coll.remove_extension("side").await,
                                    Level::Database => db.remove_extension("side").await,
                                };
                                match r {
                                    Err(e) => Err(format!("remove_extension: {e:?}")),
                                    Ok(old) if old != before => Err(format!("remove_extension(side) by the key's only writer returned {old:?}, the key held {before:?}")),
                                    Ok(_) if target.read("side").is_some() => Err("remove_extension(side) returned, the key is still there".to_string()),
                                    Ok(_) => Ok(()),
                                }
                            }
                        }
                    });
                    if let Err(e) = r {
                        errs.push(e);
                        break;
                    }
                    if rng.chance(1, 3) {
                        std::thread::yield_now();
                    }
                }
                (i, errs, removed)
            })
        });
        let per: Vec<Vec<ExtCall>> = hs.into_iter().map(|h| h.join().unwrap_or_default()).collect();
        stop.store(true, std::sync::atomic::Ordering::SeqCst);
        let (side_errs, removed) = match sh.map(|h| h.join()) {
            None => (vec![], vec![]),
            Some(Ok((n, errs, removed))) => {
                st.add("ext_thread_side_calls", n);
                st.add("ext_thread_logs_removed_under_the_setters", removed.len() as u64);
                (errs, removed)
            }
            Some(Err(_)) => (vec!["side thread panicked".to_string()], vec![]),
        };
        (per, side_errs, removed)
    });
    if per_thread.iter().any(|v| v.len() != calls) {
        st.inconclusive("C05 ext_threads: a worker thread did not finish its calls");
        return;
    }
    st.eval();
    st.count("ext_thread_cases");
    st.count(&format!("ext_thread_cases:{lv}"));
    st.add("ext_thread_calls", (n_threads * calls) as u64);
    let ctx = || json!({"case": case, "level": lv, "threads": n_threads, "calls_per_thread": calls, "async_side_thread": side});
    if let Some(e) = side_errs.first() {
        st.violation(format!("C05/threads/{lv}/extension_of_a_single_writer_changed_under_it"), json!({"error": e, "context": ctx()}));
        return;
    }
    let all: Vec<&ExtCall> = per_thread.iter().flatten().collect();
    for key in 0..EXT_KEYS.len() {
        let calls_k: Vec<&ExtCall> = all.iter().copied().filter(|c| c.key == key).collect();
        let fin = target.read(EXT_KEYS[key].0);
        st.count("oracle_extension_update_chains");
        st.add(&format!("ext_thread_updates:{}", if EXT_KEYS[key].1 { "log" } else { "counter" }), calls_k.iter().filter(|c| !c.noop).count() as u64);
        for c in &calls_k {
            st.count(if c.api == 0 { "ext_thread_calls:set_extension_with" } else { "ext_thread_calls:set_extension_from_with" });
            if c.overlapped {
                st.count(&format!("ext_thread_closures_run_while_another_caller_was_in_a_setter:{lv}"));
            }
        }
        let removed: &[Vec<u64>] = if EXT_KEYS[key].0 == "log_both" { &removed_logs } else { &[] };
        if let Some((sig, detail)) = judge_ext_key(key, &calls_k, removed, fin.as_ref()) {
            st.violation(format!("C05/threads/{lv}/{sig}"), json!({"detail": detail, "context": ctx()}));
            return;
        }
    }
    // what the handle shows is what a flush makes durable (cold reopen of a copy of the store)
    let live: BTreeMap<String, Option<Fv>> = EXT_KEYS.iter().map(|(k, _, _)| k.to_string()).chain(["side".to_string()]).map(|k| { let v = target.read(&k); (k, v) }).collect();
    let r = block_on(async {
        match level {
            Level::Collection => coll.flush(anda_db::unix_ms()).await.map(|_| ()).map_err(|e| format!("flush: {e:?}"))?,
            Level::Database => db.flush_metadata(anda_db::unix_ms()).await.map_err(|e| format!("flush_metadata: {e:?}"))?,
        }
        let snap = vcore::recstore::copy_store(store.as_ref()).await;
        let db2 = connect(snap, &cfg).await.map_err(|e| format!("connect: {e:?}"))?;
        let col2 = open_coll(&db2, set).await.map_err(|e| format!("open: {e:?}"))?;
        let t2: &dyn ExtTarget = match level {
            Level::Collection => &*col2,
            Level::Database => &db2,
        };
        Ok::<_, String>(live.keys().map(|k| (k.clone(), t2.read(k))).collect::<BTreeMap<String, Option<Fv>>>())
    });
    st.count("oracle_extension_durable_after_threads");
    match r {
        Err(e) => st.violation(format!("C05/threads/{lv}/flush_or_reopen_failed"), json!({"error": e, "context": ctx()})),
        Ok(re) if re != live => st.violation(format!("C05/threads/{lv}/extension_lost_or_changed_by_flush"), json!({"live": format!("{live:?}"), "reopened": format!("{re:?}"), "context": ctx()})),
        Ok(_) => {}
    }
    st.distinct(case.wrapping_mul(0x9e3779b97f4a7c15) ^ 0xe7);
    st.sample(|| json!({"section": "ext_threads", "level": lv, "threads": n_threads, "calls_per_thread": calls, "async_side_thread": side,
        "final": live.iter().map(|(k, v)| format!("{k}={}", { let s = format!("{v:?}"); if s.len() > 60 { format!("{}..", &s[..60]) } else { s } })).collect::<Vec<_>>()}));
}

fn main() {
    // tasks are polled by hand in this binary: see vcore::run::use_plain_block_on
    vcore::run::use_plain_block_on();
    let mut run = Run::from_args(
        "C05",
        "exploration",
        "one evaluation = one schedule (sequence of which task performs its next backend call) of one configuration of 2-4 \
         concurrent operations, judged by the four oracles; configurations are distinct by their operation set; every \
         configuration is non-trivial (at least two concurrent operations over shared state). Section triples: one evaluation = \
         one directed schedule (first call parked at one of its suspension points, two more calls queued, one release order) of \
         one ordered triple of call kinds; section ext_threads: one evaluation = one run of 2-4 OS threads issuing functional \
         extension updates whose histories are unambiguous",
    );
    run.assume("scheduling points are the backend calls and tokio lock waits of the async code (every await of the collection is one of them); preemption inside synchronous sections is sampled by the multi-thread stress runs, and for the synchronous read-modify-write extension setters by OS threads that pause inside the caller's closure (section ext_threads)");
    run.assume("a set of calls is wedged when no call is enabled although some have not returned: a call parked at a backend call wakes itself, so every unfinished call then waits for a lock that only another waiting call could release - decided without a clock");
    run.assume("the database-level functional extension setters (AndaDB::set_extension_with / set_extension_from_with, rs/anda_db/src/database.rs is among the anchors) are held to the same read-modify-write serialization as the collection-level ones");
    run.assume("queries that overlap writers are run as load only; the property constrains overlapping reads of documents (get), which are checked against the version window of a valid order");
    run.assume("at the instant a flush returns no mutation body is running (flush holds the exclusive gate until its completing poll), so the snapshot must equal the state after exactly the mutations that had returned");
    let t = run.tier;
    // the two enumerated / thread sections are cheap (seconds) and run first, so that the time-boxed
    // exploration below can never squeeze them out
    if run.wants("triples") {
        let all = combos();
        let thorough = t.pick(false, true);
        run.parallel("triples", all.len() as u64, 0.3, |c, rng, st| triple_case(c, rng, st, &all, thorough));
    }
    if run.wants("ext_threads") {
        let threads = run.threads;
        run.threads = 4;
        run.parallel("ext_threads", t.pick(192, 3000), 0.2, |c, rng, st| ext_threads_case(c, rng, st, t.pick(80, 200)));
        run.threads = threads;
    }
    if run.wants("sched") {
        run.parallel("configs", t.pick(120, 6000), 0.8, |c, rng, st| case(c, rng, st, t.pick(120, 1200)));
    }
    if run.wants("stress") {
        run.threads = 4;
        run.parallel("stress", t.pick(8, 200), 0.9, |c, rng, st| stress_case(c, rng, st, 8, t.pick(120, 400)));
    }
    run.floor("schedules_run", 3000);
    run.floor("oracle_linearizability_searches", 3000);
    run.floor("oracle_overlapping_reads", 200);
    run.floor("oracle_flush_snapshots", 200);
    run.floor("config:stripe", 5);
    run.floor("config:post_read_gate", 10);
    run.floor("config:extension_heavy", 10);
    run.floor("oracle_durable_after_flush_and_close", 500);
    run.floor("cop:set_extension", 10);
    run.floor_set("configurations", 30);
    for k in ["add", "update", "remove", "get", "flush", "save_extension", "compact"] {
        run.floor(&format!("cop:{k}"), 10);
    }
    run.floor("stress_runs", 4);
    // section `triples` (the enumeration is deterministic; the floors sit at a third of what it yields)
    run.floor("triple_schedules", 1400);
    run.floor("triple_park_points", 350);
    run.floor("triple_second_call_queued_on_a_lock", 180);
    run.floor("triple_exclusive_call_queued_on_the_gate", 300);
    run.floor("triple_both_queued_behind_the_parked_call", 180);
    run.floor_set("triple_combinations", 300);
    run.floor_set("triple_combinations_with_both_queued", 50);
    for k in ["update", "remove", "get", "add", "save_extension", "remove_extension"] {
        run.floor(&format!("triple_first:{k}"), 20);
    }
    for k in ["flush", "compact", "compact_bm25", "reconcile", "close"] {
        run.floor(&format!("triple_third:{k}"), 60);
    }
    run.floor("oracle_durable_after_concurrent_close", 300);
    // section `ext_threads`
    for lv in ["collection", "database"] {
        run.floor(&format!("ext_thread_cases:{lv}"), 30);
        // the setters really overlapped: closures that ran while another thread was inside a setter
        run.floor(&format!("ext_thread_closures_run_while_another_caller_was_in_a_setter:{lv}"), 4000);
    }
    run.floor("ext_thread_calls:set_extension_with", 7000);
    run.floor("ext_thread_calls:set_extension_from_with", 7000);
    run.floor("ext_thread_updates:counter", 7000);
    run.floor("ext_thread_updates:log", 7000);
    run.floor("ext_thread_side_calls", 1500);
    run.floor("ext_thread_logs_removed_under_the_setters", 120);
    run.floor("oracle_extension_update_chains", 380);
    run.floor("oracle_extension_durable_after_threads", 60);
    run.finish();
}

#[allow(dead_code)]
fn _unused(_: Value) {}

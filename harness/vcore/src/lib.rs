//! Shared machinery of the anda-db runtime monitors (DESIGN.md section 0).
pub mod manual;
pub mod recstore;
pub mod rng;
pub mod run;
pub mod sched;

pub use rng::Rng;
pub use run::{Run, Stats, Tier};
pub use serde_json::{Value, json};

/// FNV-1a, used for "distinct case" bookkeeping (not security relevant).
pub fn fnv(bytes: &[u8]) -> u64 {
    let mut h: u64 = 0xcbf29ce484222325;
    for b in bytes {
        h ^= *b as u64;
        h = h.wrapping_mul(0x100000001b3);
    }
    h
}

pub fn fnv_str(s: &str) -> u64 {
    fnv(s.as_bytes())
}

pub fn hash_debug<T: std::fmt::Debug>(v: &T) -> u64 {
    fnv(format!("{v:?}").as_bytes())
}

/// The longest prefix of `s` of at most `n` bytes that ends on a character boundary.
pub fn clip(s: &str, n: usize) -> &str {
    let mut cut = s.len().min(n);
    while !s.is_char_boundary(cut) {
        cut -= 1;
    }
    &s[..cut]
}

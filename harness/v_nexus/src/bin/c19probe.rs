use serde_json::json;
use v_nexus::nx1920::*;
fn main() {
    vcore::run::block_on(async {
        let nx = fresh_nexus("probe").await.unwrap();
        exec_ok(&nx, r#"CREATE CONCEPT ?c { TYPE "Person" NAME "a" }"#, &json!({})).await.unwrap();
        for i in 0..3 {
            let s = exec_ok(&nx, "SNAPSHOT", &json!({})).await.unwrap();
            println!("snapshot {i}: {}", s["snapshot_seq"]);
            let p = exec_ok(&nx, "PREVIEW KML :cmd", &json!({"cmd": r#"ARCHIVE ?c WHERE { ?c CONCEPT {type: "Person"} } LIMIT 50"#})).await.unwrap();
            println!("preview {i}: {}", serde_json::to_string(&p["receipt"]).unwrap());
        }
        let h = exec_ok(&nx, "HISTORY SPACE", &json!({})).await.unwrap();
        println!("history entries: {}", h.as_array().unwrap().len());
        let c = exec_ok(&nx, r#"FIND(?c) WHERE { ?c CONCEPT {type: "Person"} }"#, &json!({})).await.unwrap();
        println!("{}", serde_json::to_string(&c).unwrap());
        // AST shape for injection
        let cmd = anda_kip::parse_kip(r#"CREATE CONCEPT ?c { TYPE "Person" NAME "x" SET FIELDS {canonical_id: "k"} SET ATTRIBUTES {rank: 1} }"#).unwrap();
        println!("{}", serde_json::to_string(&cmd).unwrap());
        let cmd = anda_kip::parse_kip(r#"UPDATE "C-1" SET FIELDS {name: "y"} SET ATTRIBUTES {rank: 2}"#).unwrap();
        println!("{}", serde_json::to_string(&cmd).unwrap());
    });
}

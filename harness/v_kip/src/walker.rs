//! C16: independent walker over `anda_kip::Command`.
//!
//! Decides, for a tree that the parser or `validate_command` accepted, whether it asks an engine
//! for something the specification forbids syntactically. Written against the public AST and
//! the rules of SPECIFICATION.md (sections 6.3, 12.5, 13.7, 15.5, 17.5, 46/21.2, 53.2, 54.3, 60.3)
//! and KIPSyntax.md section 3.5 - it calls none of the parser's guards.
//!
//! What "statically known kind" means here: the target variable of an UPDATE is bound by an
//! explicit typed pattern (`?t ASSERTION {..}`, `?t EVIDENCE {..}`, `?t ACTIVITY {..}`,
//! `?t [PROPOSITION] (..)`, `?t [CONCEPT] {..}`) in a scope of the statement's WHERE that can
//! produce the binding: the top level, an OPTIONAL block, or a UNION branch (an independent
//! scope). A NOT block binds nothing outward. Direct-id targets are not judged.

use anda_kip::*;
use std::collections::{BTreeMap, BTreeSet};

/// Engine-owned names no mutation may assign (Spec 6.2 / 6.3 / 2.11 / 28.1).
pub const ENGINE_OWNED: &[&str] = &["_system", "governance", "space_id", "space_seq"];
/// Spec 12.5
pub const PROPOSITION_PAYLOAD: &[&str] = &["subject", "predicate", "object"];
/// Spec 13.7 with the field names of 13.2
pub const ASSERTION_PAYLOAD: &[&str] =
    &["proposition", "asserted_by", "stance", "mode", "confidence", "asserted_at", "valid_time", "evidence"];
/// Spec 15.5 with the field names of 15.3 (payload and observation identity)
pub const EVIDENCE_PAYLOAD: &[&str] = &["evidence_class", "payload", "content_digest", "media_type", "observed_at"];

#[derive(Clone, Debug, PartialEq, Eq, PartialOrd, Ord)]
pub struct Finding {
    /// stable rule id
    pub rule: &'static str,
    /// where in the tree (clause family + block)
    pub at: String,
    pub what: String,
}

#[derive(Clone, Copy, Debug, PartialEq, Eq, PartialOrd, Ord)]
pub enum Kind {
    Concept,
    Proposition,
    Assertion,
    Evidence,
    Activity,
}

/// How a scope binds the variable.
#[derive(Clone, Debug, Default)]
pub struct Binding {
    /// (kind, description of the scope that can produce it)
    pub can_be: Vec<(Kind, &'static str)>,
    /// number of typed patterns that name the variable anywhere in the block (NOT included)
    pub typed_patterns: usize,
}

fn count_typed(var: &str, clauses: &[WhereClause]) -> usize {
    clauses
        .iter()
        .map(|c| match c {
            WhereClause::Not(i) | WhereClause::Optional(i) | WhereClause::Union(i) => count_typed(var, i),
            WhereClause::Concept { variable, .. }
            | WhereClause::Assertion { variable, .. }
            | WhereClause::Evidence { variable, .. }
            | WhereClause::Activity { variable, .. } => (variable == var) as usize,
            WhereClause::Proposition { variable: Some(v), .. } => (v == var) as usize,
            _ => 0,
        })
        .sum()
}

fn direct_kinds(var: &str, clauses: &[WhereClause]) -> BTreeSet<Kind> {
    let mut out = BTreeSet::new();
    for c in clauses {
        match c {
            WhereClause::Concept { variable, .. } if variable == var => {
                out.insert(Kind::Concept);
            }
            WhereClause::Assertion { variable, .. } if variable == var => {
                out.insert(Kind::Assertion);
            }
            WhereClause::Evidence { variable, .. } if variable == var => {
                out.insert(Kind::Evidence);
            }
            WhereClause::Activity { variable, .. } if variable == var => {
                out.insert(Kind::Activity);
            }
            WhereClause::Proposition { variable: Some(v), .. } if v == var => {
                out.insert(Kind::Proposition);
            }
            _ => {}
        }
    }
    out
}

/// Kinds the variable can be bound to, scope by scope.
fn scope_bindings(var: &str, clauses: &[WhereClause], scope: &'static str, inherited: &BTreeSet<Kind>, out: &mut Binding) {
    let here = direct_kinds(var, clauses);
    // a required pattern of an enclosing scope still constrains an OPTIONAL block
    let constrained: BTreeSet<Kind> = here.union(inherited).copied().collect();
    if here.len() == 1 && constrained.len() == 1 {
        out.can_be.push((*here.iter().next().unwrap(), scope));
    }
    for c in clauses {
        match c {
            // an OPTIONAL block extends the solution of its enclosing scope
            WhereClause::Optional(inner) => scope_bindings(var, inner, "optional", &constrained, out),
            // a UNION branch is an independent scope (KIPSyntax 2.2)
            WhereClause::Union(inner) => scope_bindings(var, inner, "union", &BTreeSet::new(), out),
            // NOT binds nothing outward
            WhereClause::Not(_) => {}
            _ => {}
        }
    }
}

pub fn bindings_of(var: &str, clauses: &[WhereClause]) -> Binding {
    let mut b = Binding { typed_patterns: count_typed(var, clauses), ..Default::default() };
    scope_bindings(var, clauses, "top-level", &BTreeSet::new(), &mut b);
    b
}

fn where_has_belief(clauses: &[WhereClause]) -> bool {
    clauses.iter().any(|c| match c {
        WhereClause::Belief { .. } | WhereClause::BeliefSlot { .. } => true,
        WhereClause::Not(i) | WhereClause::Optional(i) | WhereClause::Union(i) => where_has_belief(i),
        _ => false,
    })
}

// ---- variables a WHERE block mentions in binding positions (independent of the parser's collector)

fn term_vars(t: &Term, out: &mut BTreeSet<String>) {
    match t {
        Term::Variable(v) => {
            out.insert(v.clone());
        }
        Term::Match(m) => m.values().for_each(|v| match_vars(v, out)),
        Term::Proposition(p) => prop_vars(p, out),
        Term::Param(_) | Term::Literal(_) => {}
    }
}

fn match_vars(v: &MatchValue, out: &mut BTreeSet<String>) {
    match v {
        MatchValue::Variable(n) => {
            out.insert(n.clone());
        }
        MatchValue::Array(items) => items.iter().for_each(|i| match_vars(i, out)),
        MatchValue::Match(m) => m.values().for_each(|i| match_vars(i, out)),
        MatchValue::Proposition(p) => prop_vars(p, out),
        MatchValue::Param(_) | MatchValue::Literal(_) => {}
    }
}

fn atom_var(a: &PredAtom, out: &mut BTreeSet<String>) {
    if let PredAtom::Variable(v) = a {
        out.insert(v.clone());
    }
}

fn prop_vars(p: &PropositionMatcher, out: &mut BTreeSet<String>) {
    if let PropositionMatcher::Tuple(t) = p {
        triple_vars(t, out);
    }
}

fn triple_vars(t: &PropositionTriple, out: &mut BTreeSet<String>) {
    term_vars(&t.subject, out);
    term_vars(&t.object, out);
    match &t.predicate {
        PredTerm::Atom(a) => atom_var(a, out),
        PredTerm::Path(atoms) => atoms.iter().for_each(|a| atom_var(&a.predicate, out)),
    }
}

/// Every variable that occurs in a pattern position anywhere in the block (NOT blocks included:
/// the walker gives the statement the benefit of the doubt there and counts it separately).
pub fn where_vars(clauses: &[WhereClause], out: &mut BTreeSet<String>) {
    for c in clauses {
        match c {
            WhereClause::Concept { variable, matcher }
            | WhereClause::Assertion { variable, matcher }
            | WhereClause::Evidence { variable, matcher }
            | WhereClause::Activity { variable, matcher } => {
                out.insert(variable.clone());
                matcher.values().for_each(|v| match_vars(v, out));
            }
            WhereClause::Proposition { variable, matcher } => {
                if let Some(v) = variable {
                    out.insert(v.clone());
                }
                prop_vars(matcher, out);
            }
            WhereClause::Structural { variable, subject, object, .. } => {
                if let Some(v) = variable {
                    out.insert(v.clone());
                }
                term_vars(subject, out);
                term_vars(object, out);
            }
            WhereClause::Belief { variable, target } => {
                out.insert(variable.clone());
                match target {
                    BeliefTarget::Proposition(p) => {
                        out.insert(p.clone());
                    }
                    BeliefTarget::Id(_) => {}
                    BeliefTarget::Tuple(t) => triple_vars(t, out),
                }
            }
            WhereClause::BeliefSlot { variable, subject, predicate } => {
                out.insert(variable.clone());
                term_vars(subject, out);
                atom_var(predicate, out);
            }
            WhereClause::Filter { .. } => {}
            WhereClause::Not(i) | WhereClause::Optional(i) | WhereClause::Union(i) => where_vars(i, out),
        }
    }
}

// ---- handle references

fn bound_handles(v: &BoundValue, out: &mut BTreeSet<String>) {
    match v {
        BoundValue::Handle(h) => {
            out.insert(h.clone());
        }
        BoundValue::Array(items) => items.iter().for_each(|i| bound_handles(i, out)),
        BoundValue::Object(m) => m.iter().for_each(|(_, i)| bound_handles(i, out)),
        BoundValue::Value(_) | BoundValue::Param(_) | BoundValue::Variable(_) => {}
    }
}

fn mval_handles(v: &MutationValue, out: &mut BTreeSet<String>) {
    match v {
        MutationValue::Handle(h) => {
            out.insert(h.clone());
        }
        MutationValue::Array(items) => items.iter().for_each(|i| bound_handles(i, out)),
        MutationValue::Object(m) => m.iter().for_each(|(_, i)| bound_handles(i, out)),
        MutationValue::Value(_) | MutationValue::Param(_) | MutationValue::Variable(_) | MutationValue::Expr(_) => {}
    }
}

fn eref(r: &ElementRef, out: &mut BTreeSet<String>) {
    if let ElementRef::Handle(h) = r {
        out.insert(h.clone());
    }
}

struct ClauseView<'a> {
    family: &'static str,
    declares: Option<&'a str>,
    /// (block name, assignments)
    assigns: Vec<(String, &'a Assignments)>,
    /// (block name, unset names)
    unsets: Vec<(String, &'a [String])>,
    edges: Vec<&'a StructuralEdge>,
    removals: Vec<&'a StructuralRemoval>,
    targets: Vec<&'a ElementRef>,
    wheres: Option<&'a Vec<WhereClause>>,
}

fn view(c: &MutationClause) -> ClauseView<'_> {
    let mut v = ClauseView {
        family: "",
        declares: None,
        assigns: vec![],
        unsets: vec![],
        edges: vec![],
        removals: vec![],
        targets: vec![],
        wheres: None,
    };
    fn facets<'a>(v: &mut ClauseView<'a>, fs: &'a [FacetAssignment]) {
        for f in fs {
            v.assigns.push(("SET FACET".into(), &f.values));
        }
    }
    fn record<'a>(v: &mut ClauseView<'a>, family: &'static str, r: &'a RecordCreate) {
        v.family = family;
        v.declares = Some(&r.handle);
        if let Some(a) = &r.set_fields {
            v.assigns.push(("SET FIELDS".into(), a));
        }
        facets(v, &r.set_facets);
        if let Some(e) = &r.set_structural {
            v.edges.extend(e.iter());
        }
    }
    match c {
        MutationClause::CreateConcept(c) => {
            v.family = "CreateConcept";
            v.declares = Some(&c.handle);
            if let Some(a) = &c.set_fields {
                v.assigns.push(("SET FIELDS".into(), a));
            }
            if let Some(a) = &c.set_attributes {
                v.assigns.push(("SET ATTRIBUTES".into(), a));
            }
            facets(&mut v, &c.set_facets);
            if let Some(e) = &c.set_structural {
                v.edges.extend(e.iter());
            }
        }
        MutationClause::UpsertConcept(c) => {
            v.family = "UpsertConcept";
            v.declares = Some(&c.handle);
            if let Some(a) = &c.set_fields {
                v.assigns.push(("SET FIELDS".into(), a));
            }
            if let Some(a) = &c.set_attributes {
                v.assigns.push(("SET ATTRIBUTES".into(), a));
            }
            facets(&mut v, &c.set_facets);
            if let Some(u) = &c.unset_attributes {
                v.unsets.push(("UNSET ATTRIBUTES".into(), u));
            }
            for u in &c.unset_facets {
                v.unsets.push(("UNSET FACET".into(), &u.fields));
            }
            if let Some(e) = &c.set_structural {
                v.edges.extend(e.iter());
            }
            if let Some(e) = &c.unset_structural {
                v.removals.extend(e.iter());
            }
        }
        MutationClause::EnsureProposition(c) => {
            v.family = "EnsureProposition";
            v.declares = c.handle.as_deref();
        }
        MutationClause::CreateEvidence(r) => record(&mut v, "CreateEvidence", r),
        MutationClause::CreateAssertion(r) => record(&mut v, "CreateAssertion", r),
        MutationClause::CreateActivity(r) => record(&mut v, "CreateActivity", r),
        MutationClause::Update(c) => {
            v.family = "Update";
            v.targets.push(&c.target);
            v.wheres = c.where_clauses.as_ref();
            for a in &c.actions {
                match a {
                    UpdateAction::SetFields(a) => v.assigns.push(("SET FIELDS".into(), a)),
                    UpdateAction::SetAttributes(a) => v.assigns.push(("SET ATTRIBUTES".into(), a)),
                    UpdateAction::SetFacet(f) => v.assigns.push(("SET FACET".into(), &f.values)),
                    UpdateAction::UnsetAttributes(u) => v.unsets.push(("UNSET ATTRIBUTES".into(), u)),
                    UpdateAction::UnsetFacet(u) => v.unsets.push(("UNSET FACET".into(), &u.fields)),
                    UpdateAction::SetStructural(e) => v.edges.extend(e.iter()),
                    UpdateAction::UnsetStructural(e) => v.removals.extend(e.iter()),
                }
            }
        }
        MutationClause::RetractAssertion(c) => {
            v.family = "RetractAssertion";
            v.targets.push(&c.target);
            v.wheres = c.where_clauses.as_ref();
        }
        MutationClause::SupersedeAssertion(c) => {
            v.family = "SupersedeAssertion";
            v.targets.push(&c.target);
            v.targets.push(&c.by);
        }
        MutationClause::CorrectEvidence(c) => {
            v.family = "CorrectEvidence";
            v.targets.push(&c.target);
            v.targets.push(&c.by);
        }
        MutationClause::TransitionActivity(c) => {
            v.family = "TransitionActivity";
            v.targets.push(&c.target);
            if let Some(a) = &c.set_fields {
                v.assigns.push(("SET FIELDS".into(), a));
            }
            if let Some(e) = &c.set_structural {
                v.edges.extend(e.iter());
            }
        }
        MutationClause::SetRetention(c) => {
            v.family = "SetRetention";
            v.targets.push(&c.target);
            v.assigns.push(("retention block".into(), &c.values));
            v.wheres = c.where_clauses.as_ref();
        }
        MutationClause::Archive(c) => {
            v.family = "Archive";
            v.targets.push(&c.target);
            v.wheres = c.where_clauses.as_ref();
        }
        MutationClause::Tombstone(c) => {
            v.family = "Tombstone";
            v.targets.push(&c.target);
            v.wheres = c.where_clauses.as_ref();
        }
        MutationClause::Purge(c) => {
            v.family = "Purge";
            v.targets.push(&c.target);
            v.wheres = c.where_clauses.as_ref();
        }
        MutationClause::MergeConcept(c) => {
            v.family = "MergeConcept";
            v.targets.push(&c.source);
            v.targets.push(&c.into);
            v.wheres = c.where_clauses.as_ref();
        }
    }
    v
}

/// Counters of things the walker sees but does not judge (ambiguity goes to the code's favour).
#[derive(Default, Debug)]
pub struct Measured {
    pub counts: BTreeMap<&'static str, u64>,
}

impl Measured {
    fn hit(&mut self, k: &'static str) {
        *self.counts.entry(k).or_insert(0) += 1;
    }
}

fn nested_engine_keys_kip(v: &KipValue) -> bool {
    match v {
        KipValue::Object(m) => m.iter().any(|(k, v)| ENGINE_OWNED.contains(&k.as_str()) || nested_engine_keys_kip(v)),
        KipValue::Array(a) => a.iter().any(nested_engine_keys_kip),
        _ => false,
    }
}

fn nested_engine_keys_bound(v: &BoundValue) -> bool {
    match v {
        BoundValue::Value(k) => nested_engine_keys_kip(k),
        BoundValue::Object(m) => m.iter().any(|(k, v)| ENGINE_OWNED.contains(&k.as_str()) || nested_engine_keys_bound(v)),
        BoundValue::Array(a) => a.iter().any(nested_engine_keys_bound),
        _ => false,
    }
}

fn nested_engine_keys(v: &MutationValue) -> bool {
    match v {
        MutationValue::Value(k) => nested_engine_keys_kip(k),
        MutationValue::Object(m) => m.iter().any(|(k, v)| ENGINE_OWNED.contains(&k.as_str()) || nested_engine_keys_bound(v)),
        MutationValue::Array(a) => a.iter().any(nested_engine_keys_bound),
        _ => false,
    }
}

pub fn walk(cmd: &Command, measured: &mut Measured) -> Vec<Finding> {
    let mut out = vec![];
    match cmd {
        Command::Kql(_) => {}
        Command::Meta(MetaCommand::ExportCapsule(e)) => {
            if where_has_belief(&e.where_clauses) {
                out.push(Finding { rule: "belief-as-selector", at: "ExportCapsule.WHERE".into(), what: "BELIEF in an EXPORT selection".into() });
            }
        }
        Command::Meta(_) => {}
        Command::Kml(plan) => walk_plan(plan, measured, &mut out),
    }
    out.sort();
    out.dedup();
    out
}

fn walk_plan(plan: &KmlStatement, measured: &mut Measured, out: &mut Vec<Finding>) {
    let views: Vec<ClauseView> = plan.clauses.iter().map(view).collect();

    // ---- handles: declared twice / referenced but never bound
    let mut declared: BTreeSet<&str> = BTreeSet::new();
    for v in &views {
        if let Some(h) = v.declares {
            if !declared.insert(h) {
                out.push(Finding { rule: "handle-declared-twice", at: v.family.into(), what: format!("?{h}") });
            }
        }
    }
    for (v, clause) in views.iter().zip(&plan.clauses) {
        let mut bound: BTreeSet<String> = declared.iter().map(|s| s.to_string()).collect();
        if let Some(w) = v.wheres {
            where_vars(w, &mut bound);
        }
        let mut refs: BTreeSet<String> = BTreeSet::new();
        let mut target_refs: BTreeSet<String> = BTreeSet::new();
        for t in &v.targets {
            eref(t, &mut refs);
            eref(t, &mut target_refs);
        }
        for (_, a) in &v.assigns {
            a.iter().for_each(|(_, val)| mval_handles(val, &mut refs));
        }
        for e in &v.edges {
            mval_handles(&e.value, &mut refs);
            if let Some(o) = &e.options {
                o.values().for_each(|b| bound_handles(b, &mut refs));
            }
        }
        for r in &v.removals {
            mval_handles(&r.value, &mut refs);
        }
        for r in &refs {
            if !bound.contains(r) {
                out.push(Finding { rule: "handle-never-bound", at: v.family.into(), what: format!("?{r}") });
            }
        }
        // a variable endpoint of ENSURE PROPOSITION names a plan handle (Spec 53.2, parse_kml's own example)
        if let MutationClause::EnsureProposition(e) = clause {
            for (pos, t) in [("subject", &e.subject), ("object", &e.object)] {
                if let Term::Variable(name) = t {
                    if !declared.contains(name.as_str()) {
                        out.push(Finding {
                            rule: "handle-never-bound",
                            at: "EnsureProposition.endpoint".into(),
                            what: format!("?{name} as {pos}"),
                        });
                    }
                }
            }
        }
        // measured: target only mentioned under NOT
        if let Some(w) = v.wheres {
            for t in &target_refs {
                if !declared.contains(t.as_str()) {
                    let mut positive = BTreeSet::new();
                    let stripped: Vec<WhereClause> = w.iter().filter(|c| !matches!(c, WhereClause::Not(_))).cloned().collect();
                    where_vars(&stripped, &mut positive);
                    if bound.contains(t) && !positive.contains(t) {
                        measured.hit("target_mentioned_only_inside_NOT");
                    }
                }
            }
        }
    }

    for (v, clause) in views.iter().zip(&plan.clauses) {
        // ---- engine-owned names
        for (block, a) in &v.assigns {
            for (k, val) in a.iter() {
                if ENGINE_OWNED.contains(&k.as_str()) {
                    out.push(Finding { rule: "engine-owned-field-assigned", at: format!("{}.{block}", v.family), what: k.clone() });
                }
                if nested_engine_keys(val) {
                    measured.hit("engine_owned_name_as_nested_value_key");
                }
                if matches!(k.as_str(), "id" | "kind") {
                    measured.hit("id_or_kind_assigned");
                }
            }
        }
        for (block, names) in &v.unsets {
            for k in names.iter() {
                if ENGINE_OWNED.contains(&k.as_str()) {
                    out.push(Finding { rule: "engine-owned-field-assigned", at: format!("{}.{block}", v.family), what: k.clone() });
                }
            }
        }
        for e in &v.edges {
            if let Some(o) = &e.options {
                if o.keys().any(|k| ENGINE_OWNED.contains(&k.as_str())) {
                    measured.hit("engine_owned_name_as_edge_option_key");
                }
            }
        }

        // ---- BELIEF is never a mutation selector
        if let Some(w) = v.wheres {
            if where_has_belief(w) {
                out.push(Finding { rule: "belief-as-selector", at: format!("{}.WHERE", v.family), what: "BELIEF in a mutation WHERE".into() });
            }
        }

        match clause {
            // ---- immutable payload / record topology through UPDATE
            MutationClause::Update(u) => {
                if let (ElementRef::Handle(t), Some(w)) = (&u.target, &u.where_clauses) {
                    let b = bindings_of(t, w);
                    // one typed pattern = the plain case; several = the target is named by more
                    // than one typed pattern (possibly in nested blocks)
                    let how = if b.typed_patterns > 1 { "target-in-several-typed-patterns" } else { "target-in-one-typed-pattern" };
                    for (kind, scope) in &b.can_be {
                        let frozen: &[&str] = match kind {
                            Kind::Assertion => ASSERTION_PAYLOAD,
                            Kind::Evidence => EVIDENCE_PAYLOAD,
                            Kind::Proposition => PROPOSITION_PAYLOAD,
                            Kind::Concept | Kind::Activity => &[],
                        };
                        for a in &u.actions {
                            match a {
                                UpdateAction::SetFields(fields) => {
                                    for (k, _) in fields {
                                        if frozen.contains(&k.as_str()) {
                                            out.push(Finding {
                                                rule: "immutable-payload-rewritten",
                                                at: format!("Update.SET FIELDS/{how}"),
                                                what: format!("{k} of {kind:?} (bound at {scope})"),
                                            });
                                        }
                                    }
                                }
                                UpdateAction::SetStructural(_) | UpdateAction::UnsetStructural(_) => {
                                    if matches!(kind, Kind::Assertion | Kind::Evidence | Kind::Proposition | Kind::Activity) {
                                        out.push(Finding {
                                            rule: "record-topology-mutated",
                                            at: format!("Update.STRUCTURAL/{how}"),
                                            what: format!("SET/UNSET STRUCTURAL of {kind:?} (bound at {scope}) through UPDATE"),
                                        });
                                    }
                                }
                                _ => {}
                            }
                        }
                    }
                } else if !matches!(u.target, ElementRef::Handle(_)) {
                    measured.hit("update_direct_target_not_judged");
                }
            }
            // ---- UPSERT identity
            MutationClause::UpsertConcept(c) => {
                let stable = c.r#match.as_ref().is_some_and(|m| {
                    ["id", "key"].iter().any(|f| matches!(m.get(*f), Some(MatchValue::Literal(_) | MatchValue::Param(_))))
                });
                if !stable {
                    out.push(Finding {
                        rule: "upsert-without-stable-identity",
                        at: "UpsertConcept.MATCH".into(),
                        what: format!("{:?}", c.r#match.as_ref().map(|m| m.keys().cloned().collect::<Vec<_>>())),
                    });
                }
            }
            // ---- PURGE confirmation
            MutationClause::Purge(p) => {
                if p.confirm != "PURGE" {
                    out.push(Finding { rule: "purge-unconfirmed", at: "Purge.CONFIRM".into(), what: p.confirm.clone() });
                }
            }
            _ => {}
        }
    }
}

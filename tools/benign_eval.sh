#!/usr/bin/env bash
# Runs checks against one property-PRESERVING change (a "benign mutant") in a scratch worktree: every check must
# stay silent (exit 0). usage: tools/benign_eval.sh <benign-id> <check ids...>   env: SEEDS (default "1 2"), WT, TIER
set -u
BID="${1:?benign id}"; shift
DIR="/verif/benign/$BID"
[ -f "$DIR/patch.diff" ] || { echo "no $DIR/patch.diff"; exit 2; }
WT="${WT:-/tmp/wt-mut}"; SEEDS="${SEEDS:-1 2}"; TIER="${TIER:-quick}"
[ -d "$WT" ] || git -C /repo worktree add --detach "$WT" HEAD >/dev/null 2>&1
git -C "$WT" checkout -q --detach "$(git -C /repo rev-parse HEAD)" && git -C "$WT" checkout -q -- . && git -C "$WT" clean -fdq -e target
git -C "$WT" apply "$DIR/patch.diff" || { echo "patch does not apply"; exit 2; }
OUT="$DIR/result.json"
[ -f "$OUT" ] || echo '{"benign":"'"$BID"'","runs":[]}' > "$OUT"
for C in "$@"; do for S in $SEEDS; do
  LOG="/tmp/benign-eval-$BID-$C-$S.log"
  VERIF_SEED=$S timeout 3600 /verif/tools/mutant_run.sh "$WT" "$C" "$TIER" > "$LOG" 2>&1; RC=$?
  python3 - "$OUT" "$C" "$S" "$TIER" "$RC" "$LOG" "$(git -C /verif rev-parse --short HEAD)" <<'PY'
import json,sys,re
out,c,s,tier,rc,log,commit=sys.argv[1:8]
txt=open(log,errors="replace").read()
sigs=sorted(set(re.findall(r"^  violation: (.*)$",txt,flags=re.M)))
inc=re.findall(r"^INCONCLUSIVE.*$",txt,flags=re.M)[:3]
d=json.load(open(out))
d["runs"]=[r for r in d["runs"] if not (r["check"]==c and r["seed"]==int(s) and r["tier"]==tier)]
d["runs"].append({"check":c,"seed":int(s),"tier":tier,"exit":int(rc),"silent":int(rc)==0,"signatures":sigs[:8],"inconclusive":inc,"verif_commit":commit})
json.dump(d,open(out,"w"),indent=1)
print(f"{d['benign']} {c} seed={s}: exit={rc} {'SILENT' if int(rc)==0 else 'ALARM ' + str(sigs[:4]) + str(inc[:1])}")
PY
done; done
git -C "$WT" checkout -q -- . && git -C "$WT" clean -fdq -e target

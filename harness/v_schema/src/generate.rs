//! Type-directed generators for C13.
//!
//! * `gen_type`: `FieldType` from its grammar to a nesting depth.
//! * `gen_valid`: a value the documentation calls valid for the type, in the DECLARED variant at
//!   every depth, biased to numeric / size boundaries. In untyped positions (`Array([])`,
//!   `Map({})`, `Json`) only shapes whose generic read-back is canonical are produced.
//! * `mutate_invalid`: ONE mutation of a valid value that is invalid under the documented rules
//!   without ambiguity (on every write path and in stored bytes).
//! * `mutate_grey`: ONE mutation into a documented read-back grey zone (never used as "invalid").
//! * strict / loose comparison and an independent "declared variant" checker.

use anda_db_schema::{FieldKey, FieldType, FieldValue, Json, bf16};
use std::collections::BTreeMap;
use vcore::Rng;

pub type Ft = FieldType;
pub type Fv = FieldValue;

/// Small mode (Miri costs ~10^4 x): no 4097-element vectors, no long texts / byte strings, no
/// 24-element arrays. Shapes and classes stay the same.
static SMALL: std::sync::atomic::AtomicBool = std::sync::atomic::AtomicBool::new(false);
pub fn set_small(on: bool) {
    SMALL.store(on, std::sync::atomic::Ordering::Relaxed);
}
fn small() -> bool {
    SMALL.load(std::sync::atomic::Ordering::Relaxed)
}

pub struct G<'a> {
    pub rng: &'a mut Rng,
    /// set when a boundary numeric / size was drawn
    pub boundary: bool,
}

// ---------------------------------------------------------------------------------------------
// types

pub fn ctor_name(ft: &Ft) -> &'static str {
    match ft {
        Ft::Bool => "Bool",
        Ft::I64 => "I64",
        Ft::U64 => "U64",
        Ft::F64 => "F64",
        Ft::F32 => "F32",
        Ft::Bytes => "Bytes",
        Ft::Text => "Text",
        Ft::Json => "Json",
        Ft::Vector => "Vector",
        Ft::Option(_) => "Option",
        Ft::Array(t) => match t.len() {
            0 => "ArrayUntyped",
            1 => "ArrayHomogeneous",
            _ => "ArrayTuple",
        },
        Ft::Map(m) => {
            if m.is_empty() {
                "MapUntyped"
            } else if let Some((k, _)) = wildcard_of(m) {
                match k {
                    FieldKey::Text(_) => "MapWildcardText",
                    FieldKey::I64(_) => "MapWildcardI64",
                    FieldKey::Bytes(_) => "MapWildcardBytes",
                }
            } else {
                "MapKeyed"
            }
        }
    }
}

/// The documented wildcard convention: exactly one entry whose key is "*", b"*" or i64::MIN.
pub fn wildcard_of(m: &BTreeMap<FieldKey, Ft>) -> Option<(&FieldKey, &Ft)> {
    if m.len() != 1 {
        return None;
    }
    let (k, t) = m.iter().next().unwrap();
    let is_wild = match k {
        FieldKey::Text(s) => s == "*",
        FieldKey::Bytes(b) => b == b"*",
        FieldKey::I64(i) => *i == i64::MIN,
    };
    if is_wild { Some((k, t)) } else { None }
}

pub fn walk_type(ft: &Ft, f: &mut dyn FnMut(&Ft)) {
    f(ft);
    match ft {
        Ft::Option(t) => walk_type(t, f),
        Ft::Array(ts) => ts.iter().for_each(|t| walk_type(t, f)),
        Ft::Map(m) => m.values().for_each(|t| walk_type(t, f)),
        _ => {}
    }
}

pub fn type_depth(ft: &Ft) -> usize {
    match ft {
        Ft::Option(t) => 1 + type_depth(t),
        Ft::Array(ts) => 1 + ts.iter().map(type_depth).max().unwrap_or(0),
        Ft::Map(m) => 1 + m.values().map(type_depth).max().unwrap_or(0),
        _ => 0,
    }
}

/// Shape of a type: constructors and key variants, not key contents.
pub fn type_shape(ft: &Ft) -> String {
    match ft {
        Ft::Option(t) => format!("Opt({})", type_shape(t)),
        Ft::Array(ts) => format!("Arr[{}]", ts.iter().map(type_shape).collect::<Vec<_>>().join(",")),
        Ft::Map(m) => {
            if let Some((k, t)) = wildcard_of(m) {
                format!("Map<{}*,{}>", key_kind(k), type_shape(t))
            } else {
                format!(
                    "Map{{{}}}",
                    m.iter().map(|(k, t)| format!("{}:{}", key_kind(k), type_shape(t))).collect::<Vec<_>>().join(",")
                )
            }
        }
        other => ctor_name(other).to_string(),
    }
}

fn key_kind(k: &FieldKey) -> &'static str {
    match k {
        FieldKey::Text(_) => "T",
        FieldKey::I64(_) => "I",
        FieldKey::Bytes(_) => "B",
    }
}

pub fn gen_scalar_type(rng: &mut Rng) -> Ft {
    match rng.below(9) {
        0 => Ft::Bool,
        1 => Ft::I64,
        2 => Ft::U64,
        3 => Ft::F64,
        4 => Ft::F32,
        5 => Ft::Bytes,
        6 => Ft::Text,
        7 => Ft::Json,
        _ => Ft::Vector,
    }
}

const TEXT_KEYS: &[&str] = &[
    "", "a", "k1", "key", "*", "\u{540d}\u{524d}", "i64:5", "b64:AQ", "txt:x", "name", "Z", "a b",
    "0", "-1",
];

pub fn gen_key(rng: &mut Rng, kind: u64) -> FieldKey {
    match kind {
        0 => {
            if rng.chance(1, 8) {
                let n = 1 + rng.usize(70);
                FieldKey::Text((0..n).map(|_| (b'a' + rng.below(26) as u8) as char).collect())
            } else {
                FieldKey::Text(rng.pick(TEXT_KEYS).to_string())
            }
        }
        1 => FieldKey::I64(if rng.chance(1, 5) {
            rng.next_u64() as i64
        } else {
            *rng.pick(&[
                0i64, 1, -1, 23, 24, -24, -25, 255, 256, -256, 65536, i64::MAX, i64::MIN, i64::MIN + 1, 7, 4,
            ])
        }),
        _ => FieldKey::Bytes(match rng.below(7) {
            0 => vec![],
            1 => vec![0],
            2 => b"*".to_vec(),
            3 => vec![0xff, 0xfe],
            4 => b"abc".to_vec(),
            _ => {
                let n = 1 + rng.usize(8);
                rng.bytes(n)
            }
        }),
    }
}

pub fn is_wildcard_sentinel(k: &FieldKey) -> bool {
    match k {
        FieldKey::Text(s) => s == "*",
        FieldKey::Bytes(b) => b == b"*",
        FieldKey::I64(i) => *i == i64::MIN,
    }
}

/// `depth` = how many more composite levels may be stacked.
pub fn gen_type(rng: &mut Rng, depth: usize) -> Ft {
    if depth == 0 || rng.chance(1, 5) {
        return gen_scalar_type(rng);
    }
    match rng.weighted(&[16, 5, 16, 13, 4, 5, 4, 4, 17]) {
        0 => Ft::Option(Box::new(gen_type(rng, depth - 1))),
        1 => Ft::Array(vec![]),
        2 => Ft::Array(vec![gen_type(rng, depth - 1)]),
        3 => {
            let n = 2 + rng.usize(3);
            Ft::Array((0..n).map(|_| gen_type(rng, depth - 1)).collect())
        }
        4 => Ft::Map(BTreeMap::new()),
        5 => Ft::Map(BTreeMap::from([(FieldKey::Text("*".into()), gen_type(rng, depth - 1))])),
        6 => Ft::Map(BTreeMap::from([(FieldKey::I64(i64::MIN), gen_type(rng, depth - 1))])),
        7 => Ft::Map(BTreeMap::from([(FieldKey::Bytes(b"*".to_vec()), gen_type(rng, depth - 1))])),
        _ => {
            let n = 1 + rng.usize(4);
            let mixed = rng.chance(1, 4);
            let kind = rng.below(3);
            let mut m = BTreeMap::new();
            let mut guard = 0;
            while m.len() < n && guard < 40 {
                guard += 1;
                let kk = if mixed { rng.below(3) } else { kind };
                let k = gen_key(rng, kk);
                if n == 1 && is_wildcard_sentinel(&k) {
                    continue; // a one-entry map with a sentinel key IS a wildcard map
                }
                if m.contains_key(&k) {
                    continue;
                }
                let t = gen_type(rng, depth - 1);
                m.insert(k, t);
            }
            if m.len() == 1 && is_wildcard_sentinel(m.keys().next().unwrap()) {
                m.insert(FieldKey::Text("second".into()), Ft::Bool);
            }
            Ft::Map(m)
        }
    }
}

// ---------------------------------------------------------------------------------------------
// valid values

pub const I64_EDGES: &[i64] = &[
    i64::MIN,
    i64::MIN + 1,
    -1,
    0,
    1,
    23,
    24,
    -24,
    -25,
    255,
    256,
    -256,
    -257,
    65535,
    65536,
    i32::MAX as i64,
    i32::MIN as i64,
    u32::MAX as i64,
    u32::MAX as i64 + 1,
    i64::MAX - 1,
    i64::MAX,
];

pub const U64_EDGES: &[u64] = &[
    0,
    1,
    23,
    24,
    255,
    256,
    65535,
    65536,
    u32::MAX as u64,
    u32::MAX as u64 + 1,
    i64::MAX as u64,
    i64::MAX as u64 + 1,
    u64::MAX - 1,
    u64::MAX,
];

pub fn f64_edges() -> Vec<f64> {
    vec![
        0.0,
        -0.0,
        1.0,
        -1.0,
        0.5,
        1.5,
        0.1,
        1.0 / 3.0,
        f64::MIN_POSITIVE,
        f64::from_bits(1),
        -f64::from_bits(1),
        f64::from_bits(0x000f_ffff_ffff_ffff),
        f64::MAX,
        f64::MIN,
        f64::INFINITY,
        f64::NEG_INFINITY,
        65504.0,
        65505.0,
        16777217.0,
        1e300,
        2.7100000000001,
        f32::MAX as f64,
        f32::MAX as f64 * 2.0,
        1e-46,
        9007199254740993.0,
        f64::from(0.1f32),
        f64::EPSILON,
        -2.5,
        1e15,
        123456789.125,
    ]
}

pub fn f32_edges() -> Vec<f32> {
    vec![
        0.0,
        -0.0,
        1.0,
        -1.0,
        0.5,
        0.1,
        2.71,
        1.0 / 3.0,
        f32::MIN_POSITIVE,
        f32::from_bits(1),
        -f32::from_bits(1),
        f32::from_bits(0x007f_ffff),
        f32::MAX,
        f32::MIN,
        f32::INFINITY,
        f32::NEG_INFINITY,
        65504.0,
        16777216.0,
        3.4e38,
        0.2,
        0.3,
        1e-40,
        f32::EPSILON,
        8388609.0,
        33554434.0,
    ]
}

pub const BF16_EDGES: &[u16] = &[
    0x0000, 0x8000, 0x7f80, 0xff80, 0x0001, 0x8001, 0x007f, 0x0080, 0x3f80, 0xbf80, 0x7f7f, 0xff7f, 0x4049,
];

const TEXTS: &[&str] = &[
    "",
    "a",
    "hello world",
    "\u{540d}\u{524d}",
    "\u{1f980}",
    "b64:AQID",
    "i64:-7",
    "txt:x",
    "*",
    "\u{0}",
    "line\nbreak\ttab\"quote\\",
    "test",
    "true",
    "null",
    "12345",
];

pub fn gen_text(g: &mut G) -> String {
    match if small() { 2 + g.rng.below(8) } else { g.rng.below(10) } {
        0 => {
            g.boundary = true;
            String::new()
        }
        1 => {
            let n = 100 + g.rng.usize(300);
            (0..n).map(|_| (b' ' + g.rng.below(95) as u8) as char).collect()
        }
        2 | 3 => {
            let n = 1 + g.rng.usize(12);
            (0..n)
                .map(|_| char::from_u32(*g.rng.pick(&[0x61u32, 0x7a, 0xe9, 0x4e2d, 0x1f600, 0x20, 0x30])).unwrap())
                .collect()
        }
        _ => g.rng.pick(TEXTS).to_string(),
    }
}

pub fn gen_bytes(g: &mut G) -> Vec<u8> {
    match if small() && g.rng.chance(1, 2) { 7 } else { g.rng.below(10) } {
        0 => {
            g.boundary = true;
            vec![]
        }
        1 => vec![0],
        2 => vec![255],
        3 => b"hello".to_vec(),
        4 => vec![0xc3, 0x28],
        5 => vec![0xff, 0xfe, 0xfd],
        6 => {
            let n = if small() { 30 } else { 200 + g.rng.usize(200) };
            g.rng.bytes(n)
        }
        7 => vec![1, 2, 3],
        _ => {
            let n = 1 + g.rng.usize(40);
            g.rng.bytes(n)
        }
    }
}

pub fn gen_i64(g: &mut G) -> i64 {
    if g.rng.chance(3, 5) {
        g.boundary = true;
        *g.rng.pick(I64_EDGES)
    } else if g.rng.bool() {
        g.rng.irange(-1000, 1000)
    } else {
        g.rng.next_u64() as i64
    }
}

pub fn gen_u64(g: &mut G) -> u64 {
    if g.rng.chance(3, 5) {
        g.boundary = true;
        *g.rng.pick(U64_EDGES)
    } else if g.rng.bool() {
        g.rng.below(1000)
    } else {
        g.rng.next_u64()
    }
}

pub fn gen_f64(g: &mut G) -> f64 {
    if g.rng.chance(3, 5) {
        g.boundary = true;
        *g.rng.pick(&f64_edges())
    } else if g.rng.bool() {
        (g.rng.f64() - 0.5) * 2000.0
    } else {
        let x = f64::from_bits(g.rng.next_u64());
        if x.is_nan() { 1.25 } else { x }
    }
}

pub fn gen_f32(g: &mut G) -> f32 {
    if g.rng.chance(3, 5) {
        g.boundary = true;
        *g.rng.pick(&f32_edges())
    } else if g.rng.bool() {
        ((g.rng.f64() - 0.5) * 2000.0) as f32
    } else {
        let x = f32::from_bits(g.rng.next_u64() as u32);
        if x.is_nan() { 1.25 } else { x }
    }
}

pub fn gen_vector(g: &mut G) -> Vec<bf16> {
    let n = match g.rng.below(8) {
        0 => {
            g.boundary = true;
            0
        }
        1 => 1,
        2 => {
            if small() {
                9
            } else {
                64
            }
        }
        _ => 1 + g.rng.usize(8),
    };
    (0..n)
        .map(|_| {
            if g.rng.chance(1, 2) {
                g.boundary = true;
                bf16::from_bits(*g.rng.pick(BF16_EDGES))
            } else {
                let b = g.rng.next_u64() as u16;
                let x = bf16::from_bits(b);
                if x.is_nan() { bf16::from_bits(0x3f80) } else { x }
            }
        })
        .collect()
}

fn json_number(g: &mut G) -> Json {
    match g.rng.below(4) {
        0 => Json::from(gen_u64(g)),
        1 => {
            let i = gen_i64(g);
            Json::from(i) // non-negative i64 becomes the canonical PosInt
        }
        _ => {
            let mut f = gen_f64(g);
            if !f.is_finite() {
                f = 1e308;
            }
            serde_json::Number::from_f64(f).map(Json::Number).unwrap_or(Json::from(0u64))
        }
    }
}

/// JSON whose generic read-back is canonical. `allow_null`: a top-level JSON null directly under
/// an `Option` is indistinguishable from "absent" (plain serde behaviour) and is not generated.
pub fn gen_json(g: &mut G, depth: usize, allow_null: bool) -> Json {
    let leaf = depth == 0 || g.rng.chance(2, 5);
    if leaf {
        match g.rng.below(if allow_null { 5 } else { 4 }) {
            0 => Json::Bool(g.rng.bool()),
            1 | 2 => json_number(g),
            3 => Json::String(gen_text(g)),
            _ => Json::Null,
        }
    } else if g.rng.bool() {
        let n = g.rng.usize(4);
        Json::Array((0..n).map(|_| gen_json(g, depth - 1, true)).collect())
    } else {
        let n = g.rng.usize(4);
        let mut m = serde_json::Map::new();
        for _ in 0..n {
            let k = gen_text(g);
            let k = if k.len() > 40 { "long".to_string() } else { k };
            m.insert(k, gen_json(g, depth - 1, true));
        }
        Json::Object(m)
    }
}

/// A value for an untyped position whose generic (schema-less) read-back is itself.
pub fn gen_generic(g: &mut G, depth: usize) -> Fv {
    let leaf = depth == 0 || g.rng.chance(3, 5);
    if leaf {
        match g.rng.below(8) {
            0 => Fv::Bool(g.rng.bool()),
            1 => Fv::U64(gen_u64(g)),
            2 => {
                let i = gen_i64(g);
                if i >= 0 { Fv::U64(i as u64) } else { Fv::I64(i) }
            }
            3 => Fv::F64(gen_f64(g)),
            4 => Fv::Text(gen_text(g)),
            5 => Fv::Bytes(gen_bytes(g)),
            6 => Fv::Null,
            _ => Fv::U64(g.rng.below(100)),
        }
    } else if g.rng.bool() {
        let n = g.rng.usize(4);
        Fv::Array((0..n).map(|_| gen_generic(g, depth - 1)).collect())
    } else {
        let n = g.rng.usize(4);
        let mut m = BTreeMap::new();
        for _ in 0..n {
            let kind = g.rng.below(3);
            m.insert(gen_key(g.rng, kind), gen_generic(g, depth - 1));
        }
        Fv::Map(m)
    }
}

fn gen_len(g: &mut G) -> usize {
    match g.rng.below(12) {
        0 | 1 => {
            g.boundary = true;
            0
        }
        2 | 3 => 1,
        4 => {
            if small() {
                3
            } else {
                24
            }
        }
        _ => 2 + g.rng.usize(3),
    }
}

/// `nullable`: the position is (transitively) wrapped in `Option`.
pub fn gen_valid(ft: &Ft, g: &mut G, nullable: bool) -> Fv {
    match ft {
        Ft::Bool => Fv::Bool(g.rng.bool()),
        Ft::I64 => Fv::I64(gen_i64(g)),
        Ft::U64 => Fv::U64(gen_u64(g)),
        Ft::F64 => Fv::F64(gen_f64(g)),
        Ft::F32 => Fv::F32(gen_f32(g)),
        Ft::Bytes => Fv::Bytes(gen_bytes(g)),
        Ft::Text => Fv::Text(gen_text(g)),
        Ft::Json => Fv::Json(gen_json(g, 3, !nullable)),
        Ft::Vector => Fv::Vector(gen_vector(g)),
        Ft::Option(t) => {
            if g.rng.chance(1, 3) {
                Fv::Null
            } else {
                gen_valid(t, g, true)
            }
        }
        Ft::Array(ts) => match ts.len() {
            0 => {
                let n = gen_len(g).min(6);
                Fv::Array((0..n).map(|_| gen_generic(g, 2)).collect())
            }
            1 => {
                let n = gen_len(g);
                let n = if type_depth(&ts[0]) >= 2 { n.min(4) } else { n };
                Fv::Array((0..n).map(|_| gen_valid(&ts[0], g, false)).collect())
            }
            _ => Fv::Array(ts.iter().map(|t| gen_valid(t, g, false)).collect()),
        },
        Ft::Map(m) => {
            if m.is_empty() {
                let n = gen_len(g).min(5);
                let mut out = BTreeMap::new();
                for _ in 0..n {
                    let kind = g.rng.below(3);
                    out.insert(gen_key(g.rng, kind), gen_generic(g, 2));
                }
                Fv::Map(out)
            } else if let Some((wk, t)) = wildcard_of(m) {
                let kind = match wk {
                    FieldKey::Text(_) => 0,
                    FieldKey::I64(_) => 1,
                    FieldKey::Bytes(_) => 2,
                };
                let n = gen_len(g).min(5);
                let mut out = BTreeMap::new();
                for _ in 0..n {
                    out.insert(gen_key(g.rng, kind), gen_valid(t, g, false));
                }
                Fv::Map(out)
            } else {
                let mut out = BTreeMap::new();
                for (k, t) in m {
                    if let Ft::Option(_) = t {
                        match g.rng.below(3) {
                            0 => {} // absent optional key
                            1 => {
                                out.insert(k.clone(), Fv::Null);
                            }
                            _ => {
                                out.insert(k.clone(), gen_valid(t, g, false));
                            }
                        }
                    } else {
                        out.insert(k.clone(), gen_valid(t, g, false));
                    }
                }
                Fv::Map(out)
            }
        }
    }
}

// ---------------------------------------------------------------------------------------------
// comparison

pub fn json_eq(a: &Json, b: &Json) -> bool {
    match (a, b) {
        (Json::Null, Json::Null) => true,
        (Json::Bool(x), Json::Bool(y)) => x == y,
        (Json::String(x), Json::String(y)) => x == y,
        (Json::Number(x), Json::Number(y)) => {
            if let (Some(p), Some(q)) = (x.as_u64(), y.as_u64()) {
                p == q
            } else if let (Some(p), Some(q)) = (x.as_i64(), y.as_i64()) {
                p == q
            } else if x.is_f64() && y.is_f64() {
                x.as_f64().map(f64::to_bits) == y.as_f64().map(f64::to_bits)
            } else {
                false
            }
        }
        (Json::Array(x), Json::Array(y)) => x.len() == y.len() && x.iter().zip(y).all(|(p, q)| json_eq(p, q)),
        (Json::Object(x), Json::Object(y)) => {
            x.len() == y.len() && x.iter().all(|(k, v)| y.get(k).map(|w| json_eq(v, w)).unwrap_or(false))
        }
        _ => false,
    }
}

/// Strict equality: same variant at every depth, floats by bit pattern (sign of zero, infinities),
/// vectors by bf16 bit pattern.
pub fn fv_eq(a: &Fv, b: &Fv) -> bool {
    match (a, b) {
        (Fv::Bool(x), Fv::Bool(y)) => x == y,
        (Fv::I64(x), Fv::I64(y)) => x == y,
        (Fv::U64(x), Fv::U64(y)) => x == y,
        (Fv::F64(x), Fv::F64(y)) => x.to_bits() == y.to_bits(),
        (Fv::F32(x), Fv::F32(y)) => x.to_bits() == y.to_bits(),
        (Fv::Bytes(x), Fv::Bytes(y)) => x == y,
        (Fv::Text(x), Fv::Text(y)) => x == y,
        (Fv::Json(x), Fv::Json(y)) => json_eq(x, y),
        (Fv::Vector(x), Fv::Vector(y)) => {
            x.len() == y.len() && x.iter().zip(y).all(|(p, q)| p.to_bits() == q.to_bits())
        }
        (Fv::Array(x), Fv::Array(y)) => x.len() == y.len() && x.iter().zip(y).all(|(p, q)| fv_eq(p, q)),
        (Fv::Map(x), Fv::Map(y)) => {
            x.len() == y.len() && x.iter().zip(y).all(|((k1, v1), (k2, v2))| k1 == k2 && fv_eq(v1, v2))
        }
        (Fv::Null, Fv::Null) => true,
        _ => false,
    }
}

fn json_generic(j: &Json) -> Fv {
    match j {
        Json::Null => Fv::Null,
        Json::Bool(b) => Fv::Bool(*b),
        Json::Number(n) => {
            if let Some(u) = n.as_u64() {
                Fv::U64(u)
            } else if let Some(i) = n.as_i64() {
                Fv::I64(i)
            } else {
                Fv::F64(n.as_f64().unwrap_or(f64::INFINITY))
            }
        }
        Json::String(s) => Fv::Text(s.clone()),
        Json::Array(a) => Fv::Array(a.iter().map(json_generic).collect()),
        Json::Object(o) => {
            Fv::Map(o.iter().map(|(k, v)| (FieldKey::Text(k.clone()), json_generic(v))).collect())
        }
    }
}

/// The schema-less shape of a value: what generic CBOR read-back makes of it.
pub fn generic_canon(v: &Fv) -> Fv {
    match v {
        Fv::I64(i) if *i >= 0 => Fv::U64(*i as u64),
        Fv::F32(f) => Fv::F64(f64::from(*f)),
        Fv::Vector(x) => Fv::Array(x.iter().map(|b| Fv::U64(b.to_bits() as u64)).collect()),
        Fv::Json(j) => json_generic(j),
        Fv::Array(a) => Fv::Array(a.iter().map(generic_canon).collect()),
        Fv::Map(m) => Fv::Map(m.iter().map(|(k, v)| (k.clone(), generic_canon(v))).collect()),
        other => other.clone(),
    }
}

/// Equality of the data modulo the documented schema-less read-back ambiguities.
pub fn loose_eq(a: &Fv, b: &Fv) -> bool {
    fv_eq(&generic_canon(a), &generic_canon(b))
}

/// Independent reading of "in the declared variant at every depth".
pub fn conforms(ft: &Ft, v: &Fv) -> Result<(), String> {
    let bad = || Err(format!("{} does not hold the declared variant of {}", brief(v, 80), type_shape(ft)));
    match (ft, v) {
        (Ft::Option(_), Fv::Null) => Ok(()),
        (Ft::Option(t), v) => conforms(t, v),
        (Ft::Bool, Fv::Bool(_))
        | (Ft::I64, Fv::I64(_))
        | (Ft::U64, Fv::U64(_))
        | (Ft::F64, Fv::F64(_))
        | (Ft::F32, Fv::F32(_))
        | (Ft::Bytes, Fv::Bytes(_))
        | (Ft::Text, Fv::Text(_))
        | (Ft::Json, Fv::Json(_))
        | (Ft::Vector, Fv::Vector(_)) => Ok(()),
        (Ft::Array(ts), Fv::Array(vs)) => match ts.len() {
            0 => Ok(()),
            1 => vs.iter().try_for_each(|v| conforms(&ts[0], v)),
            n => {
                if vs.len() != n {
                    return Err(format!("tuple arity {} != {}", vs.len(), n));
                }
                ts.iter().zip(vs).try_for_each(|(t, v)| conforms(t, v))
            }
        },
        (Ft::Map(m), Fv::Map(vs)) => {
            if m.is_empty() {
                Ok(())
            } else if let Some((wk, t)) = wildcard_of(m) {
                for (k, v) in vs {
                    if key_kind(k) != key_kind(wk) {
                        return Err(format!("key {k:?} is not of the wildcard's variant"));
                    }
                    conforms(t, v)?;
                }
                Ok(())
            } else {
                for (k, v) in vs {
                    match m.get(k) {
                        Some(t) => conforms(t, v)?,
                        None => return Err(format!("undeclared key {k:?}")),
                    }
                }
                for (k, t) in m {
                    if !vs.contains_key(k) && !matches!(t, Ft::Option(_) | Ft::Json) {
                        return Err(format!("required key {k:?} missing"));
                    }
                }
                Ok(())
            }
        }
        _ => bad(),
    }
}

pub fn brief<T: std::fmt::Debug>(v: &T, max: usize) -> String {
    let s = format!("{v:?}");
    if s.len() > max {
        let mut cut = max;
        while !s.is_char_boundary(cut) {
            cut -= 1;
        }
        format!("{}...({} chars)", &s[..cut], s.len())
    } else {
        s
    }
}

pub fn value_depth(v: &Fv) -> usize {
    match v {
        Fv::Array(a) => 1 + a.iter().map(value_depth).max().unwrap_or(0),
        Fv::Map(m) => 1 + m.values().map(value_depth).max().unwrap_or(0),
        _ => 0,
    }
}

/// Shape of a value: variants, bucketed sizes and numeric classes (not the payload).
pub fn value_shape(v: &Fv) -> String {
    fn bucket(n: usize) -> &'static str {
        match n {
            0 => "0",
            1 => "1",
            2..=4 => "few",
            _ => "many",
        }
    }
    match v {
        Fv::Bool(_) => "b".into(),
        Fv::I64(i) => format!("i{}", if I64_EDGES.contains(i) { format!("#{i}") } else { (i.signum()).to_string() }),
        Fv::U64(u) => format!("u{}", if U64_EDGES.contains(u) { format!("#{u}") } else { String::new() }),
        Fv::F64(f) => format!(
            "d{}",
            if f64_edges().iter().any(|e| e.to_bits() == f.to_bits()) { format!("#{f:e}") } else { String::new() }
        ),
        Fv::F32(f) => format!(
            "f{}",
            if f32_edges().iter().any(|e| e.to_bits() == f.to_bits()) { format!("#{f:e}") } else { String::new() }
        ),
        Fv::Bytes(b) => format!("y{}", bucket(b.len())),
        Fv::Text(t) => format!("t{}", bucket(t.len())),
        Fv::Json(j) => format!("j{}", json_shape(j)),
        Fv::Vector(x) => format!("v{}", bucket(x.len())),
        Fv::Array(a) => format!("[{}]", a.iter().take(6).map(value_shape).collect::<Vec<_>>().join(",")),
        Fv::Map(m) => format!(
            "{{{}}}",
            m.iter().take(6).map(|(k, v)| format!("{}:{}", key_kind(k), value_shape(v))).collect::<Vec<_>>().join(",")
        ),
        Fv::Null => "n".into(),
    }
}

fn json_shape(j: &Json) -> String {
    match j {
        Json::Null => "n".into(),
        Json::Bool(_) => "b".into(),
        Json::Number(n) => (if n.is_f64() { "d" } else if n.is_u64() { "u" } else { "i" }).into(),
        Json::String(_) => "s".into(),
        Json::Array(a) => format!("[{}]", a.iter().take(4).map(json_shape).collect::<Vec<_>>().join("")),
        Json::Object(o) => format!("{{{}}}", o.values().take(4).map(json_shape).collect::<Vec<_>>().join("")),
    }
}

// ---------------------------------------------------------------------------------------------
// mutation sites

#[derive(Clone, Debug)]
pub enum Step {
    Index(usize),
    Key(FieldKey),
}

#[derive(Clone, Debug)]
pub struct Site {
    pub path: Vec<Step>,
    pub class: &'static str,
}

fn strip_option(ft: &Ft) -> (&Ft, bool) {
    let mut t = ft;
    let mut nullable = false;
    while let Ft::Option(inner) = t {
        t = inner;
        nullable = true;
    }
    (t, nullable)
}

fn required_key_type(t: &Ft) -> bool {
    // a missing key is validated as Null: Option accepts it, and so does Json (accepts anything)
    !matches!(t, Ft::Option(_) | Ft::Json)
}

fn invalid_sites(ft: &Ft, v: &Fv, path: &mut Vec<Step>, out: &mut Vec<Site>) {
    let (base, nullable) = strip_option(ft);
    let mut push = |class: &'static str, path: &Vec<Step>| out.push(Site { path: path.clone(), class });
    if matches!(base, Ft::Json) {
        return; // Json accepts anything: no invalid value exists below this point
    }
    push("wrong_family", path);
    if !nullable {
        push("null_non_option", path);
    }
    if *v == Fv::Null {
        return;
    }
    match (base, v) {
        (Ft::F64, _) | (Ft::F32, _) => {
            push("nan", path);
            if matches!(base, Ft::F32) {
                push("f64_out_of_f32_range", path);
            }
        }
        (Ft::U64, _) => push("negative_for_u64", path),
        (Ft::I64, _) => push("u64_overflow_i64", path),
        (Ft::Vector, _) => push("vector_bits_overflow", path),
        (Ft::Array(ts), Fv::Array(vs)) => match ts.len() {
            0 => {}
            1 => {
                for (i, e) in vs.iter().enumerate() {
                    path.push(Step::Index(i));
                    invalid_sites(&ts[0], e, path, out);
                    path.pop();
                }
            }
            _ => {
                push("tuple_arity_minus", path);
                push("tuple_arity_plus", path);
                for (i, (t, e)) in ts.iter().zip(vs).enumerate() {
                    path.push(Step::Index(i));
                    invalid_sites(t, e, path, out);
                    path.pop();
                }
            }
        },
        (Ft::Map(m), Fv::Map(vs)) => {
            if m.is_empty() {
            } else if let Some((_, t)) = wildcard_of(m) {
                push("wildcard_key_variant", path);
                for (k, e) in vs {
                    path.push(Step::Key(k.clone()));
                    invalid_sites(t, e, path, out);
                    path.pop();
                }
            } else {
                push("keyed_map_extra_key", path);
                if m.iter().any(|(k, t)| required_key_type(t) && vs.contains_key(k)) {
                    push("keyed_map_missing_key", path);
                }
                for (k, e) in vs {
                    if let Some(t) = m.get(k) {
                        path.push(Step::Key(k.clone()));
                        invalid_sites(t, e, path, out);
                        path.pop();
                    }
                }
            }
        }
        _ => {}
    }
}

fn node_at<'a>(ft: &'a Ft, v: &'a mut Fv, path: &[Step]) -> Option<(&'a Ft, &'a mut Fv)> {
    let (base, _) = strip_option(ft);
    let Some(step) = path.first() else {
        return Some((ft, v));
    };
    match (base, v, step) {
        (Ft::Array(ts), Fv::Array(vs), Step::Index(i)) => {
            let t = if ts.len() == 1 { &ts[0] } else { ts.get(*i)? };
            node_at(t, vs.get_mut(*i)?, &path[1..])
        }
        (Ft::Map(m), Fv::Map(vs), Step::Key(k)) => {
            let t = if let Some((_, t)) = wildcard_of(m) { t } else { m.get(k)? };
            node_at(t, vs.get_mut(k)?, &path[1..])
        }
        _ => None,
    }
}

fn wrong_family_value(base: &Ft, g: &mut G) -> Fv {
    // replacements whose CBOR kind differs from every accepted shape of `base`, so that the value
    // is invalid for validate(), for the type-driven extract() and after generic read-back alike
    let empty_map = Fv::Map(BTreeMap::new());
    let some_arr = Fv::Array(vec![Fv::Text("x".into())]);
    let pool: Vec<Fv> = match base {
        Ft::Bool => vec![Fv::U64(1), Fv::U64(0), Fv::Text("true".into()), Fv::Bytes(vec![1]), Fv::F64(1.0), some_arr, empty_map],
        Ft::I64 => vec![
            Fv::Bool(true),
            Fv::Text("5".into()),
            Fv::Bytes(vec![5]),
            Fv::F64(1.5),
            Fv::F64(2.0),
            Fv::F64(-3.0),
            some_arr,
            empty_map,
        ],
        Ft::U64 => vec![
            Fv::Bool(false),
            Fv::Text("7".into()),
            Fv::Bytes(vec![7]),
            Fv::F64(1.5),
            Fv::F64(3.0),
            Fv::F64(f64::INFINITY),
            some_arr,
            empty_map,
        ],
        Ft::F64 | Ft::F32 => vec![
            Fv::Bool(true),
            Fv::Text("1.5".into()),
            Fv::Bytes(vec![0, 0, 0, 0]),
            Fv::U64(1),
            Fv::U64(0),
            Fv::I64(-1),
            some_arr,
            empty_map,
        ],
        Ft::Bytes => vec![Fv::Bool(true), Fv::Text("abc".into()), Fv::U64(7), Fv::F64(0.5), empty_map, some_arr],
        Ft::Text => vec![Fv::Bool(true), Fv::Bytes(b"abc".to_vec()), Fv::U64(7), Fv::F64(0.5), some_arr, empty_map],
        Ft::Vector => vec![
            Fv::Bool(true),
            Fv::Text("v".into()),
            Fv::Bytes(vec![0, 1]),
            Fv::F64(0.5),
            Fv::U64(3),
            empty_map,
            Fv::Array(vec![Fv::F64(1.0)]),
            Fv::Array(vec![Fv::U64(1), Fv::I64(-1)]),
            Fv::Array(vec![Fv::Text("1".into())]),
        ],
        Ft::Array(_) => vec![
            Fv::Bool(true),
            Fv::Text("[]".into()),
            Fv::U64(0),
            Fv::F64(0.5),
            Fv::Bytes(vec![1, 2]),
            empty_map,
            Fv::Map(BTreeMap::from([(FieldKey::I64(0), Fv::U64(1))])),
        ],
        Ft::Map(_) => vec![
            Fv::Bool(true),
            Fv::Text("{}".into()),
            Fv::U64(0),
            Fv::F64(0.5),
            Fv::Bytes(vec![1, 2]),
            Fv::Array(vec![]),
            Fv::Array(vec![Fv::Array(vec![Fv::Text("k".into()), Fv::U64(1)])]),
        ],
        Ft::Json | Ft::Option(_) => vec![Fv::Bool(true)], // unreachable: no site is produced
    };
    g.rng.pick(&pool).clone()
}

fn fresh_key(m: &BTreeMap<FieldKey, Ft>, g: &mut G) -> FieldKey {
    for _ in 0..50 {
        let kind = g.rng.below(3);
        let k = gen_key(g.rng, kind);
        if !m.contains_key(&k) {
            return k;
        }
    }
    FieldKey::Text("certainly_not_declared_key".into())
}

/// One unambiguously invalid mutation of `v` (valid for `ft`). Returns the mutated value, its
/// class and the depth of the mutated node; None when the type offers no invalid value (Json).
pub fn mutate_invalid(ft: &Ft, v: &Fv, g: &mut G) -> Option<(Fv, &'static str, usize)> {
    let mut sites = vec![];
    invalid_sites(ft, v, &mut vec![], &mut sites);
    if sites.is_empty() {
        return None;
    }
    // first the class (uniform over the classes this value offers, so that rare classes are not
    // drowned by wrong_family / null which exist at every node), then the site; half of the
    // time the deepest site of that class
    let mut classes: Vec<&'static str> = sites.iter().map(|s| s.class).collect();
    classes.sort_unstable();
    classes.dedup();
    let class = *g.rng.pick(&classes);
    let of_class: Vec<&Site> = sites.iter().filter(|s| s.class == class).collect();
    let site = if g.rng.bool() {
        let maxd = of_class.iter().map(|s| s.path.len()).max().unwrap();
        let deep: Vec<&Site> = of_class.iter().copied().filter(|s| s.path.len() == maxd).collect();
        (*g.rng.pick(&deep)).clone()
    } else {
        (*g.rng.pick(&of_class)).clone()
    };
    let mut out = v.clone();
    let (nft, node) = node_at(ft, &mut out, &site.path)?;
    let (base, _) = strip_option(nft);
    match site.class {
        "wrong_family" => *node = wrong_family_value(base, g),
        "null_non_option" => *node = Fv::Null,
        "nan" => {
            let bits = *g.rng.pick(&[f64::NAN.to_bits(), (-f64::NAN).to_bits(), 0x7ff0_0000_0000_0001u64]);
            *node = match base {
                Ft::F64 => Fv::F64(f64::from_bits(bits)),
                _ => {
                    if g.rng.bool() {
                        Fv::F32(f32::NAN)
                    } else {
                        Fv::F32(f32::from_bits(0xffc0_0001))
                    }
                }
            };
        }
        "f64_out_of_f32_range" => {
            *node = Fv::F64(*g.rng.pick(&[1e39, -1e39, f64::MAX, 3.5e38, f64::MIN, 1e300]))
        }
        "negative_for_u64" => {
            let mut n = *g.rng.pick(&[-1i64, i64::MIN, -24, -25, -256, -65537, 0]);
            if n == 0 {
                n = -(1 + g.rng.below(1 << 40) as i64);
            }
            *node = Fv::I64(n)
        }
        "u64_overflow_i64" => {
            let mut n = *g.rng.pick(&[i64::MAX as u64 + 1, u64::MAX, u64::MAX - 1, 0]);
            if n == 0 {
                n = (1u64 << 63) + g.rng.below(1 << 62);
            }
            *node = Fv::U64(n)
        }
        "vector_bits_overflow" => {
            let mut bits: Vec<Fv> = match node {
                Fv::Vector(x) => x.iter().map(|b| Fv::U64(b.to_bits() as u64)).collect(),
                _ => vec![],
            };
            let bad = Fv::U64(*g.rng.pick(&[65536u64, 65537, u32::MAX as u64, u64::MAX, 1 << 16 | 0x3f80]));
            if bits.is_empty() {
                bits.push(bad);
            } else {
                let i = g.rng.usize(bits.len());
                bits[i] = bad;
            }
            *node = Fv::Array(bits);
        }
        "tuple_arity_minus" => {
            if let Fv::Array(vs) = node {
                let i = g.rng.usize(vs.len());
                vs.remove(i);
            }
        }
        "tuple_arity_plus" => {
            if let (Ft::Array(ts), Fv::Array(vs)) = (base, node) {
                let t = g.rng.pick(ts).clone();
                let extra = gen_valid(&t, g, false);
                if g.rng.bool() {
                    vs.push(extra);
                } else {
                    vs.insert(0, extra);
                    // inserting in front of an identical type could by chance keep a valid
                    // prefix, but the arity alone is already a violation
                }
            }
        }
        "wildcard_key_variant" => {
            if let (Ft::Map(m), Fv::Map(vs)) = (base, node) {
                let (wk, t) = wildcard_of(m)?;
                let kind = match wk {
                    FieldKey::Text(_) => *g.rng.pick(&[1u64, 2]),
                    FieldKey::I64(_) => *g.rng.pick(&[0u64, 2]),
                    FieldKey::Bytes(_) => *g.rng.pick(&[0u64, 1]),
                };
                let k = gen_key(g.rng, kind);
                let val = gen_valid(t, g, false);
                vs.insert(k, val);
            }
        }
        "keyed_map_extra_key" => {
            if let (Ft::Map(m), Fv::Map(vs)) = (base, node) {
                let k = fresh_key(m, g);
                let val = match g.rng.below(4) {
                    0 => Fv::Null,
                    1 => Fv::U64(1),
                    2 => Fv::Text("extra".into()),
                    _ => Fv::Bool(true),
                };
                vs.insert(k, val);
            }
        }
        "keyed_map_missing_key" => {
            if let (Ft::Map(m), Fv::Map(vs)) = (base, node) {
                let req: Vec<FieldKey> =
                    m.iter().filter(|(k, t)| required_key_type(t) && vs.contains_key(*k)).map(|(k, _)| k.clone()).collect();
                let k = g.rng.pick(&req).clone();
                vs.remove(&k);
            }
        }
        _ => return None,
    }
    Some((out, site.class, site.path.len()))
}

// ---------------------------------------------------------------------------------------------
// grey zone

fn grey_sites(ft: &Ft, v: &Fv, path: &mut Vec<Step>, out: &mut Vec<Site>) {
    let (base, nullable) = strip_option(ft);
    let mut push = |class: &'static str, path: &Vec<Step>| out.push(Site { path: path.clone(), class });
    if *v == Fv::Null {
        if nullable && matches!(base, Ft::Json) {
            push("json_null_under_option", path);
        }
        return;
    }
    match (base, v) {
        (Ft::I64, Fv::I64(i)) if *i >= 0 => push("u64_for_i64", path),
        (Ft::U64, Fv::U64(u)) if *u <= i64::MAX as u64 => push("nonneg_i64_for_u64", path),
        (Ft::F32, Fv::F32(_)) => {
            push("f64_widened_for_f32", path);
            push("f64_decimal_for_f32", path);
            push("f64_precise_for_f32", path);
        }
        (Ft::F64, Fv::F64(_)) => push("f32_for_f64", path),
        (Ft::Vector, Fv::Vector(_)) => {
            push("bits_array_for_vector", path);
            push("vector_nan_bits", path);
            if !small() {
                push("vector_len_4097", path);
            }
        }
        (Ft::Bytes, Fv::Bytes(_)) => push("int_array_for_bytes", path),
        (Ft::Json, Fv::Json(_)) => {
            push("generic_shape_for_json", path);
            push("non_json_shape_for_json", path);
        }
        (Ft::Array(ts), Fv::Array(vs)) => match ts.len() {
            0 => push("noncanonical_in_untyped", path),
            1 => {
                if matches!(strip_option(&ts[0]).0, Ft::U64) && vs.iter().all(|v| matches!(v, Fv::U64(u) if *u <= 65535)) {
                    push("vector_for_u64_array", path);
                }
                for (i, e) in vs.iter().enumerate() {
                    path.push(Step::Index(i));
                    grey_sites(&ts[0], e, path, out);
                    path.pop();
                }
            }
            _ => {
                for (i, (t, e)) in ts.iter().zip(vs).enumerate() {
                    path.push(Step::Index(i));
                    grey_sites(t, e, path, out);
                    path.pop();
                }
            }
        },
        (Ft::Map(m), Fv::Map(vs)) => {
            if m.is_empty() {
                push("noncanonical_in_untyped", path);
            } else {
                for (k, e) in vs {
                    let t = if let Some((_, t)) = wildcard_of(m) { Some(t) } else { m.get(k) };
                    if let Some(t) = t {
                        path.push(Step::Key(k.clone()));
                        grey_sites(t, e, path, out);
                        path.pop();
                    }
                }
            }
        }
        _ => {}
    }
}

fn noncanonical_generic(g: &mut G) -> Fv {
    match g.rng.below(7) {
        0 => Fv::F32(gen_f32(g)),
        1 => Fv::I64(gen_i64(g).unsigned_abs().min(i64::MAX as u64) as i64),
        2 => Fv::Vector(gen_vector(g)),
        3 => Fv::Json(gen_json(g, 2, true)),
        4 => Fv::F64(f64::NAN),
        5 => Fv::F32(f32::NAN),
        _ => Fv::Array(vec![Fv::F32(0.5), Fv::Vector(vec![bf16::from_bits(1)])]),
    }
}

/// One mutation into a documented grey zone. Never judged as valid or invalid; only the
/// "accepted on write => readable and equal" oracle applies.
pub fn mutate_grey(ft: &Ft, v: &Fv, g: &mut G) -> Option<(Fv, &'static str)> {
    let mut sites = vec![];
    grey_sites(ft, v, &mut vec![], &mut sites);
    if sites.is_empty() {
        return None;
    }
    let site = g.rng.pick(&sites).clone();
    let mut out = v.clone();
    let (_, node) = node_at(ft, &mut out, &site.path)?;
    match (site.class, &mut *node) {
        ("json_null_under_option", n) => *n = Fv::Json(Json::Null),
        ("u64_for_i64", Fv::I64(i)) => *node = Fv::U64(*i as u64),
        ("nonneg_i64_for_u64", Fv::U64(u)) => *node = Fv::I64(*u as i64),
        ("f64_widened_for_f32", Fv::F32(f)) => *node = Fv::F64(f64::from(*f)),
        ("f64_decimal_for_f32", Fv::F32(f)) => {
            *node = Fv::F64(format!("{f}").parse::<f64>().unwrap_or(0.0));
        }
        ("f64_precise_for_f32", Fv::F32(_)) => *node = Fv::F64(*g.rng.pick(&[2.7100000000001, 0.1, 1.0 / 3.0, 1e-50])),
        ("f32_for_f64", Fv::F64(f)) => *node = Fv::F32(*f as f32),
        ("bits_array_for_vector", Fv::Vector(x)) => {
            *node = Fv::Array(x.iter().map(|b| Fv::U64(b.to_bits() as u64)).collect())
        }
        ("vector_nan_bits", Fv::Vector(x)) => {
            x.push(bf16::from_bits(*g.rng.pick(&[0x7fc0u16, 0xffff, 0x7f81])));
        }
        ("vector_len_4097", Fv::Vector(x)) => {
            *x = (0..4097u32).map(|i| bf16::from_bits((i % 0x7f00) as u16)).collect();
        }
        ("int_array_for_bytes", Fv::Bytes(b)) => *node = Fv::Array(b.iter().take(64).map(|x| Fv::U64(*x as u64)).collect()),
        ("generic_shape_for_json", Fv::Json(j)) => *node = json_generic(j),
        ("non_json_shape_for_json", _) => {
            *node = match g.rng.below(6) {
                0 => Fv::Bytes(gen_bytes(g)),
                1 => Fv::Vector(gen_vector(g)),
                2 => Fv::F32(gen_f32(g)),
                3 => Fv::Map(BTreeMap::from([(FieldKey::I64(5), Fv::U64(1))])),
                4 => Fv::Map(BTreeMap::from([(FieldKey::Bytes(vec![1]), Fv::Bytes(vec![2]))])),
                _ => Fv::Array(vec![Fv::Bytes(vec![1]), Fv::Null]),
            }
        }
        ("noncanonical_in_untyped", Fv::Array(vs)) => {
            let x = noncanonical_generic(g);
            vs.push(x);
        }
        ("noncanonical_in_untyped", Fv::Map(vs)) => {
            let x = noncanonical_generic(g);
            vs.insert(FieldKey::Text("grey".into()), x);
        }
        ("vector_for_u64_array", Fv::Array(vs)) => {
            *node = Fv::Vector(
                vs.iter().map(|v| if let Fv::U64(u) = v { bf16::from_bits(*u as u16) } else { bf16::from_bits(0) }).collect(),
            )
        }
        _ => return None,
    }
    Some((out, site.class))
}

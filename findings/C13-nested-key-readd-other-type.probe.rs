// Probe (not part of any patch): nested key removed, later declared again with another type.
use anda_db_schema::{Document, DocumentOwned, FieldEntry as Fe, FieldKey, FieldType as Ft, Fv, Schema};
use std::collections::BTreeMap;
use std::sync::Arc;

fn schema(version: u64, keys: &[(&str, Ft)]) -> Schema {
    let nested = Ft::Map(keys.iter().map(|(k, t)| (FieldKey::Text(k.to_string()), t.clone())).collect());
    let mut b = Schema::builder();
    b.with_version(version);
    b.add_field(Fe::new("profile".into(), nested).unwrap()).unwrap();
    b.build().unwrap()
}

#[test]
fn nested_key_readded_with_other_type_bricks_old_documents() {
    let opt = |t: Ft| Ft::Option(Box::new(t));
    // v1: profile { name: Text, note: Option<Text> }
    let v1 = Arc::new(schema(1, &[("name", Ft::Text), ("note", opt(Ft::Text))]));
    let mut doc = Document::new(v1.clone());
    doc.set_id(1);
    doc.set_field(
        "profile",
        Fv::Map(BTreeMap::from([
            (FieldKey::Text("name".into()), Fv::Text("Ada".into())),
            (FieldKey::Text("note".into()), Fv::Text("hello".into())),
        ])),
    )
    .unwrap();
    let mut stored = Vec::new();
    cbor2::to_writer(&doc, &mut stored).unwrap();
    let read = |s: &Arc<Schema>| {
        let owned: DocumentOwned = cbor2::from_reader(&stored[..]).unwrap();
        Document::try_from_doc(s.clone(), owned)
    };

    // v2: `note` removed -> accepted, old document readable (stale entry pruned on read)
    let mut v2 = schema(2, &[("name", Ft::Text)]);
    v2.upgrade_with(&v1).unwrap();
    let v2 = Arc::new(v2);
    assert!(read(&v2).is_ok());

    // v3: `note` declared again, now Option<Bool> -> upgrade_with accepts it ...
    let mut v3 = schema(3, &[("name", Ft::Text), ("note", opt(Ft::Bool))]);
    v3.upgrade_with(&v2).expect("upgrade_with permits the chain");
    let v3 = Arc::new(v3);
    // ... and the never-rewritten v1 document can no longer be read
    let err = read(&v3).expect_err("old document is still readable");
    println!("PROBE: v1 document under v3: {err}");

    // top-level analogue works: a removed and re-added NAME gets a fresh idx
    let top = |version: u64, fields: &[(&str, Ft)]| {
        let mut b = Schema::builder();
        b.with_version(version);
        for (n, t) in fields {
            b.add_field(Fe::new(n.to_string(), t.clone()).unwrap()).unwrap();
        }
        b.build().unwrap()
    };
    let t1 = Arc::new(top(1, &[("name", Ft::Text), ("note", opt(Ft::Text))]));
    let mut d = Document::new(t1.clone());
    d.set_id(1);
    d.set_field("name", Fv::Text("Ada".into())).unwrap();
    d.set_field("note", Fv::Text("hello".into())).unwrap();
    let mut bytes = Vec::new();
    cbor2::to_writer(&d, &mut bytes).unwrap();
    let mut t2 = top(2, &[("name", Ft::Text)]);
    t2.upgrade_with(&t1).unwrap();
    let mut t3 = top(3, &[("name", Ft::Text), ("note", opt(Ft::Bool))]);
    t3.upgrade_with(&t2).unwrap();
    let t3 = Arc::new(t3);
    let owned: DocumentOwned = cbor2::from_reader(&bytes[..]).unwrap();
    let back = Document::try_from_doc(t3.clone(), owned).expect("top-level re-add keeps old documents readable");
    assert_eq!(back.get_field("note"), None);
    println!("PROBE: top-level re-added `note` got idx {}", t3.get_field("note").unwrap().idx());
}

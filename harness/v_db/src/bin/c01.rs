//! C01 - monitor not built yet.
fn main() {
    println!("INCONCLUSIVE property=C01 monitor not built yet");
    std::process::exit(2);
}

#!/usr/bin/env python3
"""Regenerates MANIFEST.json from the table below (single source of truth for the interface)."""
import json, subprocess

HOOK_COMMITS = subprocess.run(
    ["git", "-C", "/repo", "log", "--format=%H %s", "--grep=^verif:"],
    capture_output=True, text=True).stdout.strip().splitlines()

# id -> (engine/package, level, technique, level text, level note, design_ref)
CHECKS = {
 "C10": ("v_idx", "exploration",
   "model-based runtime monitor (BTreeMap oracle after every op) + crash-prefix enumeration of recorded flush writes + controlled thread schedules at verif_point hooks with per-key linearizability checking",
   "Runs the real BTreeIndex under seeded histories with minimum bucket size; after every operation all read APIs (point, keys paging, range trees depth<=3 in both directions with early stop, prefix) are compared with a BTreeMap model and the structural invariant walker runs; every prefix of every flush's bucket/metadata/delete write sequence is loaded and must equal the previous or the new commit exactly (plus failed flush + retry, legacy layout); 2-3 OS threads are scheduled at verif_point hooks (DFS over grant choices, random beyond the budget) and each key's call/return history must be linearizable, the invariant walker must pass and flush+reload must equal memory.",
   "Holds for the executions produced (counts in the evidence file). Interleavings are controlled at hook points only; preemption between arbitrary instructions is sampled by the stress runs. Flush concurrent with mutations is outside the crate's contract and not generated.",
   "DESIGN.md C10"),
}

NOT_YET = {
}

def main():
    checks = []
    for pid, (pkg, level, tech, text, note, ref) in sorted(CHECKS.items()):
        checks.append({
            "property_id": pid,
            "quick_cmd": f"./check {pid} quick",
            "thorough_cmd": f"./check {pid} thorough",
            "evidence_file": f"/verif/evidence/{pid}.json",
            "replay_cmd_template": f"./check {pid} quick --replay {{path}}",
            "engine": pkg,
            "level_claimed": {"category": level, "text": text, "design_ref": ref},
            "level_note": note,
            "technique": tech,
        })
    allp = [json.loads(l)["id"] for l in open("/verif/properties.jsonl")]
    na = [{"property_id": p, "reason": NOT_YET.get(p, "check under construction in this round: no monitor registered yet (runtime monitoring is applicable; see DESIGN.md)")}
          for p in allp if p not in CHECKS]
    m = {
        "version": 1,
        "setup_cmd": "./setup.sh",
        "hooks": {
            "guard": "cargo feature `verif` (anda_db_utils, anda_db_btree, anda_db_tfs, anda_object_store)",
            "enable": "the harness workspace /verif/harness depends on /repo/rs/* by path with features = [\"verif\"]; ./check rebuilds from the working tree",
            "baseline_off_cmd": "cd /repo && cargo nextest run --workspace --no-fail-fast --test-threads 8 --offline || cargo test --workspace --no-fail-fast --offline",
            "source_commits": [l.split()[0] for l in HOOK_COMMITS],
            "add_only": True,
        },
        "engines": [
            {"name": "vcore", "path": "/verif/harness/vcore", "serves_properties": allp,
             "kind_free_text": "shared runtime-monitoring machinery: seeded RNG, RecStore (recording/fault/gate ObjectStore), manual executor + DFS/random schedule choosers, OS-thread turn scheduler for verif_point hooks, evidence/verdict writer"},
            {"name": "v_idx", "path": "/verif/harness/v_idx", "serves_properties": ["C10", "C11", "C12"],
             "kind_free_text": "monitors for the index crates (btree, tfs, hnsw)"},
        ],
        "checks": checks,
        "not_applicable": na,
        "notes": "Technique family: runtime monitoring and sanitizers. Every check executes the real crates under /repo/rs rebuilt from the working tree. Exit 0 held / 1 VIOLATION / 2 inconclusive.",
    }
    json.dump(m, open("/verif/MANIFEST.json", "w"), indent=1)
    print("checks:", [c["property_id"] for c in checks], "not_applicable:", len(na))

main()

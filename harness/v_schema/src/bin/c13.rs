//! C13 - What validation accepts, storage returns unchanged; nothing invalid gets in.
//! Monitors (DESIGN.md C13): type-directed (type, value) pairs through every schema-level write
//! path and the stored form (valid / single invalid mutation / grey zone), complexity budget
//! boundaries, derive-macro struct family round trips, the same documents through
//! Collection add/get/update with compression {0,3} x cache {on,off} and across reopen, schema
//! upgrade chains (schema level and through a collection), a schema-only workload under Miri.

use anda_db::collection::{Collection, CollectionConfig};
use anda_db::database::{AndaDB, DBConfig};
use anda_db::storage::StorageConfig;
use anda_db_schema::{Document, FieldEntry, FieldKey, Schema};
use object_store::memory::InMemory;
use std::collections::BTreeMap;
use std::sync::Arc;
use v_schema::generate::*;
use v_schema::oracle::*;
use v_schema::typed::Typed;
use vcore::run::block_on;
use vcore::{Rng, Run, Stats, json};

const CONFIGS: [(i32, bool); 4] = [(0, true), (0, false), (3, true), (3, false)];

fn cfg_label(c: (i32, bool)) -> String {
    format!("compress{}_cache_{}", c.0, if c.1 { "on" } else { "off" })
}

fn db_config(c: (i32, bool)) -> DBConfig {
    DBConfig {
        name: "c13db".to_string(),
        description: "C13".to_string(),
        storage: StorageConfig {
            compress_level: c.0,
            cache_max_capacity: if c.1 { 10_000 } else { 0 },
            ..Default::default()
        },
        lock: None,
    }
}

fn coll_config() -> CollectionConfig {
    CollectionConfig { name: "docs".to_string(), description: "C13 documents".to_string() }
}

type Expected = BTreeMap<String, Fv>;

fn compare_doc(got: &Document, id: u64, exp: &Expected, schema: &Schema, strict: bool) -> Result<(), String> {
    if got.id() != id {
        return Err(format!("id {} != {}", got.id(), id));
    }
    for f in schema.iter() {
        if f.name() == "_id" {
            continue;
        }
        match (got.get_field(f.name()), exp.get(f.name())) {
            (None, None) => {}
            (Some(a), Some(b)) => {
                let same = if strict { fv_eq(a, b) } else { loose_eq(a, b) };
                if !same {
                    return Err(format!("field {}: got {} expected {}", f.name(), brief(a, 1200), brief(b, 1200)));
                }
            }
            (a, b) => return Err(format!("field {}: got {} expected {}", f.name(), brief(&a, 600), brief(&b, 600))),
        }
    }
    Ok(())
}

/// The type a hostile writer would declare to get `w` into a Document at all.
fn natural_type(w: &Fv) -> Option<Ft> {
    Some(match w {
        Fv::Bool(_) => Ft::Bool,
        Fv::I64(_) => Ft::I64,
        Fv::U64(_) => Ft::U64,
        Fv::F64(f) if !f.is_nan() => Ft::F64,
        Fv::F32(f) if !f.is_nan() => Ft::F32,
        Fv::F64(_) | Fv::F32(_) => return None,
        Fv::Bytes(_) => Ft::Bytes,
        Fv::Text(_) => Ft::Text,
        Fv::Json(_) => Ft::Json,
        Fv::Vector(_) => Ft::Vector,
        Fv::Array(_) => Ft::Array(vec![]),
        Fv::Map(_) => Ft::Map(BTreeMap::new()),
        Fv::Null => Ft::Option(Box::new(Ft::Bool)),
    })
}

struct Sc<'a> {
    label: String,
    fields: &'a [(String, Ft)],
    history: Vec<String>,
}

impl Sc<'_> {
    fn ctx(&self) -> serde_json::Value {
        json!({"config": self.label,
               "schema": self.fields.iter().map(|(n, t)| format!("{n}: {}", brief(t, 600))).collect::<Vec<_>>(),
               "history": self.history})
    }
}

async fn storage_case(case: u64, rng: &mut Rng, st: &mut Stats) {
    let cfg = CONFIGS[(case % 4) as usize];
    let label = cfg_label(cfg);
    let nf = 1 + rng.usize(4);
    let fields: Vec<(String, Ft)> = (0..nf)
        .map(|i| {
            let d = *rng.pick(&[0usize, 1, 2, 2, 3, 3]);
            (format!("f{i}"), gen_type(rng, d))
        })
        .collect();
    for (_, t) in &fields {
        walk_type(t, &mut |t| st.count(&format!("storage_ctor:{}", ctor_name(t))));
    }
    let schema = match build_schema(&fields, 1) {
        Ok(s) => s,
        Err(e) => return st.inconclusive(format!("harness: schema: {e}")),
    };
    let store = Arc::new(InMemory::new());
    let db = match AndaDB::create(store.clone(), db_config(cfg)).await {
        Ok(d) => d,
        Err(e) => return st.inconclusive(format!("harness: db create: {e:?}")),
    };
    let mut coll: Arc<Collection> = match db.create_collection(schema.clone(), coll_config(), async |_| Ok(())).await {
        Ok(c) => c,
        Err(e) => return st.inconclusive(format!("harness: create_collection: {e:?}")),
    };
    let mut schema = coll.schema();
    let mut sc = Sc { label: label.clone(), fields: &fields, history: vec![] };
    let mut model: BTreeMap<u64, Expected> = BTreeMap::new();

    macro_rules! check_get {
        ($id:expr, $what:expr) => {{
            let id: u64 = $id;
            st.count(&format!("storage_get:{label}"));
            match coll.get(id).await {
                Err(e) => {
                    st.violation(
                        format!("{BRICK}/collection_get/valid"),
                        json!({"id": id, "when": $what, "error": format!("{e:?}"),
                            "expected": brief(&model.get(&id), 2500), "context": sc.ctx()}),
                    );
                    false
                }
                Ok(d) => match compare_doc(&d, id, &model[&id], &schema, true) {
                    Ok(()) => {
                        st.count(&format!("storage_roundtrip:{label}"));
                        true
                    }
                    Err(e) => {
                        st.violation(
                            "C13/storage/get_differs_from_written",
                            json!({"id": id, "when": $what, "difference": e, "context": sc.ctx()}),
                        );
                        false
                    }
                },
            }
        }};
    }

    // adds
    let n_docs = 2 + rng.usize(4);
    for _ in 0..n_docs {
        st.eval();
        let mut doc = Document::new(schema.clone());
        doc.set_id(0); // assigned by the collection
        let mut exp = Expected::new();
        let mut g = G { rng: &mut *rng, boundary: false };
        for (name, ft) in &fields {
            if matches!(ft, Ft::Option(_)) && g.rng.chance(1, 4) {
                continue;
            }
            let v = gen_valid(ft, &mut g, false);
            if let Err(e) = doc.set_field(name, v.clone()) {
                st.violation(
                    "C13/valid_rejected/set_field",
                    json!({"monitor": "storage", "type": brief(ft, 800), "value": brief(&v, 1500), "error": format!("{e:?}")}),
                );
                return;
            }
            exp.insert(name.clone(), v);
        }
        sc.history.push(format!("add {}", brief(&exp, 500)));
        match coll.add(doc).await {
            Ok(id) => {
                model.insert(id, exp);
                st.count("storage_adds");
                if !check_get!(id, "after add") {
                    return;
                }
            }
            Err(e) => {
                st.violation(
                    "C13/valid_rejected/collection_add",
                    json!({"error": format!("{e:?}"), "document": brief(&exp, 2500), "context": sc.ctx()}),
                );
                return;
            }
        }
    }
    let ids: Vec<u64> = model.keys().copied().collect();

    // updates with valid values, invalid values, grey values; invalid adds
    let n_ops = 4 + rng.usize(5);
    for _ in 0..n_ops {
        st.eval();
        let id = *rng.pick(&ids);
        let (name, ft) = rng.pick(&fields).clone();
        let mut g = G { rng: &mut *rng, boundary: false };
        let v = gen_valid(&ft, &mut g, false);
        match g.rng.below(10) {
            0..=3 => {
                // valid update of 1..n fields
                let mut upd = BTreeMap::from([(name.clone(), v.clone())]);
                if g.rng.bool() {
                    let (n2, t2) = g.rng.pick(&fields).clone();
                    let v2 = gen_valid(&t2, &mut g, false);
                    upd.insert(n2, v2);
                }
                sc.history.push(format!("update {id} {}", brief(&upd, 500)));
                match coll.update(id, upd.clone()).await {
                    Ok(returned) => {
                        let e = model.get_mut(&id).unwrap();
                        for (k, v) in upd {
                            e.insert(k, v);
                        }
                        st.count("storage_updates");
                        if let Err(d) = compare_doc(&returned, id, &model[&id], &schema, true) {
                            st.violation(
                                "C13/storage/update_result_differs_from_written",
                                json!({"id": id, "difference": d, "context": sc.ctx()}),
                            );
                            return;
                        }
                        if !check_get!(id, "after update") {
                            return;
                        }
                    }
                    Err(e) => {
                        st.violation(
                            "C13/valid_rejected/collection_update",
                            json!({"error": format!("{e:?}"), "update": brief(&upd, 2500), "context": sc.ctx()}),
                        );
                        return;
                    }
                }
            }
            4..=6 => {
                let Some((w, class, _)) = mutate_invalid(&ft, &v, &mut g) else { continue };
                if g.rng.bool() {
                    // rejected update: the stored document stays what it was
                    sc.history.push(format!("invalid update {id} {name} [{class}] {}", brief(&w, 300)));
                    st.count(&format!("storage_invalid:{class}"));
                    match coll.update(id, BTreeMap::from([(name.clone(), w.clone())])).await {
                        Err(_) => st.count("invalid_rejected:collection_update"),
                        Ok(_) => {
                            st.violation(
                                format!("C13/invalid_accepted/collection_update/{class}"),
                                json!({"field": name, "type": brief(&ft, 800), "value": brief(&w, 1500), "context": sc.ctx()}),
                            );
                            // did it brick the document?
                            if let Err(e) = coll.get(id).await {
                                st.violation(
                                    format!("{BRICK}/collection_get/{class}"),
                                    json!({"id": id, "after": "accepted invalid update", "error": format!("{e:?}"), "context": sc.ctx()}),
                                );
                            }
                            return;
                        }
                    }
                    st.count("oracle_rejected_write_leaves_old_document");
                    if !check_get!(id, "after rejected update") {
                        return;
                    }
                } else {
                    // rejected add: a Document built under a lax foreign schema with the same
                    // field layout, handed to this collection
                    let Some(nt) = natural_type(&w) else {
                        st.count("invalid_add_skipped_no_carrier_type");
                        continue;
                    };
                    let lax_fields: Vec<(String, Ft)> = fields
                        .iter()
                        .map(|(n, t)| if *n == name { (n.clone(), nt.clone()) } else { (n.clone(), t.clone()) })
                        .collect();
                    let Ok(lax) = build_schema(&lax_fields, 1) else { continue };
                    let lax = Arc::new(lax);
                    let mut doc = Document::new(lax.clone());
                    doc.set_id(0);
                    let mut ok = doc.set_field(&name, w.clone()).is_ok();
                    for (n, t) in &fields {
                        if *n != name && !matches!(t, Ft::Option(_)) {
                            let x = gen_valid(t, &mut g, false);
                            ok &= doc.set_field(n, x).is_ok();
                        }
                    }
                    if !ok {
                        st.count("invalid_add_skipped_carrier_refused");
                        continue;
                    }
                    let len_before = coll.len();
                    sc.history.push(format!("invalid add {name} [{class}] {}", brief(&w, 300)));
                    st.count(&format!("storage_invalid:{class}"));
                    match coll.add(doc).await {
                        Err(_) => {
                            st.count("invalid_rejected:collection_add");
                            if coll.len() != len_before {
                                st.violation(
                                    "C13/storage/rejected_add_changed_collection",
                                    json!({"len_before": len_before, "len_after": coll.len(), "context": sc.ctx()}),
                                );
                                return;
                            }
                        }
                        Ok(new_id) => {
                            st.violation(
                                format!("C13/invalid_accepted/collection_add/{class}"),
                                json!({"field": name, "type": brief(&ft, 800), "value": brief(&w, 1500), "context": sc.ctx()}),
                            );
                            if let Err(e) = coll.get(new_id).await {
                                st.violation(
                                    format!("{BRICK}/collection_get/{class}"),
                                    json!({"id": new_id, "after": "accepted invalid add", "error": format!("{e:?}"), "context": sc.ctx()}),
                                );
                            }
                            return;
                        }
                    }
                    st.count("oracle_rejected_write_leaves_old_document");
                    if !check_get!(id, "after rejected add") {
                        return;
                    }
                }
            }
            _ => {
                // grey update: no verdict on acceptance; accepted => readable and equal (data)
                let Some((w, class)) = mutate_grey(&ft, &v, &mut g) else { continue };
                sc.history.push(format!("grey update {id} {name} [{class}] {}", brief(&w, 300)));
                match coll.update(id, BTreeMap::from([(name.clone(), w.clone())])).await {
                    Err(_) => st.count("grey_rejected:collection_update"),
                    Ok(returned) => {
                        st.count("grey_accepted:collection_update");
                        st.count(&format!("grey_accepted:collection_update:{class}"));
                        let stored = returned.get_field(&name).cloned();
                        match coll.get(id).await {
                            Err(e) => {
                                st.violation(
                                    format!("{BRICK}/collection_get/{class}"),
                                    json!({"id": id, "class": class, "field": name, "type": brief(&ft, 800),
                                        "value": brief(&w, 1500), "error": format!("{e:?}"), "context": sc.ctx()}),
                                );
                                return;
                            }
                            Ok(d) => {
                                let got = d.get_field(&name).cloned();
                                let same = match (&got, &stored) {
                                    (Some(a), Some(b)) => loose_eq(a, b),
                                    (None, None) => true,
                                    _ => false,
                                };
                                if !same {
                                    st.violation(
                                        "C13/read_back_changed/data/collection_update",
                                        json!({"class": class, "field": name, "accepted": brief(&stored, 1500),
                                            "read_back": brief(&got, 1500), "context": sc.ctx()}),
                                    );
                                    return;
                                }
                                // the model follows what storage now holds (declared variant)
                                match got {
                                    Some(x) => model.get_mut(&id).unwrap().insert(name.clone(), x),
                                    None => model.get_mut(&id).unwrap().remove(&name),
                                };
                            }
                        }
                    }
                }
            }
        }
    }

    // second read of everything (cache hits where the cache is on), then a cold reopen
    for id in &ids {
        if !check_get!(*id, "second read") {
            return;
        }
    }
    if let Err(e) = coll.flush(1).await {
        st.inconclusive(format!("harness: flush failed: {e:?}"));
        return;
    }
    drop(coll);
    if let Err(e) = db.close().await {
        st.inconclusive(format!("harness: close failed: {e:?}"));
        return;
    }
    drop(db);
    // reopen, in half of the cases under an upgraded schema: + optional field, - one field
    let upgrade = rng.bool() && fields.len() >= 2;
    let mut fields2 = fields.clone();
    let mut removed: Option<String> = None;
    if upgrade {
        let i = rng.usize(fields2.len());
        removed = Some(fields2.remove(i).0);
        fields2.push(("later".to_string(), Ft::Option(Box::new(gen_type(rng, 2)))));
        // declaration order in code differs from the persisted one
        fields2.reverse();
    }
    let schema2 = match build_schema(&fields2, if upgrade { 2 } else { 1 }) {
        Ok(s) => s,
        Err(e) => return st.inconclusive(format!("harness: schema2: {e}")),
    };
    let other_cfg = if rng.chance(1, 4) { CONFIGS[rng.usize(4)] } else { cfg };
    let db = match AndaDB::connect(store.clone(), db_config(other_cfg)).await {
        Ok(d) => d,
        Err(e) => {
            st.violation(
                "C13/storage/reopen_failed",
                json!({"error": format!("{e:?}"), "context": sc.ctx()}),
            );
            return;
        }
    };
    coll = match db.open_or_create_collection(schema2, coll_config(), async |_| Ok(())).await {
        Ok(c) => c,
        Err(e) => {
            st.violation(
                if upgrade { "C13/upgrade/permitted_upgrade_refused/collection" } else { "C13/storage/reopen_collection_failed" },
                json!({"error": format!("{e:?}"), "upgrade": upgrade, "removed": removed, "context": sc.ctx()}),
            );
            return;
        }
    };
    schema = coll.schema();
    sc.history.push(format!("reopen (upgrade: {upgrade}, removed: {removed:?}, config: {})", cfg_label(other_cfg)));
    if let Some(r) = &removed {
        for e in model.values_mut() {
            e.remove(r);
        }
        st.count("storage_upgrade_reopens");
    }
    for id in &ids {
        if !check_get!(*id, "after reopen") {
            return;
        }
        st.count("storage_cold_reads");
    }
    if upgrade {
        // an old document is rewritten under the new schema by an update and stays readable
        let id = ids[0];
        let (name, ft) = fields2.iter().find(|(n, _)| n == "later").cloned().unwrap();
        let mut g = G { rng: &mut *rng, boundary: false };
        let v = gen_valid(&ft, &mut g, false);
        match coll.update(id, BTreeMap::from([(name.clone(), v.clone())])).await {
            Ok(_) => {
                model.get_mut(&id).unwrap().insert(name, v);
                if !check_get!(id, "after update under upgraded schema") {
                    return;
                }
                st.count("storage_upgrade_rewrites");
            }
            Err(e) => {
                st.violation(
                    "C13/valid_rejected/collection_update",
                    json!({"after": "schema upgrade", "error": format!("{e:?}"), "context": sc.ctx()}),
                );
                return;
            }
        }
    }
    let _ = db.close().await;
    st.distinct(vcore::fnv_str(&format!("{label}|{}", fields.iter().map(|(_, t)| type_shape(t)).collect::<Vec<_>>().join("|"))));
    st.sample(|| json!({"monitor": "storage", "config": label, "schema": fields.iter().map(|(n, t)| format!("{n}: {}", brief(t, 200))).collect::<Vec<_>>(),
        "ops": sc.history.iter().take(8).map(|h| brief(h, 200)).collect::<Vec<_>>()}));
}

/// Complexity budget through a collection: at-limit documents are stored and come back,
/// over-limit ones are refused and leave the old document in place.
async fn storage_budget_case(case: u64, st: &mut Stats) {
    let cfg = CONFIGS[(case % 4) as usize];
    let label = cfg_label(cfg);
    let ft = Ft::Array(vec![Ft::Array(vec![Ft::U64])]);
    let schema = build_schema(&[("v".to_string(), ft.clone())], 1).unwrap();
    let store = Arc::new(InMemory::new());
    let Ok(db) = AndaDB::create(store, db_config(cfg)).await else {
        return st.inconclusive("harness: db create");
    };
    let Ok(coll) = db.create_collection(schema, coll_config(), async |_| Ok(())).await else {
        return st.inconclusive("harness: create_collection");
    };
    let schema = coll.schema();
    let mk = |lens: &[usize]| Fv::Array(lens.iter().map(|n| Fv::Array((0..*n as u64).map(Fv::U64).collect())).collect());
    let at_limits = [
        ("array_len", mk(&[4096]), mk(&[4097])),
        ("nodes", mk(&[4096, 4096, 4096, 4091]), mk(&[4096, 4096, 4096, 4092])),
    ];
    for (kind, at, over) in at_limits {
        st.eval();
        let mut doc = Document::new(schema.clone());
        doc.set_id(0);
        if let Err(e) = doc.set_field("v", at.clone()) {
            st.violation("C13/valid_rejected/set_field", json!({"monitor": "storage_budget", "kind": kind, "error": format!("{e:?}")}));
            continue;
        }
        let id = match coll.add(doc).await {
            Ok(id) => id,
            Err(e) => {
                st.violation("C13/valid_rejected/collection_add", json!({"monitor": "storage_budget", "kind": kind, "config": label, "error": format!("{e:?}")}));
                continue;
            }
        };
        let check = |d: Result<Document, anda_db::error::DBError>, st: &mut Stats, when: &str| match d {
            Ok(d) if d.get_field("v").map(|x| fv_eq(x, &at)).unwrap_or(false) => {
                st.count(&format!("storage_roundtrip:{label}"));
                st.count(&format!("storage_budget_at_limit_roundtrip:{kind}"));
            }
            Ok(_) => st.violation("C13/storage/get_differs_from_written", json!({"monitor": "storage_budget", "kind": kind, "when": when, "config": label})),
            Err(e) => st.violation(format!("{BRICK}/collection_get/valid"), json!({"monitor": "storage_budget", "kind": kind, "when": when, "config": label, "error": format!("{e:?}")})),
        };
        check(coll.get(id).await, st, "after add");
        match coll.update(id, BTreeMap::from([("v".to_string(), over.clone())])).await {
            Err(_) => {
                st.count("invalid_rejected:collection_update");
                st.count(&format!("storage_budget_over_limit_rejected:{kind}"));
            }
            Ok(_) => st.violation(
                format!("C13/invalid_accepted/collection_update/budget_{kind}"),
                json!({"monitor": "storage_budget", "config": label}),
            ),
        }
        check(coll.get(id).await, st, "after rejected update");
    }
    let _ = db.close().await;
}

/// Large documents (around the 256 KiB chunk size and the 2000 KiB object limit), compressible
/// and incompressible, through add / get / update / cold reopen.
async fn storage_large_case(case: u64, rng: &mut Rng, st: &mut Stats) {
    let cfg = CONFIGS[(case % 4) as usize];
    let label = cfg_label(cfg);
    let fields = vec![("blob".to_string(), Ft::Bytes), ("words".to_string(), Ft::Option(Box::new(Ft::Array(vec![Ft::Text]))))];
    let schema = build_schema(&fields, 1).unwrap();
    let store = Arc::new(InMemory::new());
    let Ok(db) = AndaDB::create(store.clone(), db_config(cfg)).await else {
        return st.inconclusive("harness: db create");
    };
    let Ok(coll) = db.create_collection(schema.clone(), coll_config(), async |_| Ok(())).await else {
        return st.inconclusive("harness: create_collection");
    };
    const K: usize = 1024;
    let sizes = [256 * K - 64, 256 * K - 8, 256 * K, 256 * K + 1, 700 * K, 1990 * K, 1999 * K + 1000, 2001 * K];
    let mut written: Vec<(u64, Fv, Option<Fv>)> = vec![];
    for round in 0..3 {
        st.eval();
        let n = sizes[((case / 4) as usize + round * 3) % sizes.len()];
        let blob = match rng.below(3) {
            0 => rng.bytes(n),
            1 => vec![0u8; n],
            _ => (0..n).map(|i| (i % 251) as u8).collect(),
        };
        let words = if rng.bool() {
            Some(Fv::Array((0..rng.usize(2000)).map(|i| Fv::Text(format!("word{}", i % 17))).collect()))
        } else {
            None
        };
        let mut doc = Document::new(coll.schema());
        doc.set_id(0);
        let blob = Fv::Bytes(blob);
        if doc.set_field("blob", blob.clone()).is_err() || words.as_ref().map(|w| doc.set_field("words", w.clone()).is_err()).unwrap_or(false) {
            st.violation("C13/valid_rejected/set_field", json!({"monitor": "storage_large", "bytes": n}));
            return;
        }
        match coll.add(doc).await {
            Ok(id) => {
                st.count("storage_large_adds");
                st.max("max_large_document_bytes", n as u64);
                written.push((id, blob, words));
            }
            // the documented object size limit: a refusal at write time, nothing to read back
            Err(_) => st.count("storage_large_refused_at_write"),
        }
    }
    let check = async |coll: &Collection, st: &mut Stats, when: &str| {
        for (id, blob, words) in &written {
            match coll.get(*id).await {
                Err(e) => st.violation(
                    format!("{BRICK}/collection_get/valid"),
                    json!({"monitor": "storage_large", "config": label, "when": when, "error": format!("{e:?}"),
                        "blob_len": if let Fv::Bytes(b) = blob { b.len() } else { 0 }}),
                ),
                Ok(d) => {
                    let ok = d.get_field("blob").map(|b| fv_eq(b, blob)).unwrap_or(false)
                        && match (d.get_field("words"), words) {
                            (None, None) => true,
                            (Some(a), Some(b)) => fv_eq(a, b),
                            _ => false,
                        };
                    if ok {
                        st.count("storage_large_roundtrips");
                        st.count(&format!("storage_roundtrip:{label}"));
                    } else {
                        st.violation(
                            "C13/storage/get_differs_from_written",
                            json!({"monitor": "storage_large", "config": label, "when": when,
                                "blob_len": if let Fv::Bytes(b) = blob { b.len() } else { 0 }}),
                        );
                    }
                }
            }
        }
    };
    check(&coll, st, "warm").await;
    let _ = coll.flush(1).await;
    drop(coll);
    let _ = db.close().await;
    drop(db);
    let Ok(db) = AndaDB::connect(store, db_config(cfg)).await else {
        return st.violation("C13/storage/reopen_failed", json!({"monitor": "storage_large"}));
    };
    match db.open_or_create_collection(schema, coll_config(), async |_| Ok(())).await {
        Ok(coll) => check(&coll, st, "cold").await,
        Err(e) => st.violation("C13/storage/reopen_collection_failed", json!({"monitor": "storage_large", "error": format!("{e:?}")})),
    }
    let _ = db.close().await;
}

/// The `vector_untyped_case` scenario through Collection::update / get / remove.
async fn storage_vector_untyped_case(case: u64, rng: &mut Rng, st: &mut Stats) {
    let cfg = CONFIGS[(case % 4) as usize];
    let (ft, v, variant, fits) = vector_in_untyped_value(rng);
    let Ok(schema) = build_schema(&[("v".to_string(), ft.clone())], 1) else {
        return st.inconclusive("harness: schema");
    };
    let Ok(db) = AndaDB::create(Arc::new(InMemory::new()), db_config(cfg)).await else {
        return st.inconclusive("harness: db create");
    };
    let Ok(coll) = db.create_collection(schema, coll_config(), async |_| Ok(())).await else {
        return st.inconclusive("harness: create_collection");
    };
    let mut doc = Document::new(coll.schema());
    doc.set_id(0);
    let mut g = G { rng: &mut *rng, boundary: false };
    let first = gen_valid(&ft, &mut g, false);
    if doc.set_field("v", first.clone()).is_err() {
        return st.inconclusive("harness: seed document refused");
    }
    let Ok(id) = coll.add(doc).await else {
        return st.inconclusive("harness: seed add refused");
    };
    st.eval();
    let detail = |e: String| {
        json!({"id": id, "type": brief(&ft, 300), "value": brief(&v, 400), "variant": variant, "config": cfg_label(cfg), "error": e,
            "note": "the document can no longer be read, updated or removed through the collection"})
    };
    match coll.update(id, BTreeMap::from([("v".to_string(), v.clone())])).await {
        Err(_) => {
            st.count("grey_rejected:collection_update");
            st.count(&format!("storage_vector_untyped:{}:rejected", if fits { "read_back_within_budget" } else { "read_back_over_budget" }));
            // a refused update leaves the stored document as it was
            match coll.get(id).await {
                Ok(d) if d.get_field("v").map(|x| fv_eq(x, &first)).unwrap_or(false) => {
                    st.count("oracle_rejected_write_leaves_old_document")
                }
                Ok(d) => st.violation(
                    "C13/storage/get_differs_from_written",
                    json!({"monitor": "storage_vector_untyped", "when": "after rejected update", "got": brief(&d.get_field("v"), 600), "expected": brief(&first, 600)}),
                ),
                Err(e) => st.violation(format!("{BRICK}/collection_get/valid"), detail(format!("{e:?}"))),
            }
        }
        Ok(_) => {
            st.count(&format!("grey_accepted:collection_update:{VECTOR_UNTYPED}"));
            st.count(&format!("storage_vector_untyped:{}:accepted", if fits { "read_back_within_budget" } else { "read_back_over_budget" }));
            match coll.get(id).await {
                Err(e) => violation_once(st, format!("{BRICK}/collection_get/{VECTOR_UNTYPED}"), detail(format!("{e:?}"))),
                Ok(d) => {
                    if !d.get_field("v").map(|x| loose_eq(x, &v)).unwrap_or(false) {
                        st.violation(
                            "C13/read_back_changed/data/collection_update",
                            json!({"class": VECTOR_UNTYPED, "variant": variant, "read_back": brief(&d.get_field("v"), 600)}),
                        );
                    } else {
                        st.count("storage_vector_untyped_read_back_equal");
                    }
                    // and the document is still removable
                    if let Err(e) = coll.remove(id).await {
                        st.violation(format!("{BRICK}/collection_remove/{VECTOR_UNTYPED}"), detail(format!("{e:?}")));
                    }
                }
            }
        }
    }
    let _ = db.close().await;
}

/// Typed structs through a collection: add_from -> get_as == T (with the assigned id), also cold.
fn typed_storage<T: Typed>(rng: &mut Rng, st: &mut Stats, case: u64) {
    block_on(async {
        let cfg = CONFIGS[((case + vcore::fnv_str(T::NAME)) % 4) as usize];
        let label = cfg_label(cfg);
        let Ok(schema) = T::derived_schema() else { return };
        let store = Arc::new(InMemory::new());
        let Ok(db) = AndaDB::create(store.clone(), db_config(cfg)).await else {
            return st.inconclusive("harness: db create");
        };
        let coll = match db.create_collection(schema.clone(), coll_config(), async |_| Ok(())).await {
            Ok(c) => c,
            Err(e) => return st.inconclusive(format!("harness: create_collection for {}: {e:?}", T::NAME)),
        };
        let mut written: Vec<(u64, T)> = vec![];
        for _ in 0..3 {
            st.eval();
            let mut g = G { rng: &mut *rng, boundary: false };
            let mut t = T::generate(&mut g);
            match coll.add_from(&t).await {
                Err(e) => {
                    st.violation(
                        format!("C13/typed/valid_rejected/collection_add_from/{}", T::NAME),
                        json!({"struct": T::NAME, "value": brief(&t, 2500), "config": label, "error": format!("{e:?}")}),
                    );
                    return;
                }
                Ok(id) => {
                    t.set_id(id);
                    written.push((id, t));
                }
            }
        }
        let check = async |coll: &Collection, st: &mut Stats, when: &str| {
            for (id, t) in &written {
                match coll.get_as::<T>(*id).await {
                    Err(e) => st.violation(
                        format!("{BRICK}/collection_get_as"),
                        json!({"struct": T::NAME, "value": brief(t, 2500), "when": when, "config": label, "error": format!("{e:?}")}),
                    ),
                    Ok(back) => {
                        if &back != t || v_schema::typed::canon_text(&back) != v_schema::typed::canon_text(t) {
                            st.violation(
                                format!("C13/typed/storage_value_changed/{}", T::NAME),
                                json!({"struct": T::NAME, "written": brief(t, 2500), "read": brief(&back, 2500), "when": when, "config": label}),
                            );
                        } else {
                            st.count("typed_storage_roundtrips");
                            st.count(&format!("storage_roundtrip:{label}"));
                        }
                    }
                }
            }
        };
        check(&coll, st, "warm").await;
        let _ = coll.flush(1).await;
        drop(coll);
        let _ = db.close().await;
        drop(db);
        let Ok(db) = AndaDB::connect(store, db_config(cfg)).await else {
            return st.violation("C13/storage/reopen_failed", json!({"struct": T::NAME}));
        };
        match db.open_or_create_collection(schema, coll_config(), async |_| Ok(())).await {
            Ok(coll) => check(&coll, st, "cold").await,
            Err(e) => st.violation("C13/storage/reopen_collection_failed", json!({"struct": T::NAME, "error": format!("{e:?}")})),
        }
        let _ = db.close().await;
    })
}

fn typed_case(case: u64, rng: &mut Rng, st: &mut Stats, n: usize, with_storage: bool) {
    fn one<T: Typed>(rng: &mut Rng, st: &mut Stats, n: usize, with_storage: bool, case: u64) {
        typed_roundtrip::<T>(rng, st, n);
        if with_storage {
            typed_storage::<T>(rng, st, case);
        }
    }
    v_schema::for_each_typed!(one, rng, st, n, with_storage, case);
}

// ---------------------------------------------------------------------------------------------
// Miri (thorough tier): the schema-only oracles on a small seeded workload

/// Runs `c13_miri` under `cargo +nightly miri run` (own target dir). Started at the beginning of
/// the thorough tier on its own thread (Miri interprets on one core) and joined at the end.
fn miri_subprocess(seed: u64, n: u64) -> Stats {
    let mut st = Stats::default();
    let harness = vcore::run::verif_root().join("harness");
    let out = std::process::Command::new("timeout")
        .arg("840")
        .args(["cargo", "+nightly", "miri", "run", "--offline", "-q", "-j", "6", "-p", "v_schema", "--bin", "c13_miri", "--"])
        .arg(format!("{seed}"))
        .arg(format!("{n}"))
        .current_dir(&harness)
        .env("MIRIFLAGS", "-Zmiri-disable-isolation")
        .env("CARGO_TARGET_DIR", harness.join("target-miri"))
        .output();
    match out {
        Err(e) => st.inconclusive(format!("miri could not be started: {e}")),
        Ok(o) => {
            let stdout = String::from_utf8_lossy(&o.stdout).to_string();
            let stderr = String::from_utf8_lossy(&o.stderr).to_string();
            let tail = |s: &str| s.lines().rev().take(40).collect::<Vec<_>>().into_iter().rev().collect::<Vec<_>>().join("\n");
            if stderr.contains("Undefined Behavior") {
                st.violation("C13/miri/undefined_behavior", json!({"report": tail(&stderr)}));
            } else if let Some(line) = stdout.lines().find(|l| l.starts_with("MIRI-C13 done")) {
                let num = |k: &str| {
                    line.split_whitespace().find_map(|w| w.strip_prefix(k).and_then(|v| v.parse::<u64>().ok())).unwrap_or(0)
                };
                st.add("miri_values_checked", num("values="));
                st.add("miri_oracle_evaluations", num("evaluations="));
                for k in ["invalid_mutations", "grey_mutations", "accept_write_implies_accept_read", "stored_bytes_reads",
                    "as_bytes_unsafe_checks", "upgrade_chains", "upgrade_old_doc_reads", "typed_roundtrips", "wall_s"] {
                    st.add(&format!("miri_{k}"), num(&format!("{k}=")));
                }
                if num("violations=") > 0 {
                    st.violation("C13/miri/oracle_violation_under_miri", json!({"stdout": tail(&stdout)}));
                }
                if stdout.contains("MIRI-C13 inconclusive") {
                    st.inconclusive("harness fault inside the Miri workload (see MIRI-C13 inconclusive lines)");
                }
            } else {
                st.inconclusive(format!(
                    "miri run did not complete (exit {:?}): {}",
                    o.status.code(),
                    tail(&stderr).chars().take(600).collect::<String>()
                ));
            }
        }
    }
    st
}

// ---------------------------------------------------------------------------------------------
// the streaming half of the storage layer (`Storage::stream_writer` / `stream_reader` and the
// buffered fetch of a streamed object): the only code of anda_db that contains `unsafe`
// (`streaming_decompress`: `Vec::set_len` after zstd wrote into spare capacity; `BoundedReader`:
// `ReadBuf::assume_init`). Nothing else in the repository calls it, so it gets its own workload;
// the AddressSanitizer / memcheck passes of the thorough tier run exactly this section.

async fn storage_stream_case(case: u64, rng: &mut Rng, st: &mut Stats) {
    use anda_db::storage::Storage;
    use tokio::io::{AsyncReadExt, AsyncWriteExt};
    let compress = [0, 3, 1, 9][(case % 4) as usize];
    let chunk = *rng.pick(&[64 * 1024usize, 256 * 1024, 5 * 1024 * 1024]);
    let small = *rng.pick(&[64 * 1024usize, 2000 * 1024]);
    let cfg = StorageConfig { compress_level: compress, object_chunk_size: chunk, max_small_object_size: small,
        cache_max_capacity: if rng.bool() { 100 } else { 0 }, ..Default::default() };
    let store = Arc::new(InMemory::new());
    let stg = match Storage::connect("c13s".to_string(), store.clone(), cfg.clone()).await {
        Ok(s) => s,
        Err(e) => {
            st.inconclusive(format!("C13 storage_stream: connect failed: {e:?}"));
            return;
        }
    };
    let base = *rng.pick(&[0usize, 1, 100, 4095, 65535, 65536, 65537, 131072, 300_000, 1 << 20, (1 << 21) + 17]);
    let len = if base > 1000 && rng.bool() { base + rng.usize(2000) - 1000 } else { base };
    let kind = rng.below(3);
    let data: Vec<u8> = match kind {
        0 => (0..len).map(|i| (i % 251) as u8).collect(),                 // compressible
        1 => { let mut r = rng.fork(); (0..len).map(|_| r.next_u64() as u8).collect() } // incompressible
        _ => { let mut r = rng.fork(); (0..len).map(|i| if (i / 4096) % 2 == 0 { 7 } else { r.next_u64() as u8 }).collect() }
    };
    st.eval();
    st.count(&format!("stream_compress_level_{compress}"));
    st.count(["stream_data_compressible", "stream_data_incompressible", "stream_data_mixed"][kind as usize]);
    let ctx = |what: &str| json!({"case": case, "len": len, "compress_level": compress, "object_chunk_size": chunk, "max_small_object_size": small, "what": what});
    // a writer dropped without shutdown publishes nothing
    {
        let mut w = stg.stream_writer("dropped");
        let _ = w.write_all(&data[..len.min(1000)]).await;
        drop(w);
        if stg.fetch_bytes("dropped").await.is_ok() {
            st.violation("C13/storage_stream/dropped_writer_published_an_object", ctx("dropped"));
            return;
        }
    }
    // write in pieces of random size, then shutdown
    let mut w = stg.stream_writer("obj");
    let mut off = 0;
    while off < len {
        let cap = *rng.pick(&[1usize, 100, 70_000, 400_000]);
        let n = (1 + rng.usize(cap)).min(len - off);
        if let Err(e) = w.write_all(&data[off..off + n]).await {
            st.violation("C13/storage_stream/write_failed", json!({"error": e.to_string(), "context": ctx("write")}));
            return;
        }
        off += n;
    }
    if let Err(e) = w.shutdown().await {
        st.violation("C13/storage_stream/shutdown_failed", json!({"error": e.to_string(), "context": ctx("shutdown")}));
        return;
    }
    drop(w);
    st.count("stream_objects_written");
    st.add("stream_bytes_written", len as u64);
    // read back through the streaming reader: all at once and in small pieces
    for piece in [0usize, 1 + rng.usize(5000), 1] {
        if piece == 1 && len > 100_000 {
            continue;
        }
        let mut r = match stg.stream_reader("obj").await {
            Ok(r) => r,
            Err(e) => {
                st.violation("C13/storage_stream/stream_reader_failed", json!({"error": format!("{e:?}"), "context": ctx("open reader")}));
                return;
            }
        };
        let mut got = Vec::new();
        let res = if piece == 0 {
            r.read_to_end(&mut got).await.map(|_| ())
        } else {
            let mut buf = vec![0u8; piece];
            loop {
                match r.read(&mut buf).await {
                    Ok(0) => break Ok(()),
                    Ok(n) => got.extend_from_slice(&buf[..n]),
                    Err(e) => break Err(e),
                }
            }
        };
        st.count("oracle_stream_reader_roundtrip");
        if let Err(e) = &res {
            // documented decompression-bomb bound of the streaming reader: 16 x max(on-disk size,
            // max_small_object_size); an object that expands beyond it is refused by design
            let on_disk = {
                use object_store::ObjectStoreExt;
                store.head(&object_store::path::Path::from("c13s/obj")).await.map(|m| m.size).unwrap_or(u64::MAX)
            };
            if (len as u64) > on_disk.saturating_mul(16).max(small as u64 * 16) && e.to_string().contains("exceeds the maximum") {
                st.count("stream_reader_refused_beyond_documented_bomb_bound");
                break;
            }
        }
        if let Err(e) = res {
            st.violation("C13/storage_stream/stream_read_failed", json!({"error": e.to_string(), "piece": piece, "context": ctx("read")}));
            return;
        }
        if got != data {
            st.violation("C13/storage_stream/stream_reader_returned_other_bytes", json!({"piece": piece, "got_len": got.len(),
                "first_difference": got.iter().zip(data.iter()).position(|(a, b)| a != b), "context": ctx("compare")}));
            return;
        }
    }
    // the buffered fetch of the same object (frames written by the streaming encoder carry no
    // content size: this is the path through `streaming_decompress`); bounded by 16 x
    // max_small_object_size - beyond it an error is the documented answer, never other bytes
    st.count("oracle_fetch_bytes_of_streamed_object");
    match stg.fetch_bytes("obj").await {
        Ok((b, _)) => {
            if b.as_ref() != data.as_slice() {
                st.violation("C13/storage_stream/fetch_bytes_returned_other_bytes", json!({"got_len": b.len(), "context": ctx("fetch_bytes")}));
                return;
            }
            if compress > 0 && kind != 1 && len > 100 {
                st.count("fetch_bytes_of_compressed_stream_ok");
            }
        }
        Err(e) => {
            if len <= small * 16 && len <= small {
                st.violation("C13/storage_stream/fetch_bytes_failed_for_a_small_streamed_object", json!({"error": format!("{e:?}"), "context": ctx("fetch_bytes")}));
                return;
            }
            st.count("fetch_bytes_refused_large_streamed_object");
        }
    }
    // overwrite through the stream, cached reads must see the new bytes
    if len > 0 && rng.chance(1, 3) {
        let data2: Vec<u8> = data.iter().rev().copied().collect();
        let mut w = stg.stream_writer("obj");
        if w.write_all(&data2).await.is_ok() && w.shutdown().await.is_ok() {
            drop(w);
            st.count("oracle_stream_overwrite_visible");
            if let Ok((b, _)) = stg.fetch_bytes("obj").await {
                if b.as_ref() != data2.as_slice() {
                    st.violation("C13/storage_stream/stale_bytes_after_stream_overwrite", ctx("overwrite"));
                }
            }
        }
    }
}

fn main() {
    let mut run = Run::from_args(
        "C13",
        "exploration",
        "a case is a (FieldType, FieldValue) pair run through every write path and the stored form; \
         distinct by (type shape hash, value shape hash[, mutation class]); non-trivial = value nesting \
         depth >= 2, or a boundary numeric/size, or an invalid mutation; typed cases distinct by \
         (struct, value) with a boundary value; storage cases by (config, schema shape); upgrade chains by operation log",
    );
    run.assume("valid / invalid are decided from the documented rules (doc comments of field.rs / schema.rs, docs/anda_db_schema.md); read-back grey zones (U64 for I64, F64 for F32, bit-pattern arrays for Vector, anything for Json, untyped positions) are never judged, only 'accepted on write => readable and equal as data'");
    run.assume("an undeclared key of a keyed map in STORED bytes is documented to be pruned on read (removed nested field); write paths must refuse it");
    run.assume("a nested keyed-map key that was removed and later declared again is compared modulo that key (the docs are silent on whether its stale entries resurface); when it is declared again with ANOTHER type and an old document becomes unreadable, the failure is attributed to the known finding only if the same document minus exactly those stale entries is readable");
    run.assume("JSON null directly under Option and Some(None) are plain-serde-indistinguishable from None and are not generated as valid");
    let t = run.tier;
    let miri = if t == vcore::Tier::Thorough && run.wants("miri") && run.replay.is_none() {
        let (seed, n) = (run.seed, run.arg_u64("miri_values", 20));
        Some(std::thread::spawn(move || miri_subprocess(seed, n)))
    } else {
        None
    };
    if run.wants("pairs") {
        run.parallel("pairs", t.pick(40_000, 4_000_000), 0.45, pair_case);
    }
    if run.wants("budget") {
        run.parallel("budget", t.pick(140, 2_800), 0.2, budget_case);
    }
    if run.wants("typed") {
        run.parallel("typed", t.pick(96, 6_000), 0.3, |c, rng, st| typed_case(c, rng, st, t.pick(6, 12), c % 4 == 0));
    }
    if run.wants("upgrade") {
        run.parallel("upgrade", t.pick(3_000, 250_000), 0.35, |c, rng, st| upgrade_case(c, rng, st, false));
        // own section (it reproduces the known finding "nested key re-declared with another type",
        // reported once per run; every other unreadable document keeps the general signature)
        run.parallel("upgrade_nested_retype", t.pick(300, 6_000), 0.2, |c, rng, st| upgrade_case(c, rng, st, true));
    }
    if run.wants("storage") {
        run.parallel("storage", t.pick(4_000, 400_000), 0.6, |c, rng, st| block_on(storage_case(c, rng, st)));
        run.parallel("storage_budget", t.pick(8, 200), 0.5, |c, _rng, st| block_on(storage_budget_case(c, st)));
        run.parallel("storage_large", t.pick(16, 400), 0.5, |c, rng, st| block_on(storage_large_case(c, rng, st)));
    }
    if run.wants("storage_stream") {
        let n = if run.arg_u64("memcheck", 0) == 1 { 24 } else { t.pick(160, 6_000) };
        run.parallel("storage_stream", n, 0.5, |c, rng, st| {
            // this section hands only legal arguments to the repository's streaming API and to
            // tokio's own read / write helpers on top of it: a panic anywhere below (also one that
            // tokio raises later because a ReadBuf was left in an impossible state) is the
            // repository's fault, not a harness fault
            let r = std::panic::catch_unwind(std::panic::AssertUnwindSafe(|| {
                let mut local = Stats::default();
                block_on(storage_stream_case(c, rng, &mut local));
                local
            }));
            match r {
                Ok(local) => st.merge(local),
                Err(p) => {
                    let loc = vcore::run::take_last_panic_location();
                    st.violation("C13/storage_stream/panicked", json!({"case": c, "panic": vcore::run::panic_message(&p), "location": loc}));
                }
            }
        });
    }
    if run.wants("vector_untyped") {
        // Vector in an untyped position around the three limits of its read-back shape (regression
        // sections of the fixed finding "counted as one node on write, as an array on read")
        run.parallel("vector_untyped", t.pick(96, 640), 0.3, vector_untyped_case);
        run.parallel("storage_vector_untyped", t.pick(48, 320), 0.3, |c, rng, st| block_on(storage_vector_untyped_case(c, rng, st)));
    }
    if let Some(h) = miri {
        match h.join() {
            Ok(st) => run.stats.merge(st),
            Err(_) => run.stats.inconclusive("miri driver thread panicked"),
        }
        run.floor("miri_values_checked", 16);
        run.floor("miri_oracle_evaluations", 40);
    }

    // evidence floors
    for c in [
        "Bool", "I64", "U64", "F64", "F32", "Bytes", "Text", "Json", "Vector", "Option", "ArrayUntyped",
        "ArrayHomogeneous", "ArrayTuple", "MapUntyped", "MapWildcardText", "MapWildcardI64", "MapWildcardBytes", "MapKeyed",
    ] {
        run.floor(&format!("ctor:{c}"), 200);
        run.floor(&format!("storage_ctor:{c}"), 10);
    }
    for c in [
        "wrong_family", "null_non_option", "nan", "f64_out_of_f32_range", "negative_for_u64", "u64_overflow_i64",
        "vector_bits_overflow", "tuple_arity_minus", "tuple_arity_plus", "wildcard_key_variant", "keyed_map_extra_key",
        "keyed_map_missing_key",
    ] {
        run.floor(&format!("invalid:{c}"), 40);
    }
    for k in ["array_len", "map_entries", "nodes", "depth", "json_array_len", "json_object_entries", "untyped_array_len"] {
        run.floor(&format!("budget_at_limit_accepted:{k}"), 3);
        run.floor(&format!("budget_over_limit_rejected:{k}"), 3);
    }
    for d in 1..=4 {
        run.floor(&format!("invalid_depth:{d}"), 30);
    }
    run.floor("pairs_valid", 5_000);
    run.floor("pairs_invalid", 4_000);
    run.floor("pairs_grey", 1_000);
    run.floor("grey_accepted:set_field", 300);
    run.floor("grey_accepted:try_from", 300);
    run.floor("grey_accepted:stored_bytes", 300);
    run.floor("invalid_rejected:set_field", 4_000);
    run.floor("invalid_rejected:try_from", 4_000);
    run.floor("oracle_accept_write_implies_accept_read", 10_000);
    run.floor("extra_key_pruned_on_read", 20);
    run.floor("typed_roundtrips", 2_000);
    run.floor_set("typed_structs_roundtripped", v_schema::typed::N_TYPED);
    run.floor("oracle_derived_schema_matches_documented_table", v_schema::typed::N_TYPED as u64);
    run.floor("typed_storage_roundtrips", 200);
    for c in CONFIGS {
        run.floor(&format!("storage_roundtrip:{}", cfg_label(c)), 500);
    }
    run.floor("storage_updates", 500);
    run.floor("oracle_stream_reader_roundtrip", 200);
    run.floor("oracle_fetch_bytes_of_streamed_object", 100);
    run.floor("fetch_bytes_of_compressed_stream_ok", 20);
    run.floor("storage_large_roundtrips", 40);
    run.floor("storage_large_refused_at_write", 1);
    run.floor("storage_cold_reads", 1_000);
    run.floor("invalid_rejected:collection_update", 300);
    run.floor("invalid_rejected:collection_add", 200);
    run.floor("oracle_rejected_write_leaves_old_document", 500);
    run.floor("grey_accepted:collection_update", 50);
    run.floor("storage_upgrade_reopens", 100);
    run.floor("storage_budget_at_limit_roundtrip:nodes", 4);
    // Vector in an untyped position: both sides of the read-back budget were exercised, and the
    // accept-write => accept-read oracle was not vacuous (something within budget was accepted)
    run.floor("grey:vector_in_untyped_position", 64);
    run.floor_set("vector_untyped_variants", 30);
    run.floor("vector_untyped:read_back_within_budget:accepted", 8);
    run.floor("storage_vector_untyped:read_back_within_budget:accepted", 4);
    run.floor("storage_vector_untyped_read_back_equal", 4);
    run.floor("storage_budget_over_limit_rejected:array_len", 4);
    run.floor("upgrade_chains", 500);
    run.floor("upgrades_applied", 1_500);
    run.floor("upgrade_old_doc_reads", 5_000);
    run.floor("oracle_upgrade_surviving_field_equal", 5_000);
    run.floor("oracle_upgrade_later_field_absent", 1_000);
    for op in [
        "add_optional_field", "remove_field", "readd_removed_name", "nested_add_optional_key", "nested_remove_key",
        "nested_readd_key_same_type", "nested_readd_key_other_type",
    ] {
        run.floor(&format!("upgrade_op:{op}"), 30);
    }
    for k in [
        "type_change", "optionality_change", "new_required_field", "version_not_greater", "unique_flag_flip",
        "nested_key_type_change", "nested_new_required_key", "array_arity_change", "wildcard_to_keyed",
    ] {
        run.floor(&format!("forbidden_upgrade:{k}"), 10);
    }
    let _ = (FieldEntry::new("x".into(), Ft::Bool), FieldKey::I64(0));
    run.finish();
}

#!/usr/bin/env bash
# usage: tools/seeded_import.sh <Cxx> [srcroot=/tmp/seedout] [offset=0]
# copies <srcroot>/<Cxx>/<i>/ to /verif/seeded/<Cxx>-<i+offset>/ and normalises demo_cmd
set -u
P="$1"; SRC="${2:-/tmp/seedout}"; OFF="${3:-0}"
for d in "$SRC/$P"/*/; do
  i=$(basename "$d"); [ -f "$d/patch.diff" ] || continue
  dst=/verif/seeded/$P-$((i+OFF)); mkdir -p "$dst"; cp -r "$d"/* "$dst"/
  python3 - "$dst/meta.json" <<'PY'
import json,sys,re
p=sys.argv[1]; m=json.load(open(p))
c=m.get("demo_cmd","")
c=re.split(r"\s{2,}\(|\s+\(optional|\s+#", c)[0].strip()
m["demo_cmd"]=c
json.dump(m,open(p,"w"),indent=1)
print(p, "->", c)
PY
done

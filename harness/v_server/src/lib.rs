//! Shared fixtures of the v_server monitors.

#!/usr/bin/env bash
# usage: tools/thorough_sweep.sh [seed] [ids...]   runs ./check <id> thorough for every id, one after the other
cd "$(dirname "$0")/.."
SEED="${1:-20260925}"; shift || true
IDS=("$@"); [ ${#IDS[@]} -eq 0 ] && IDS=(C10 C11 C13 C05 C07 C12 C01 C09 C17 C02 C03 C04 C06 C08 C14 C15 C16 C18 C19 C20)
mkdir -p logs
for c in "${IDS[@]}"; do
  T0=$(date +%s)
  VERIF_SEED=$SEED ./check "$c" thorough > "logs/thorough-$c-$SEED.out" 2>&1
  RC=$?
  echo "$(date +%H:%M) $c seed=$SEED exit=$RC wall=$(( $(date +%s) - T0 ))s viol=$(grep -c '^VIOLATION' logs/thorough-$c-$SEED.out) $(grep -E '^INCONCLUSIVE' logs/thorough-$c-$SEED.out | head -2 | tr '\n' ' ') $(grep -E '^\[C|\[tsan\]|\[asan\]|\[memcheck\]|\[miri\]' logs/thorough-$c-$SEED.out | tr '\n' ' ' | cut -c1-400)"
done

//! The repository's own KIP texts, read at run time from the checkout: fenced `kip` / `prolog`
//! blocks of the markdown documents, the conformance fixtures, the cross-implementation parity
//! fixture and every string literal of the crate's tests / parser sources that starts with a
//! KIP verb. Some of them are fragments or deliberately invalid: the monitors count how many
//! parse and use all of them as seeds.

use std::collections::BTreeSet;
use std::path::{Path, PathBuf};

#[derive(Clone, Debug)]
pub struct Item {
    pub source: String,
    pub text: String,
}

pub const VERBS: &[&str] = &[
    "FIND", "MUTATE", "CREATE", "UPSERT", "ENSURE", "ASSERT", "UPDATE", "RETRACT", "SUPERSEDE", "CORRECT",
    "TRANSITION", "SET", "ARCHIVE", "TOMBSTONE", "PURGE", "MERGE", "DESCRIBE", "LIST", "SEARCH", "VERIFY",
    "VALIDATE", "PREVIEW", "HISTORY", "CHANGES", "SNAPSHOT", "EXPORT",
];

pub fn repo_root() -> PathBuf {
    std::env::var_os("VERIF_REPO").map(PathBuf::from).unwrap_or_else(|| PathBuf::from("/repo"))
}

fn starts_with_verb(text: &str) -> bool {
    // skip leading whitespace and comments
    let mut rest = text.trim_start();
    while rest.starts_with("//") {
        rest = match rest.find('\n') {
            Some(i) => rest[i + 1..].trim_start(),
            None => "",
        };
    }
    let word: String = rest.chars().take_while(|c| c.is_ascii_alphabetic()).collect();
    VERBS.contains(&word.to_ascii_uppercase().as_str()) && word.len() < rest.len()
}

fn fenced_blocks(markdown: &str, langs: &[&str]) -> Vec<(String, String)> {
    let mut out = vec![];
    let mut cur: Option<(String, String)> = None;
    for line in markdown.lines() {
        match &mut cur {
            Some((_, body)) => {
                if line.trim() == "```" {
                    out.push(cur.take().unwrap());
                } else {
                    body.push_str(line);
                    body.push('\n');
                }
            }
            None => {
                let t = line.trim();
                if let Some(lang) = t.strip_prefix("```") {
                    if langs.contains(&lang) {
                        cur = Some((lang.to_string(), String::new()));
                    }
                }
            }
        }
    }
    out
}

fn json_strings(v: &serde_json::Value, key: Option<&str>, out: &mut Vec<String>) {
    match v {
        serde_json::Value::String(s) => {
            if matches!(key, Some("command") | Some("setup")) {
                out.push(s.clone());
            }
        }
        serde_json::Value::Array(a) => {
            for x in a {
                json_strings(x, key, out);
            }
        }
        serde_json::Value::Object(m) => {
            for (k, x) in m {
                json_strings(x, Some(k.as_str()), out);
            }
        }
        _ => {}
    }
}

/// String literals of a Rust source file: raw strings verbatim, ordinary ones unescaped.
fn rust_strings(src: &str) -> Vec<String> {
    let b: Vec<char> = src.chars().collect();
    let mut out = vec![];
    let mut i = 0;
    while i < b.len() {
        let c = b[i];
        // line comments: skip (doc examples are picked up separately below)
        if c == '/' && i + 1 < b.len() && b[i + 1] == '/' {
            while i < b.len() && b[i] != '\n' {
                i += 1;
            }
            continue;
        }
        if c == 'r' && i + 1 < b.len() && (b[i + 1] == '#' || b[i + 1] == '"') {
            let mut j = i + 1;
            let mut hashes = 0;
            while j < b.len() && b[j] == '#' {
                hashes += 1;
                j += 1;
            }
            if j < b.len() && b[j] == '"' {
                let start = j + 1;
                let mut k = start;
                'scan: while k < b.len() {
                    if b[k] == '"' {
                        let mut h = 0;
                        while h < hashes && k + 1 + h < b.len() && b[k + 1 + h] == '#' {
                            h += 1;
                        }
                        if h == hashes {
                            out.push(b[start..k].iter().collect());
                            i = k + 1 + hashes;
                            break 'scan;
                        }
                    }
                    k += 1;
                }
                if k >= b.len() {
                    i = b.len();
                }
                continue;
            }
        }
        if c == '\'' {
            // char literal or lifetime: skip a quoted char conservatively
            if i + 2 < b.len() && b[i + 1] == '\\' {
                i += 4;
                continue;
            }
            if i + 2 < b.len() && b[i + 2] == '\'' {
                i += 3;
                continue;
            }
            i += 1;
            continue;
        }
        if c == '"' {
            let mut s = String::new();
            let mut k = i + 1;
            while k < b.len() && b[k] != '"' {
                if b[k] == '\\' && k + 1 < b.len() {
                    match b[k + 1] {
                        'n' => s.push('\n'),
                        't' => s.push('\t'),
                        'r' => s.push('\r'),
                        '0' => s.push('\0'),
                        '\n' => {
                            // line continuation
                            k += 2;
                            while k < b.len() && b[k].is_whitespace() {
                                k += 1;
                            }
                            continue;
                        }
                        'u' => {
                            // \u{..}
                            let mut m = k + 2;
                            let mut hex = String::new();
                            if m < b.len() && b[m] == '{' {
                                m += 1;
                                while m < b.len() && b[m] != '}' {
                                    hex.push(b[m]);
                                    m += 1;
                                }
                                if let Some(ch) = u32::from_str_radix(&hex, 16).ok().and_then(char::from_u32) {
                                    s.push(ch);
                                }
                                k = m + 1;
                                continue;
                            }
                        }
                        other => s.push(other),
                    }
                    k += 2;
                } else {
                    s.push(b[k]);
                    k += 1;
                }
            }
            out.push(s);
            i = k + 1;
            continue;
        }
        i += 1;
    }
    out
}

fn read(p: &Path) -> Option<String> {
    std::fs::read_to_string(p).ok()
}

fn files_in(dir: &Path, ext: &str) -> Vec<PathBuf> {
    let mut v: Vec<PathBuf> = std::fs::read_dir(dir)
        .map(|rd| {
            rd.filter_map(|e| e.ok().map(|e| e.path()))
                .filter(|p| p.extension().and_then(|e| e.to_str()) == Some(ext))
                .collect()
        })
        .unwrap_or_default();
    v.sort();
    v
}

/// Loads the corpus; `missing` lists sources that could not be read (the caller turns that into
/// an inconclusive verdict rather than silently testing less).
pub fn load(missing: &mut Vec<String>) -> Vec<Item> {
    let root = repo_root();
    let kip = root.join("rs/anda_kip");
    let mut items: Vec<Item> = vec![];
    let mut seen: BTreeSet<String> = BTreeSet::new();
    let mut add = |source: String, text: String, items: &mut Vec<Item>| {
        if text.trim().is_empty() || text.len() > 64 * 1024 {
            return;
        }
        if seen.insert(text.clone()) {
            items.push(Item { source, text });
        }
    };

    // 1. markdown documents
    let mds = files_in(&kip, "md");
    if mds.is_empty() {
        missing.push(format!("no markdown documents under {}", kip.display()));
    }
    for md in mds {
        let name = md.file_name().unwrap().to_string_lossy().to_string();
        let Some(txt) = read(&md) else {
            missing.push(md.display().to_string());
            continue;
        };
        for (lang, body) in fenced_blocks(&txt, &["kip", "prolog"]) {
            add(format!("md:{name}:{lang}"), body, &mut items);
        }
        // commands embedded in request examples
        for (_, body) in fenced_blocks(&txt, &["json", "jsonc"]) {
            if let Ok(v) = serde_json::from_str::<serde_json::Value>(&body) {
                let mut cmds = vec![];
                json_strings(&v, None, &mut cmds);
                for c in cmds {
                    add(format!("md:{name}:json-command"), c, &mut items);
                }
            }
        }
    }

    // 2. conformance fixtures
    let fx = root.join("fixtures/kip-conformance-2.0");
    let fxs = files_in(&fx, "json");
    if fxs.is_empty() {
        missing.push(format!("no fixtures under {}", fx.display()));
    }
    for f in fxs {
        let name = f.file_name().unwrap().to_string_lossy().to_string();
        match read(&f).and_then(|t| serde_json::from_str::<serde_json::Value>(&t).ok()) {
            Some(v) => {
                let mut cmds = vec![];
                json_strings(&v, None, &mut cmds);
                for c in cmds {
                    add(format!("fixture:{name}"), c, &mut items);
                }
            }
            None => missing.push(f.display().to_string()),
        }
    }

    // 3. parity fixture
    let parity = kip.join("tests/fixtures/kip_lang_ast.json");
    match read(&parity).and_then(|t| serde_json::from_str::<serde_json::Value>(&t).ok()) {
        Some(v) => {
            let mut cmds = vec![];
            json_strings(&v, None, &mut cmds);
            for c in cmds {
                add("parity:kip_lang_ast.json".into(), c, &mut items);
            }
        }
        None => missing.push(parity.display().to_string()),
    }

    // 4. string literals of tests and parser sources (incl. the proptest / fuzz seeds)
    let mut rs_files = vec![kip.join("src/parser.rs"), kip.join("src/request.rs"), kip.join("src/executor.rs"), kip.join("src/lib.rs")];
    rs_files.extend(files_in(&kip.join("src/parser"), "rs"));
    rs_files.extend(files_in(&kip.join("tests"), "rs"));
    rs_files.extend(files_in(&kip.join("fuzz/fuzz_targets"), "rs"));
    rs_files.extend(files_in(&root.join("rs/anda_cognitive_nexus/tests"), "rs"));
    rs_files.extend(files_in(&root.join("rs/anda_cognitive_nexus/src/kml"), "rs"));
    rs_files.extend(files_in(&root.join("rs/anda_cognitive_nexus/src/kql"), "rs"));
    for f in rs_files {
        let name = f.strip_prefix(&root).unwrap_or(&f).display().to_string();
        let Some(txt) = read(&f) else {
            if name.contains("anda_kip/src/parser") || name.contains("anda_kip/tests") {
                missing.push(name);
            }
            continue;
        };
        for s in rust_strings(&txt) {
            if starts_with_verb(&s) {
                add(format!("rs:{name}"), s, &mut items);
            }
        }
        // doc-comment examples: ```rust blocks inside `///` comments carry raw strings too
        let docs: String = txt
            .lines()
            .filter_map(|l| l.trim_start().strip_prefix("///").or_else(|| l.trim_start().strip_prefix("//!")))
            .map(|l| format!("{l}\n"))
            .collect();
        for s in rust_strings(&docs) {
            if starts_with_verb(&s) {
                add(format!("rsdoc:{name}"), s, &mut items);
            }
        }
    }
    items
}

//! C11 - monitor not built yet.
fn main() {
    println!("INCONCLUSIVE property=C11 monitor not built yet");
    std::process::exit(2);
}

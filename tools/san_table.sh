# Which sanitizer / interpreter passes run after the native thorough run of a property.
# One word per pass: engine:sections:budget_s
#   tsan     = ThreadSanitizer build (nightly, -Zbuild-std) of the property's own binary, restricted to its
#              multi-threaded sections
#   asan     = AddressSanitizer build of the property's own binary, restricted to the sections that reach
#              unsafe code / C libraries through Rust
#   memcheck = valgrind memcheck on the plain release binary (covers the C side: zstd, croaring), one thread
#   miri     = `cargo +nightly miri run` of the pure-Rust companion binary <bin>_miri in package v_miri
san_passes() {
  case "$1" in
    C05) echo "tsan:stress:120" ;;
    C07) echo "tsan:mt:120" ;;
    C10) echo "tsan:stress,sched:120 miri:-:0" ;;
    C11) echo "tsan:stress,sched:120 miri:-:0" ;;
    C12) echo "tsan:stress:120" ;;
    *) echo "" ;;
  esac
}

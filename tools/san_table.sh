# Which sanitizer / interpreter passes run after the native thorough run of a property.
# One word per pass: engine:sections:budget_s
#   tsan     = ThreadSanitizer build (nightly, -Zbuild-std) of the property's own binary, restricted to its
#              multi-threaded sections
#   asan     = AddressSanitizer build of the property's own binary, restricted to the sections that reach
#              unsafe code / C libraries through Rust
#   memcheck = valgrind memcheck on the plain release binary (covers the C side: zstd, croaring), one thread
#   miri     = `cargo +nightly miri run` of the pure-Rust companion binary <bin>_miri in package v_miri
# Where the unsafe code / C boundary is: anda_db/src/storage.rs `try_decompress` (Vec::set_len after zstd; every
# get of a compressed object: C01 workloads with compress_level 3, C13 storage sections) and the aes-gcm chunk
# decryption of EncryptedStore incl. ranged reads (C09 tamper/leak; C01 "Enc" backends). C01 has a single section,
# its binary ignores --only (the name is only a label there). The second unsafe block of storage.rs
# (BoundedReader: ReadBuf::assume_init) is reachable only through Storage::stream_reader, which neither the
# repository's non-test code nor any harness binary calls: not covered by any pass.
# UPDATE: both unsafe blocks of rs/anda_db/src/storage.rs (streaming_decompress: Vec::set_len after zstd;
# BoundedReader: ReadBuf::assume_init) are reached by C13's section `storage_stream` (Storage::stream_writer ->
# stream_reader / fetch_bytes), which nothing else in the repository or harness calls; the asan and memcheck
# passes of C13 run exactly that section (plus the collection storage path under asan).
san_passes() {
  case "$1" in
    C01) echo "asan:workloads:45 memcheck:workloads:60" ;;
    C05) echo "tsan:stress,ext_threads:150" ;;
    C07) echo "tsan:mt:120" ;;
    C09) echo "asan:tamper,leak:60 memcheck:tamper:60" ;;
    C10) echo "tsan:stress,sched:120 miri:-:0" ;;
    C11) echo "tsan:stress,sched:120 miri:-:0" ;;
    C12) echo "tsan:stress:120" ;;
    C13) echo "asan:storage,storage_stream:60 memcheck:storage_stream:150" ;;
    C17) echo "tsan:vis:120" ;;
    *) echo "" ;;
  esac
}

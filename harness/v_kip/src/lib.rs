//! Shared fixtures of the v_kip monitors.

#!/usr/bin/env python3
"""Validates MANIFEST.json and every evidence file against the schemas (python3-vt has jsonschema)."""
import json, sys, glob, jsonschema
m=json.load(open('/verif/MANIFEST.json')); s=json.load(open('/root/.vp/MANIFEST.schema.json'))
jsonschema.validate(m,s); print("manifest ok:", len(m['checks']), "checks,", len(m.get('not_applicable',[])), "n/a")
es=json.load(open('/root/.vp/EVIDENCE.schema.json'))
for f in sorted(glob.glob('/verif/evidence/*.json')):
    e=json.load(open(f)); jsonschema.validate(e,es)
    c=e['coverage']; print(" ", f.split('/')[-1], e['tier'], "evals", c.get('evaluations'), "distinct", c.get('distinct_nontrivial'), c.get('verdict'))

//! C16 - No accepted KIP mutation can touch engine-owned or immutable state.
//!
//! (1) A finite matrix clause family x target kind x assignment block x field name x spelling,
//! rendered to text, enumerated completely and parsed; (2) every accepted tree is walked by an
//! independent visitor (`v_kip::walker`) that must find nothing; (3) every accepted tree is
//! serialised, mutated at the JSON level (protected key, duplicate handle, dropped binding, BELIEF
//! selector, changed target kind, missing confirmation, ...) and fed to `validate_command`: what
//! that accepts must satisfy the walker too; (4) the ASSERT shorthand is compared with a
//! harness-side expansion; (5) generated multi-clause plans with handle graphs; (6) a sanity set of
//! hand-made bad trees proves that every walker rule can fire.

use anda_kip::{
    Assignments, BoundValue, Command, ElementRef, EnsureProposition, KipValue, KmlStatement, MutationClause, MutationValue,
    PROTECTED_FIELDS, Scalar, SymbolRef, UpdateAction, parse_kip, parse_kml, validate_command,
};
use std::collections::{BTreeMap, BTreeSet};
use v_kip::generate::{self, Gen};
use v_kip::walker::{self, ASSERTION_PAYLOAD, ENGINE_OWNED, EVIDENCE_PAYLOAD, Finding, Measured, PROPOSITION_PAYLOAD};
use vcore::{Rng, Run, Stats, Value, fnv_str, json};

// ---------------------------------------------------------------------------------------------
// the matrix

#[derive(Clone, Debug)]
struct Cell {
    family: &'static str,
    block: &'static str,
    kind: &'static str,
    name: &'static str,
    spelling: &'static str,
    wrap: &'static str,
    text: String,
}

const ORDINARY: &[&str] = &["name", "note", "x"];
/// names the parser additionally treats as Assertion payload aliases (enumerated, not judged)
const ALIASES: &[&str] = &["proposition_id", "evidence_refs"];

fn all_names() -> Vec<&'static str> {
    let mut v: Vec<&'static str> = vec![];
    v.extend(ENGINE_OWNED);
    v.extend(PROPOSITION_PAYLOAD);
    v.extend(ASSERTION_PAYLOAD);
    v.extend(EVIDENCE_PAYLOAD);
    v.extend(ALIASES);
    v.extend(ORDINARY);
    v
}

fn capitalized(n: &str) -> String {
    // first alphabetic character upper-cased: `_System`, `Governance`
    let mut done = false;
    n.chars()
        .map(|c| {
            if !done && c.is_ascii_alphabetic() {
                done = true;
                c.to_ascii_uppercase()
            } else {
                c
            }
        })
        .collect()
}

fn escaped(n: &str) -> String {
    // JSON \u escape of the first character: decodes to the same key
    let mut c = n.chars();
    let first = c.next().unwrap_or('x');
    format!("\\u{:04x}{}", first as u32, c.as_str())
}

/// (spelling name, body of an assignment block `{...}`), `t` = target variable when there is one.
fn assignment_spellings(n: &str, t: Option<&str>) -> Vec<(&'static str, String)> {
    let mut v = vec![
        ("bare-first", format!("{{ {n}: 1, a: 2, b: 3 }}")),
        ("bare-middle", format!("{{ a: 2, {n}: 1, b: 3 }}")),
        ("bare-last", format!("{{ a: 2, b: 3, {n}: 1 }}")),
        ("bare-trailing-comma", format!("{{ {n}: 1, }}")),
        ("bare-compact", format!("{{{n}:1}}")),
        ("quoted", format!("{{ \"{n}\": 1 }}")),
        ("quoted-last", format!("{{ a: 2, \"{n}\": 1 }}")),
        ("quoted-unicode-escape", format!("{{ \"{}\": 1 }}", escaped(n))),
        ("upper-case", format!("{{ {}: 1 }}", n.to_ascii_uppercase())),
        ("capitalized", format!("{{ {}: 1 }}", capitalized(n))),
        ("whitespace-and-comments", format!("{{ // c \" {{\n\t {n} // ( [\n : // c\n 1 // c\n }}")),
        ("quoted-padded", format!("{{ \" {n}\": 1, \"{n} \": 2 }}")),
        ("nested-object-key", format!("{{ a: {{ {n}: 1 }} }}")),
        ("nested-array-object-key", format!("{{ a: [ {{ \"{n}\": :p }} ] }}")),
        ("quoted-dotted-prefix", format!("{{ \"{n}.version\": 1 }}")),
        ("quoted-dotted-suffix", format!("{{ \"attributes.{n}\": 1 }}")),
        ("value-param", format!("{{ {n}: :p }}")),
        ("value-expression", format!("{{ {n}: ADD(1, 2) }}")),
        ("value-object", format!("{{ {n}: {{ version: 9 }} }}")),
        ("value-null", format!("{{ {n}: null }}")),
        ("duplicate-key", format!("{{ {n}: 1, {n}: 2 }}")),
        ("as-string-value", format!("{{ a: \"{n}\" }}")),
    ];
    if let Some(t) = t {
        v.push(("as-expression-operand", format!("{{ a: ADD(?{t}.{n}, 1) }}")));
        v.push(("as-own-field-read", format!("{{ a: ?{t}.{n}.version }}")));
        v.push(("as-key-step-read", format!("{{ a: COALESCE(?{t}[\"{n}\"], 0) }}")));
    }
    v
}

fn unset_spellings(n: &str) -> Vec<(&'static str, String)> {
    vec![
        ("bare-first", format!("{{ {n}, a, b }}")),
        ("bare-middle", format!("{{ a, {n}, b }}")),
        ("bare-last", format!("{{ a, b, {n} }}")),
        ("bare-trailing-comma", format!("{{ {n}, }}")),
        ("bare-compact", format!("{{{n}}}")),
        ("quoted", format!("{{ \"{n}\" }}")),
        ("quoted-unicode-escape", format!("{{ \"{}\" }}", escaped(n))),
        ("upper-case", format!("{{ {} }}", n.to_ascii_uppercase())),
        ("capitalized", format!("{{ {} }}", capitalized(n))),
        ("whitespace-and-comments", format!("{{ // c \" {{\n\t {n} // ( [\n }}")),
        ("quoted-padded", format!("{{ \" {n}\", \"{n} \" }}")),
        ("quoted-dotted-prefix", format!("{{ \"{n}.version\" }}")),
        ("duplicate-key", format!("{{ {n}, {n} }}")),
    ]
}

/// Target kinds: (name, target text, WHERE text or "").
fn target_kinds() -> Vec<(&'static str, &'static str, &'static str)> {
    vec![
        ("direct-param", ":id", ""),
        ("direct-string", "\"E-1\"", ""),
        ("direct-param-with-guard-where", ":id", "WHERE { ?g ASSERTION {stance: \"support\"} }"),
        ("concept-bare", "?t", "WHERE { ?t {type: \"T\"} }"),
        ("concept-keyword", "?t", "WHERE { ?t CONCEPT {type: \"T\"} }"),
        ("proposition-keyword", "?t", "WHERE { ?t PROPOSITION (?s, \"p\", ?o) }"),
        ("proposition-bare", "?t", "WHERE { ?t (?s, \"p\", ?o) }"),
        ("proposition-id", "?t", "WHERE { ?t (id: :pid) }"),
        ("assertion", "?t", "WHERE { ?t ASSERTION {stance: \"support\"} }"),
        ("assertion-lower-case-keyword", "?t", "WHERE { ?t assertion {} }"),
        ("evidence", "?t", "WHERE { ?t EVIDENCE {evidence_class: \"tool_result\"} }"),
        ("activity", "?t", "WHERE { ?t ACTIVITY {status: \"running\"} }"),
        ("untyped-tuple-object", "?t", "WHERE { ?e {type: \"T\"} (?e, \"p\", ?t) }"),
        ("untyped-structural-object", "?t", "WHERE { STRUCTURAL (?e, \"has_step\", ?t) }"),
        ("assertion-after-filter", "?t", "WHERE { FILTER(?t.confidence > 0) ?t ASSERTION {} }"),
        ("assertion-in-optional-only", "?t", "WHERE { ?x {type: \"T\"} OPTIONAL { ?t ASSERTION {} } }"),
        ("assertion-in-not-only", "?t", "WHERE { ?x {type: \"T\"} NOT { ?t ASSERTION {} } }"),
        ("assertion-in-union-only", "?t", "WHERE { UNION { ?t ASSERTION {} } }"),
        ("assertion-and-evidence-in-unions", "?t", "WHERE { UNION { ?t ASSERTION {} } UNION { ?t EVIDENCE {} } }"),
        ("concept-then-union-assertion", "?t", "WHERE { ?t {type: \"T\"} UNION { ?t ASSERTION {} } }"),
        ("concept-then-union-evidence", "?t", "WHERE { ?t {type: \"T\"} UNION { ?t EVIDENCE {} } }"),
        ("concept-then-union-proposition", "?t", "WHERE { ?t {type: \"T\"} UNION { ?t (?s, \"p\", ?o) } }"),
        ("concept-then-union-activity", "?t", "WHERE { ?t {type: \"T\"} UNION { ?t ACTIVITY {} } }"),
        ("union-assertion-then-concept", "?t", "WHERE { UNION { ?t ASSERTION {} } ?t {type: \"T\"} }"),
        ("concept-and-assertion-both-required", "?t", "WHERE { ?t {type: \"T\"} ?t ASSERTION {} }"),
        ("concept-then-optional-assertion", "?t", "WHERE { ?t {type: \"T\"} OPTIONAL { ?t ASSERTION {} } }"),
        ("belief-selector", "?t", "WHERE { ?t BELIEF (:a, \"p\", :b) }"),
        ("belief-slot-selector", "?t", "WHERE { ?x {type: \"T\"} ?t BELIEF SLOT (?x, \"p\") }"),
        ("belief-inside-not", "?t", "WHERE { ?t {type: \"T\"} NOT { ?b BELIEF (?t, \"p\", :b) } }"),
    ]
}

fn wraps(clause: &str) -> Vec<(&'static str, String)> {
    vec![
        ("standalone", clause.to_string()),
        ("in-mutate", format!("MUTATE {{ {clause} }}")),
        ("in-mutate-after-create", format!("MUTATE {{\n CREATE CONCEPT ?z {{ TYPE \"T\" }}\n {clause}\n}}")),
    ]
}

fn build_matrix() -> Vec<Cell> {
    let mut cells = vec![];
    let names = all_names();
    let mut push = |family: &'static str, block: &'static str, kind: &'static str, name: &'static str, spelling: &'static str, clause: String| {
        for (wrap, text) in wraps(&clause) {
            cells.push(Cell { family, block, kind, name, spelling, wrap, text });
        }
    };
    let kinds = target_kinds();
    for name in &names {
        let name: &'static str = name;
        // ---- creating families (no target kind)
        for (sp, body) in assignment_spellings(name, None) {
            for (block, pre) in [("SET FIELDS", "SET FIELDS"), ("SET ATTRIBUTES", "SET ATTRIBUTES"), ("SET FACET", "SET FACET \"F\"")] {
                push("CREATE CONCEPT", block, "-", name, sp, format!("CREATE CONCEPT ?c {{ TYPE \"T\" {pre} {body} }}"));
                push("UPSERT CONCEPT", block, "-", name, sp, format!("UPSERT CONCEPT ?c {{ MATCH {{ type: \"T\", key: \"k\" }} {pre} {body} }}"));
            }
            push("CREATE CONCEPT", "SET STRUCTURAL options", "-", name, sp, format!("CREATE CONCEPT ?c {{ TYPE \"T\" SET STRUCTURAL {{ (\"has_step\", :s) {body} }} }}"));
            push("UPSERT CONCEPT", "MATCH", "-", name, sp, format!("UPSERT CONCEPT ?c {{ MATCH {} SET FIELDS {{ name: \"n\" }} }}", body.replacen('{', "{ key: \"k\", ", 1).replace("ADD(1, 2)", ":p")));
            for (fam, head) in [("CREATE EVIDENCE", "CREATE EVIDENCE ?r"), ("CREATE ASSERTION", "CREATE ASSERTION ?r"), ("CREATE ACTIVITY", "CREATE ACTIVITY ?r")] {
                push(fam, "SET FIELDS", "-", name, sp, format!("{head} {{ SET FIELDS {body} }}"));
                push(fam, "SET FACET", "-", name, sp, format!("{head} {{ SET FACET \"F\" {body} }}"));
                push(fam, "SET STRUCTURAL options", "-", name, sp, format!("{head} {{ SET STRUCTURAL {{ (\"evidence\", :e) {body} }} }}"));
            }
            push("TRANSITION ACTIVITY", "SET FIELDS", "-", name, sp, format!("TRANSITION ACTIVITY :act TO \"completed\" SET FIELDS {body}"));
            push("TRANSITION ACTIVITY", "SET STRUCTURAL options", "-", name, sp, format!("TRANSITION ACTIVITY :act TO \"completed\" SET STRUCTURAL {{ (\"outputs\", :o) {body} }}"));
            // ASSERT member block: the written member plus the two required ones
            let members = body.replacen('{', "{ by: :me, mode: \"stated\", ", 1);
            push("ASSERT", "members", "-", name, sp, format!("ASSERT (:a, \"p\", :b) {members}"));
        }
        for (sp, body) in unset_spellings(name) {
            push("UPSERT CONCEPT", "UNSET ATTRIBUTES", "-", name, sp, format!("UPSERT CONCEPT ?c {{ MATCH {{ key: \"k\" }} UNSET ATTRIBUTES {body} }}"));
            push("UPSERT CONCEPT", "UNSET FACET", "-", name, sp, format!("UPSERT CONCEPT ?c {{ MATCH {{ key: \"k\" }} UNSET FACET \"F\" {body} }}"));
        }
        // ---- selecting families x target kind
        for (kind, target, wh) in &kinds {
            let tv = if *target == "?t" { Some("t") } else { None };
            for (sp, body) in assignment_spellings(name, tv) {
                for (block, pre) in [("SET FIELDS", "SET FIELDS"), ("SET ATTRIBUTES", "SET ATTRIBUTES"), ("SET FACET", "SET FACET \"F\"")] {
                    push("UPDATE", block, kind, name, sp, format!("UPDATE {target} {pre} {body} {wh}"));
                }
                // the same block as the SECOND (third) action of the statement: an UPDATE may carry
                // several blocks, also of one kind, and every one of them is an assignment
                // (seeded change C16-7: the guard looked at the first SET FIELDS block only)
                push("UPDATE", "SET FIELDS after SET FIELDS", kind, name, sp, format!("UPDATE {target} SET FIELDS {{ zz_note: \"x\" }} SET FIELDS {body} {wh}"));
                push("UPDATE", "SET FIELDS after SET ATTRIBUTES", kind, name, sp, format!("UPDATE {target} SET ATTRIBUTES {{ zz_a: 1 }} SET FIELDS {body} {wh}"));
                push("UPDATE", "SET ATTRIBUTES after two blocks", kind, name, sp, format!("UPDATE {target} SET FIELDS {{ zz_note: \"x\" }} SET ATTRIBUTES {{ zz_a: 1 }} SET ATTRIBUTES {body} {wh}"));
                push("UPDATE", "SET FACET after SET FACET", kind, name, sp, format!("UPDATE {target} SET FACET \"G\" {{ zz_f: 1 }} SET FACET \"F\" {body} {wh}"));
                // the retention block takes no update expression reading other state; keep the same spellings
                push("SET RETENTION", "retention block", kind, name, sp, format!("SET RETENTION {target} {body} {wh}"));
            }
            for (sp, body) in unset_spellings(name) {
                push("UPDATE", "UNSET ATTRIBUTES", kind, name, sp, format!("UPDATE {target} UNSET ATTRIBUTES {body} {wh}"));
                push("UPDATE", "UNSET FACET", kind, name, sp, format!("UPDATE {target} UNSET FACET \"F\" {body} {wh}"));
            }
        }
    }
    // ---- structural mutation and the statements without assignment blocks x target kind
    for (kind, target, wh) in &kinds {
        push("UPDATE", "SET STRUCTURAL", kind, "-", "-", format!("UPDATE {target} SET STRUCTURAL {{ (\"has_step\", :s) {{index: 0}} }} {wh}"));
        push("UPDATE", "UNSET STRUCTURAL", kind, "-", "-", format!("UPDATE {target} UNSET STRUCTURAL {{ (\"has_step\", :s) }} {wh}"));
        push("UPDATE", "SET FACET + SET STRUCTURAL", kind, "-", "-", format!("UPDATE {target} SET FACET \"F\" {{ salience: 0.5 }} SET STRUCTURAL {{ (\"evidence\", :e) }} {wh}"));
        push("ARCHIVE", "-", kind, "-", "-", format!("ARCHIVE {target} {wh}"));
        push("TOMBSTONE", "-", kind, "-", "-", format!("TOMBSTONE {target} {wh} LIMIT 3"));
        push("RETRACT ASSERTION", "-", kind, "-", "-", format!("RETRACT ASSERTION {target} {wh}"));
        push("MERGE CONCEPT", "-", kind, "-", "-", format!("MERGE CONCEPT {target} INTO :into {wh}"));
        for (sp, confirm) in [
            ("confirm-exact", "CONFIRM \"PURGE\""),
            ("confirm-lower-case", "CONFIRM \"purge\""),
            ("confirm-padded", "CONFIRM \"PURGE \""),
            ("confirm-escaped", "CONFIRM \"\\u0050URGE\""),
            ("confirm-missing", ""),
            ("confirm-bare-word", "CONFIRM PURGE"),
            ("confirm-param", "CONFIRM :confirm"),
            ("confirm-keyword-lower-case", "confirm \"PURGE\""),
            ("confirm-empty", "CONFIRM \"\""),
        ] {
            push("PURGE", "CONFIRM", kind, "-", sp, format!("PURGE {target} {wh} {confirm}"));
        }
    }
    // ---- EXPORT selections
    for (kind, target, wh) in &kinds {
        if !wh.is_empty() {
            push("EXPORT CAPSULE", "WHERE", kind, "-", "-", format!("EXPORT CAPSULE {target} {wh}"));
        }
    }
    // ---- identity: creating from a bare id, UPSERT selectors
    for (sp, tuple) in [
        ("tuple", "(:a, \"p\", :b)"),
        ("id-param", "(id: :pid)"),
        ("id-string", "(id: \"P-1\")"),
        ("id-spaced", "( id : \"P-1\" )"),
        ("id-commented", "( // c\n id // c\n : \"P-1\" )"),
        ("id-upper-case", "(ID: \"P-1\")"),
        ("id-quoted-key", "(\"id\": \"P-1\")"),
        ("nested-id-object", "(:a, \"p\", (id: :pid))"),
        ("nested-id-subject", "((id: :pid), \"p\", :b)"),
        ("variable-predicate", "(:a, ?p, :b)"),
        ("literal-subject", "(\"lit\", \"p\", :b)"),
        ("path-predicate", "(:a, \"p\"{1,2}, :b)"),
        ("alternation-predicate", "(:a, \"p\" | \"q\", :b)"),
    ] {
        push("ENSURE PROPOSITION", "tuple", "-", "-", sp, format!("ENSURE PROPOSITION ?p {tuple}"));
        push("ENSURE PROPOSITION", "tuple", "-", "-", sp, format!("ENSURE PROPOSITION {tuple} EXPECT VERSION 0"));
        push("ASSERT", "tuple", "-", "-", sp, format!("ASSERT {tuple} {{ by: :me, mode: \"stated\" }}"));
        push("ASSERT", "tuple", "-", "-", sp, format!("ASSERT ?a {tuple} {{ by: :me, mode: \"stated\" }} SUPERSEDING :old"));
    }
    for (sp, m) in [
        ("key-literal", "{ key: \"k\" }"),
        ("key-param", "{ key: :k }"),
        ("id-literal", "{ id: \"C-1\" }"),
        ("id-param", "{ id: :id }"),
        ("type-and-key", "{ type: \"T\", key: \"k\" }"),
        ("name-and-key", "{ name: \"N\", key: \"k\" }"),
        ("name-only", "{ name: \"N\" }"),
        ("type-and-name", "{ type: \"T\", name: \"N\" }"),
        ("type-only", "{ type: \"T\" }"),
        ("empty", "{ }"),
        ("id-variable", "{ id: ?x }"),
        ("key-variable", "{ key: ?x }"),
        ("key-array", "{ key: [\"k\"] }"),
        ("key-object", "{ key: { value: \"k\" } }"),
        ("key-upper-case", "{ KEY: \"k\" }"),
        ("id-capitalized", "{ Id: \"C-1\" }"),
        ("quoted-key", "{ \"key\": \"k\" }"),
        ("quoted-padded-key", "{ \"key \": \"k\" }"),
        ("nested-key", "{ attributes: { key: \"k\" } }"),
        ("key-null", "{ key: null }"),
        ("name-first-then-id", "{ name: \"N\", id: :id }"),
    ] {
        push("UPSERT CONCEPT", "MATCH identity", "-", "-", sp, format!("UPSERT CONCEPT ?c {{ MATCH {m} SET FIELDS {{ name: \"n\" }} }}"));
    }
    push("UPSERT CONCEPT", "MATCH identity", "-", "-", "no-match", "UPSERT CONCEPT ?c { SET FIELDS { name: \"n\" } }".to_string());
    // ---- handles
    for (sp, plan) in [
        ("declared-twice-same-family", "CREATE CONCEPT ?h { TYPE \"A\" } CREATE CONCEPT ?h { TYPE \"B\" }"),
        ("declared-twice-across-families", "CREATE CONCEPT ?h { TYPE \"A\" } CREATE EVIDENCE ?h { }"),
        ("declared-twice-upsert", "UPSERT CONCEPT ?h { MATCH {key: \"k\"} } CREATE ACTIVITY ?h { }"),
        ("declared-twice-ensure", "ENSURE PROPOSITION ?h (:a, \"p\", :b) CREATE CONCEPT ?h { TYPE \"A\" }"),
        ("declared-twice-assert", "ASSERT ?h (:a, \"p\", :b) { by: :me, mode: \"stated\" } CREATE ASSERTION ?h { }"),
        ("declared-twice-two-asserts", "ASSERT ?h (:a, \"p\", :b) { by: :me, mode: \"stated\" } ASSERT ?h (:a, \"q\", :b) { by: :me, mode: \"stated\" }"),
        ("forward-reference", "CREATE ASSERTION ?a { SET STRUCTURAL { (\"evidence\", ?e) } } CREATE EVIDENCE ?e { }"),
        ("unbound-in-edge", "CREATE ASSERTION ?a { SET STRUCTURAL { (\"evidence\", ?ghost) } }"),
        ("unbound-in-edge-options", "CREATE CONCEPT ?a { TYPE \"T\" SET STRUCTURAL { (\"has_step\", :s) {after: ?ghost} } }"),
        ("unbound-in-field", "CREATE ASSERTION ?a { SET FIELDS { proposition: ?ghost } }"),
        ("unbound-in-nested-array", "CREATE CONCEPT ?a { TYPE \"T\" SET ATTRIBUTES { refs: [ :x, [ ?ghost ] ] } }"),
        ("unbound-in-nested-object", "CREATE CONCEPT ?a { TYPE \"T\" SET ATTRIBUTES { refs: { deep: { r: ?ghost } } } }"),
        ("unbound-in-facet", "CREATE CONCEPT ?a { TYPE \"T\" SET FACET \"F\" { r: ?ghost } }"),
        ("unbound-update-target", "UPDATE ?ghost SET ATTRIBUTES { a: 1 }"),
        ("unbound-update-target-other-where", "UPDATE ?ghost SET ATTRIBUTES { a: 1 } WHERE { ?x {type: \"T\"} }"),
        ("unbound-archive-target", "ARCHIVE ?ghost"),
        ("unbound-purge-target", "PURGE ?ghost CONFIRM \"PURGE\""),
        ("unbound-retract-target", "RETRACT ASSERTION ?ghost"),
        ("unbound-supersede-by", "SUPERSEDE ASSERTION :old BY ?ghost"),
        ("unbound-supersede-target", "SUPERSEDE ASSERTION ?ghost BY :new"),
        ("unbound-correct-by", "CORRECT EVIDENCE :old BY ?ghost"),
        ("unbound-transition-target", "TRANSITION ACTIVITY ?ghost TO \"completed\""),
        ("unbound-transition-edge", "TRANSITION ACTIVITY :a TO \"completed\" SET STRUCTURAL { (\"outputs\", ?ghost) }"),
        ("unbound-retention-target", "SET RETENTION ?ghost { retention_class: \"standard\" }"),
        ("unbound-merge-source", "MERGE CONCEPT ?ghost INTO :b"),
        ("unbound-merge-into", "MERGE CONCEPT :a INTO ?ghost"),
        ("unbound-unset-structural", "UPDATE :c UNSET STRUCTURAL { (\"has_step\", ?ghost) }"),
        ("unbound-upsert-removal", "UPSERT CONCEPT ?c { MATCH {key: \"k\"} UNSET STRUCTURAL { (\"has_step\", ?ghost) } }"),
        ("unbound-retention-value", "SET RETENTION :x { successor: ?ghost }"),
        ("unbound-ensure-subject", "ENSURE PROPOSITION (?ghost, \"p\", :b)"),
        ("unbound-ensure-object", "ENSURE PROPOSITION ?p (:a, \"p\", ?ghost)"),
        ("unbound-assert-subject", "ASSERT (?ghost, \"p\", :b) { by: :me, mode: \"stated\" }"),
        ("unbound-assert-by", "ASSERT (:a, \"p\", :b) { by: ?ghost, mode: \"stated\" }"),
        ("unbound-assert-evidence", "ASSERT (:a, \"p\", :b) { by: :me, mode: \"stated\", evidence: [:e, ?ghost] }"),
        ("unbound-assert-superseding", "ASSERT (:a, \"p\", :b) { by: :me, mode: \"stated\" } SUPERSEDING ?ghost"),
        ("bound-by-other-clause-where", "UPDATE ?t SET ATTRIBUTES { a: 1 } WHERE { ?t {type: \"T\"} } ARCHIVE ?t"),
        ("self-reference", "CREATE CONCEPT ?a { TYPE \"T\" SET STRUCTURAL { (\"about\", ?a) } }"),
        ("ensure-endpoint-declared", "CREATE CONCEPT ?a { TYPE \"T\" } ENSURE PROPOSITION (?a, \"p\", :b)"),
    ] {
        cells.push(Cell { family: "plan", block: "handles", kind: "-", name: "-", spelling: sp, wrap: "in-mutate", text: format!("MUTATE {{ {plan} }}") });
        if !plan.contains("} CREATE") && !plan.contains("} ASSERT") && !plan.contains("} ENSURE") && !plan.contains("} ARCHIVE") && !plan.contains(") CREATE") {
            cells.push(Cell { family: "plan", block: "handles", kind: "-", name: "-", spelling: sp, wrap: "standalone", text: plan.to_string() });
        }
    }
    cells
}

// ---------------------------------------------------------------------------------------------
// oracle on an accepted tree

/// Violations found inside the parallel sections are parked here and raised afterwards: the
/// sections must run to the end (the matrix is only exhaustive if no cell is skipped), whereas
/// `Run::parallel` stops a section after a handful of violations.
static PENDING: std::sync::Mutex<BTreeMap<String, Value>> = std::sync::Mutex::new(BTreeMap::new());

thread_local! {
    /// (section, case) the current thread is working on - goes into the witness for `--replay`
    static CURRENT: std::cell::Cell<(&'static str, u64)> = const { std::cell::Cell::new(("", 0)) };
}

/// Witness preference: accepted by the text parser before injected trees, then the shortest text.
fn witness_rank(detail: &Value) -> (bool, usize) {
    let case = detail.get("witness").unwrap_or(detail);
    let text = case.get("text").and_then(|t| t.as_str());
    match text {
        Some(t) => (false, t.len()),
        None => (true, detail.to_string().len()),
    }
}

fn park(signature: String, detail: Value, st: &mut Stats) {
    st.count(&format!("violating_cases:{signature}"));
    st.count("violating_cases");
    let mut detail = detail;
    let (section, case) = CURRENT.with(|c| c.get());
    if let Value::Object(m) = &mut detail {
        if !section.is_empty() {
            m.insert("section".into(), json!(section));
            m.insert("case".into(), json!(case));
        }
    }
    let mut p = PENDING.lock().unwrap();
    match p.get(&signature) {
        Some(old) if witness_rank(old) <= witness_rank(&detail) => {}
        _ => {
            p.insert(signature, detail);
        }
    }
}

fn raise_parked(run: &mut Run) {
    let p = std::mem::take(&mut *PENDING.lock().unwrap());
    for (sig, detail) in p {
        let n = run.stats.get(&format!("violating_cases:{sig}"));
        let mut d = detail;
        if let Value::Object(m) = &mut d {
            m.insert("cases_with_this_signature".into(), json!(n));
        }
        run.stats.violations.push(vcore::run::Violation { signature: sig, detail: d });
    }
}

fn report(findings: &[Finding], origin: &str, detail: Value, st: &mut Stats) {
    for f in findings {
        park(
            format!("C16/{}/{}", f.rule, f.at),
            json!({"rule": f.rule, "at": f.at, "what": f.what, "accepted_by": origin, "witness": detail}),
            st,
        );
    }
}

fn note_measured(m: &Measured, st: &mut Stats) {
    for (k, v) in &m.counts {
        st.add(&format!("measured:{k}"), *v);
    }
}

// ---------------------------------------------------------------------------------------------
// JSON-level injection

/// Collects JSON pointers of interesting sites.
fn pointers(v: &Value, path: String, out: &mut Vec<(String, &'static str)>) {
    match v {
        Value::Object(m) => {
            for (k, x) in m {
                let p = format!("{path}/{}", k.replace('~', "~0").replace('/', "~1"));
                match k.as_str() {
                    "set_fields" | "set_attributes" | "SetFields" | "SetAttributes" if x.is_array() => out.push((p.clone(), "assignments")),
                    "values" if x.is_array() => out.push((p.clone(), "assignments")),
                    "unset_attributes" | "UnsetAttributes" | "fields" if x.is_array() => out.push((p.clone(), "names")),
                    "where_clauses" if x.is_array() => out.push((p.clone(), "where")),
                    "Not" | "Optional" | "Union" if x.is_array() => out.push((p.clone(), "where")),
                    "handle" if x.is_string() => out.push((p.clone(), "handle")),
                    "confirm" => out.push((p.clone(), "confirm")),
                    "match" => out.push((p.clone(), "match")),
                    "Handle" if x.is_string() => out.push((p.clone(), "handle-ref")),
                    "clauses" if x.is_array() => out.push((p.clone(), "clauses")),
                    _ => {}
                }
                pointers(x, p, out);
            }
        }
        Value::Array(a) => {
            for (i, x) in a.iter().enumerate() {
                pointers(x, format!("{path}/{i}"), out);
            }
        }
        _ => {}
    }
}

const TYPED_KINDS: &[&str] = &["Concept", "Assertion", "Evidence", "Activity"];

/// All single-site JSON mutants of a tree: (operator, mutated tree).
fn injections(tree: &Value) -> Vec<(&'static str, Value)> {
    let mut sites = vec![];
    pointers(tree, String::new(), &mut sites);
    let mut out: Vec<(&'static str, Value)> = vec![];
    let mut with = |op: &'static str, ptr: &str, f: &dyn Fn(&mut Value)| {
        let mut t = tree.clone();
        if let Some(x) = t.pointer_mut(ptr) {
            f(x);
            if &t != tree {
                out.push((op, t));
            }
        }
    };
    for (ptr, what) in &sites {
        match *what {
            "assignments" => {
                let n = tree.pointer(ptr).and_then(|a| a.as_array()).map(|a| a.len()).unwrap_or(0);
                for i in [0, n.saturating_sub(1)].into_iter().collect::<BTreeSet<usize>>() {
                    if i >= n {
                        continue;
                    }
                    for name in ENGINE_OWNED {
                        with("rename-key-to-engine-owned", ptr, &|a| a[i][0] = json!(name));
                    }
                    for name in ["confidence", "payload", "subject", "evidence"] {
                        with("rename-key-to-payload-name", ptr, &|a| a[i][0] = json!(name));
                    }
                }
                for name in ENGINE_OWNED {
                    with("append-engine-owned-key", ptr, &|a| {
                        a.as_array_mut().unwrap().push(json!([name, {"Value": {"Number": 1}}]));
                    });
                }
                with("append-unbound-handle-value", ptr, &|a| {
                    a.as_array_mut().unwrap().push(json!(["zz_ref", {"Handle": "ghost"}]));
                });
                with("append-nested-unbound-handle", ptr, &|a| {
                    a.as_array_mut().unwrap().push(json!(["zz_ref", {"Array": [{"Object": [["r", {"Handle": "ghost"}]]}]}]));
                });
                if n > 0 {
                    with("duplicate-assignment-key", ptr, &|a| {
                        let first = a[0].clone();
                        a.as_array_mut().unwrap().push(first);
                    });
                }
            }
            "names" => {
                for name in ENGINE_OWNED {
                    with("unset-engine-owned-name", ptr, &|a| a.as_array_mut().unwrap().push(json!(name)));
                    with("rename-unset-to-engine-owned", ptr, &|a| {
                        if let Some(x) = a.as_array_mut().unwrap().first_mut() {
                            *x = json!(name);
                        }
                    });
                }
            }
            "where" => {
                let n = tree.pointer(ptr).and_then(|a| a.as_array()).map(|a| a.len()).unwrap_or(0);
                with("add-belief-selector", ptr, &|a| {
                    a.as_array_mut().unwrap().push(json!({"Belief": {"variable": "zb", "target": {"Id": {"Param": "pid"}}}}));
                });
                with("add-belief-slot-selector", ptr, &|a| {
                    a.as_array_mut().unwrap().push(json!({"BeliefSlot": {"variable": "zs", "subject": {"Param": "s"}, "predicate": {"Literal": "p"}}}));
                });
                with("add-belief-inside-optional", ptr, &|a| {
                    a.as_array_mut().unwrap().push(json!({"Optional": [{"Belief": {"variable": "zb", "target": {"Proposition": "zp"}}}]}));
                });
                for i in 0..n.min(4) {
                    let clause = tree.pointer(&format!("{ptr}/{i}")).cloned().unwrap_or(Value::Null);
                    let Some((k, body)) = clause.as_object().and_then(|m| m.iter().next()).map(|(k, b)| (k.clone(), b.clone())) else { continue };
                    if TYPED_KINDS.contains(&k.as_str()) {
                        let var = body.get("variable").cloned().unwrap_or(json!("t"));
                        with("swap-pattern-to-belief", ptr, &|a| {
                            a[i] = json!({"Belief": {"variable": var, "target": {"Id": {"Param": "pid"}}}});
                        });
                        for to in TYPED_KINDS {
                            if *to != k {
                                with("change-target-kind", ptr, &|a| a[i] = json!({*to: body.clone()}));
                            }
                        }
                        with("change-target-kind", ptr, &|a| {
                            a[i] = json!({"Proposition": {"variable": var, "matcher": {"Id": {"Param": "pid"}}}});
                        });
                        for blockk in ["Union", "Optional", "Not"] {
                            with("move-binding-into-block", ptr, &|a| a[i] = json!({blockk: [clause.clone()]}));
                        }
                        // keep the pattern, add a second binding of another kind in a UNION branch
                        for to in ["Assertion", "Evidence"] {
                            with("add-union-binding-of-record-kind", ptr, &|a| {
                                a.as_array_mut().unwrap().push(json!({"Union": [{to: {"variable": var, "matcher": {}}}]}));
                            });
                        }
                    }
                    if k == "Proposition" {
                        let var = body.get("variable").cloned().unwrap_or(Value::Null);
                        if !var.is_null() {
                            with("change-target-kind", ptr, &|a| a[i] = json!({"Assertion": {"variable": var, "matcher": {}}}));
                            with("change-target-kind", ptr, &|a| a[i] = json!({"Concept": {"variable": var, "matcher": {}}}));
                        }
                    }
                    with("drop-where-clause", ptr, &|a| {
                        a.as_array_mut().unwrap().remove(i);
                    });
                }
                if ptr.ends_with("where_clauses") {
                    with("drop-where-block", ptr, &|a| *a = Value::Null);
                    with("empty-where-block", ptr, &|a| *a = json!([]));
                }
            }
            "handle" => {
                with("rename-declared-handle", ptr, &|h| *h = json!("zz_renamed"));
            }
            "handle-ref" => {
                with("rename-handle-reference", ptr, &|h| *h = json!("ghost"));
            }
            "confirm" => {
                for c in [json!(""), json!("purge"), json!("PURGE "), json!("CONFIRM"), Value::Null] {
                    with("break-purge-confirmation", ptr, &|x| *x = c.clone());
                }
            }
            "match" => {
                with("drop-upsert-match", ptr, &|m| *m = Value::Null);
                with("empty-upsert-match", ptr, &|m| *m = json!({}));
                with("name-only-upsert-match", ptr, &|m| *m = json!({"name": {"Literal": {"String": "N"}}}));
                with("variable-identity-upsert-match", ptr, &|m| *m = json!({"id": {"Variable": "x"}}));
                with("array-identity-upsert-match", ptr, &|m| *m = json!({"key": {"Array": [{"Literal": {"String": "k"}}]}}));
                with("type-only-upsert-match", ptr, &|m| *m = json!({"type": {"Literal": {"String": "T"}}}));
            }
            "clauses" => {
                let n = tree.pointer(ptr).and_then(|a| a.as_array()).map(|a| a.len()).unwrap_or(0);
                with("empty-plan", ptr, &|a| *a = json!([]));
                for i in 0..n.min(4) {
                    with("duplicate-clause", ptr, &|a| {
                        let c = a[i].clone();
                        a.as_array_mut().unwrap().push(c);
                    });
                    if n > 1 {
                        with("drop-clause", ptr, &|a| {
                            a.as_array_mut().unwrap().remove(i);
                        });
                    }
                }
                // a second clause that claims the first declared handle
                let first_handle = (0..n).find_map(|i| {
                    tree.pointer(&format!("{ptr}/{i}"))
                        .and_then(|c| c.as_object())
                        .and_then(|m| m.values().next())
                        .and_then(|b| b.get("handle"))
                        .and_then(|h| h.as_str())
                        .map(|s| s.to_string())
                });
                if let Some(h) = first_handle {
                    with("add-clause-claiming-existing-handle", ptr, &|a| {
                        a.as_array_mut().unwrap().push(json!({"CreateEvidence": {"handle": h, "client_key": null, "set_fields": null, "set_facets": [], "set_structural": null}}));
                    });
                    with("add-ensure-claiming-existing-handle", ptr, &|a| {
                        a.as_array_mut().unwrap().push(json!({"EnsureProposition": {"handle": h, "subject": {"Param": "a"}, "predicate": {"Literal": "p"}, "object": {"Param": "b"}, "expect_version": null}}));
                    });
                }
                with("add-update-with-protected-key", ptr, &|a| {
                    a.as_array_mut().unwrap().push(json!({"Update": {"target": {"Param": "x"}, "expect_version": null,
                        "actions": [{"SetFacet": {"facet": {"Name": "F"}, "values": [["governance", {"Value": {"Bool": true}}]]}}], "where_clauses": null, "limit": null}}));
                });
                with("add-unconfirmed-purge", ptr, &|a| {
                    a.as_array_mut().unwrap().push(json!({"Purge": {"target": {"Param": "x"}, "where_clauses": null, "limit": null, "reference_policy": null, "confirm": "yes"}}));
                });
                with("add-transition-with-protected-key", ptr, &|a| {
                    a.as_array_mut().unwrap().push(json!({"TransitionActivity": {"target": {"Param": "x"}, "to": {"Literal": {"String": "completed"}},
                        "set_fields": [["_system", {"Value": "Null"}]], "set_structural": null, "expect_state": null}}));
                });
                with("add-retention-with-protected-key", ptr, &|a| {
                    a.as_array_mut().unwrap().push(json!({"SetRetention": {"target": {"Param": "x"}, "values": [["space_seq", {"Value": {"Number": 1}}]],
                        "where_clauses": null, "limit": null, "expect_version": null}}));
                });
                with("add-archive-of-unbound-handle", ptr, &|a| {
                    a.as_array_mut().unwrap().push(json!({"Archive": {"target": {"Handle": "ghost"}, "where_clauses": null, "limit": null, "expect_state": null}}));
                });
                with("add-ensure-with-unbound-endpoint", ptr, &|a| {
                    a.as_array_mut().unwrap().push(json!({"EnsureProposition": {"handle": null, "subject": {"Variable": "ghost"}, "predicate": {"Literal": "p"}, "object": {"Param": "b"}, "expect_version": null}}));
                });
            }
            _ => {}
        }
    }
    out
}

/// Feeds every JSON mutant of an accepted tree to validate_command.
fn inject(tree: &Command, origin_text: &str, st: &mut Stats) {
    let Ok(v) = serde_json::to_value(tree) else {
        st.inconclusive("accepted tree does not serialise");
        return;
    };
    for (op, mutant) in injections(&v) {
        st.count("json_injected_trees");
        st.count(&format!("inject:{op}"));
        let Ok(cmd) = serde_json::from_value::<Command>(mutant.clone()) else {
            st.count("json_injected_undecodable");
            st.count(&format!("inject_undecodable:{op}"));
            continue;
        };
        st.eval();
        match validate_command(&cmd) {
            Err(_) => {
                st.count("json_injected_refused");
                st.count(&format!("inject_refused:{op}"));
            }
            Ok(()) => {
                st.count("json_injected_accepted");
                st.count(&format!("inject_accepted:{op}"));
                st.set("distinct_injected_trees_accepted", fnv_str(&mutant.to_string()));
                let mut m = Measured::default();
                let f = walker::walk(&cmd, &mut m);
                note_measured(&m, st);
                st.count("oracle_walker_on_validated_tree");
                report(&f, "validate_command", json!({"operator": op, "derived_from_text": origin_text, "tree": mutant}), st);
            }
        }
    }
}

fn check_text(text: &str, label: Value, st: &mut Stats) -> Option<Command> {
    st.eval();
    match parse_kip(text) {
        Err(_) => None,
        Ok(cmd) => {
            // the specific entry point must agree (same guards on both text paths)
            if let Command::Kml(s) = &cmd {
                if parse_kml(text).ok().as_ref() != Some(s) {
                    park("C16/parse_kml-disagrees-with-parse_kip".into(), json!({"text": text}), st);
                }
            }
            let mut m = Measured::default();
            let f = walker::walk(&cmd, &mut m);
            note_measured(&m, st);
            st.count("oracle_walker_on_parsed_tree");
            report(&f, "parser", json!({"text": text, "cell": label}), st);
            Some(cmd)
        }
    }
}

// ---------------------------------------------------------------------------------------------
// matrix section

const CHUNK: usize = 256;

fn matrix_case(cells: &[Cell], case: u64, st: &mut Stats) {
    CURRENT.with(|c| c.set(("matrix", case)));
    let from = case as usize * CHUNK;
    let to = (from + CHUNK).min(cells.len());
    let mut seen: BTreeSet<u64> = BTreeSet::new();
    for c in &cells[from..to] {
        st.count("matrix_cells");
        st.count(&format!("cells:{}", c.family));
        let label = json!({"family": c.family, "block": c.block, "target_kind": c.kind, "name": c.name, "spelling": c.spelling, "wrap": c.wrap});
        let exact_engine_owned = ENGINE_OWNED.contains(&c.name)
            && matches!(c.spelling, "bare-first" | "bare-middle" | "bare-last" | "bare-trailing-comma" | "bare-compact" | "quoted" | "quoted-last" | "quoted-unicode-escape" | "whitespace-and-comments" | "value-param" | "value-expression" | "value-object" | "value-null")
            && !matches!(c.block, "SET STRUCTURAL options" | "MATCH" | "members");
        if exact_engine_owned {
            st.count("cells_writing_an_engine_owned_name_exactly");
        }
        match check_text(&c.text, label.clone(), st) {
            None => {
                st.count("matrix_refused");
                st.count(&format!("refused:{}/{}", c.family, c.block));
                if exact_engine_owned {
                    st.count("engine_owned_exact_spelling_refused");
                }
            }
            Some(cmd) => {
                st.count("matrix_accepted");
                st.count(&format!("accepted:{}/{}", c.family, c.block));
                if ENGINE_OWNED.contains(&c.name) {
                    st.count(&format!("accepted_spelling_of_engine_owned_name:{}", c.spelling));
                }
                let h = vcore::hash_debug(&cmd);
                st.set("distinct_matrix_trees_accepted", h);
                st.distinct(h);
                // JSON injection is about structure (family x block x kind x wrap), not about the
                // spelling of one key: one representative per structure
                let representative = matches!(c.name, "-" | "name" | "confidence") && matches!(c.spelling, "-" | "bare-first" | "bare-middle" | "tuple" | "confirm-exact" | "key-literal" | "id-param" | "type-and-key")
                    || c.family == "plan";
                if representative && seen.insert(h) {
                    inject(&cmd, &c.text, st);
                }
                if c.wrap == "standalone" && c.family == "UPDATE" && c.kind.starts_with("concept-then-union") {
                    st.sample(|| json!({"kind": "accepted matrix cell", "cell": label, "text": c.text}));
                }
            }
        }
    }
}

// ---------------------------------------------------------------------------------------------
// ASSERT desugaring

struct AssertCase {
    handle: Option<String>,
    tuple: (String, String, String),
    /// members as written (name, value text), in source order
    members: Vec<(String, String)>,
    superseding: Option<String>,
    /// handles the surrounding plan declares (so that `?h` values are legal)
    declares: Vec<String>,
    /// position of the ASSERT among the plan's source statements
    seq: usize,
    in_mutate: bool,
}

impl AssertCase {
    fn text(&self) -> String {
        let mut s = String::new();
        let stmt = format!(
            "ASSERT {}({}, {}, {}) {{ {} }}{}",
            self.handle.as_ref().map(|h| format!("?{h} ")).unwrap_or_default(),
            self.tuple.0,
            self.tuple.1,
            self.tuple.2,
            self.members.iter().map(|(k, v)| format!("{k}: {v}")).collect::<Vec<_>>().join(", "),
            self.superseding.as_ref().map(|t| format!(" SUPERSEDING {t}")).unwrap_or_default()
        );
        if self.in_mutate {
            s.push_str("MUTATE {\n");
            for d in &self.declares {
                s.push_str(&format!("  CREATE EVIDENCE ?{d} {{ }}\n"));
            }
            s.push_str("  ");
            s.push_str(&stmt);
            s.push_str("\n}");
        } else {
            s = stmt;
        }
        s
    }
}

/// The AST of one value / term, obtained by parsing it in a neutral context (the value grammar is
/// not what this oracle is about; the shape of the expansion is).
fn reference_value(text: &str, declares: &[String]) -> Option<MutationValue> {
    let decl: String = declares.iter().map(|d| format!("CREATE EVIDENCE ?{d} {{ }} ")).collect();
    let probe = format!("MUTATE {{ {decl} UPDATE :probe SET ATTRIBUTES {{ probe: {text} }} }}");
    let s = parse_kml(&probe).ok()?;
    match s.clauses.last()? {
        MutationClause::Update(u) => match u.actions.first()? {
            UpdateAction::SetAttributes(a) => a.first().map(|(_, v)| v.clone()),
            _ => None,
        },
        _ => None,
    }
}

fn reference_ensure(tuple: &(String, String, String), declares: &[String]) -> Option<EnsureProposition> {
    let decl: String = declares.iter().map(|d| format!("CREATE EVIDENCE ?{d} {{ }} ")).collect();
    let probe = format!("MUTATE {{ {decl} ENSURE PROPOSITION ({}, {}, {}) }}", tuple.0, tuple.1, tuple.2);
    let s = parse_kml(&probe).ok()?;
    match s.clauses.last()? {
        MutationClause::EnsureProposition(e) => Some(e.clone()),
        _ => None,
    }
}

fn reference_target(text: &str) -> Option<ElementRef> {
    let s = parse_kml(&format!("ARCHIVE {text}")).ok()?;
    match s.clauses.first()? {
        MutationClause::Archive(a) => Some(a.target.clone()),
        _ => None,
    }
}

fn scalar_of(v: &MutationValue) -> Option<Scalar> {
    match v {
        MutationValue::Param(p) => Some(Scalar::Param(p.clone())),
        MutationValue::Value(k @ (KipValue::String(_) | KipValue::Number(_) | KipValue::Bool(_) | KipValue::Null)) => Some(Scalar::Literal(k.clone())),
        _ => None,
    }
}

fn artifacts(v: &MutationValue) -> Vec<MutationValue> {
    match v {
        MutationValue::Array(items) => items.iter().cloned().map(MutationValue::from).collect(),
        MutationValue::Value(KipValue::Array(items)) => items.iter().cloned().map(MutationValue::Value).collect(),
        other => vec![other.clone()],
    }
}

/// The expansion Spec 55.1 defines, built by the harness. `None` = the statement must be refused.
fn expected_expansion(c: &AssertCase) -> Option<Vec<MutationClause>> {
    let mut seen = BTreeSet::new();
    for (k, _) in &c.members {
        if !["by", "mode", "stance", "confidence", "at", "valid", "evidence", "key"].contains(&k.as_str()) || !seen.insert(k.clone()) {
            return None;
        }
    }
    let get = |name: &str| c.members.iter().find(|(k, _)| k == name).map(|(_, v)| v.clone());
    let by = get("by")?;
    let mode = get("mode")?;
    let ensure = reference_ensure(&c.tuple, &c.declares)?;
    let a_handle = c.handle.clone().unwrap_or_else(|| format!("#assert{}", c.seq));
    let p_handle = format!("{a_handle}#proposition");
    let val = |t: &str| reference_value(t, &c.declares);
    let mut fields: BTreeMap<String, MutationValue> = BTreeMap::new();
    fields.insert("proposition".into(), MutationValue::Handle(p_handle.clone()));
    fields.insert("asserted_by".into(), val(&by)?);
    fields.insert("mode".into(), val(&mode)?);
    // documented default, materialised by the parser (pinned on the unchanged tree)
    fields.insert("stance".into(), match get("stance") {
        Some(s) => val(&s)?,
        None => MutationValue::Value(KipValue::String("support".into())),
    });
    for (member, field) in [("confidence", "confidence"), ("at", "asserted_at"), ("valid", "valid_time")] {
        if let Some(t) = get(member) {
            fields.insert(field.into(), val(&t)?);
        }
    }
    let client_key = match get("key") {
        Some(t) => Some(scalar_of(&val(&t)?)?),
        None => None,
    };
    let edges: Vec<anda_kip::StructuralEdge> = match get("evidence") {
        Some(t) => artifacts(&val(&t)?)
            .into_iter()
            .map(|value| anda_kip::StructuralEdge {
                field: SymbolRef::Name("evidence".into()),
                value,
                options: Some([("role".to_string(), BoundValue::Value(KipValue::String("support".into())))].into_iter().collect()),
            })
            .collect(),
        None => vec![],
    };
    // set_fields order is not part of the definition: canonical (sorted) order on both sides
    let set_fields: Assignments = fields.into_iter().collect();
    let mut out = vec![
        MutationClause::EnsureProposition(EnsureProposition {
            handle: Some(p_handle),
            subject: ensure.subject,
            predicate: ensure.predicate,
            object: ensure.object,
            expect_version: None,
        }),
        MutationClause::CreateAssertion(anda_kip::RecordCreate {
            handle: a_handle.clone(),
            client_key,
            set_fields: Some(set_fields),
            set_facets: vec![],
            set_structural: if edges.is_empty() { None } else { Some(edges) },
        }),
    ];
    if let Some(t) = &c.superseding {
        out.push(MutationClause::SupersedeAssertion(anda_kip::SupersedeAssertion {
            target: reference_target(t)?,
            by: ElementRef::Handle(a_handle),
            expect_state: None,
        }));
    }
    Some(out)
}

fn canonical(mut clauses: Vec<MutationClause>) -> Vec<MutationClause> {
    for c in clauses.iter_mut() {
        if let MutationClause::CreateAssertion(r) = c {
            if let Some(f) = r.set_fields.as_mut() {
                f.sort_by(|a, b| a.0.cmp(&b.0));
            }
        }
    }
    clauses
}

fn assert_check(c: &AssertCase, st: &mut Stats) {
    let text = c.text();
    st.count("assert_statements");
    let expected = expected_expansion(c);
    let got = parse_kip(&text);
    st.eval();
    let n_decl = if c.in_mutate { c.declares.len() } else { 0 };
    match (&expected, &got) {
        (None, Err(_)) => {
            st.count("assert_refused_as_expected");
            let has = |n: &str| c.members.iter().any(|(k, _)| k == n);
            if !has("by") {
                st.count("assert_refused_missing_by");
            }
            if !has("mode") {
                st.count("assert_refused_missing_mode");
            }
        }
        (None, Ok(cmd)) => {
            let has = |n: &str| c.members.iter().any(|(k, _)| k == n);
            let why = if !has("by") {
                "missing-by"
            } else if !has("mode") {
                "missing-mode"
            } else {
                "ill-formed-members"
            };
            park(
                format!("C16/assert/accepted-although-{why}"),
                json!({"text": text, "tree": serde_json::to_value(cmd).unwrap_or(Value::Null)}),
                st,
            );
        }
        (Some(_), Err(e)) => {
            // well-formed per the definition but refused: only the handle rules may say so
            let msg = e.message.clone();
            if msg.contains("not bound") || msg.contains("claimed by two") {
                st.count("assert_refused_by_plan_rules");
            } else {
                park("C16/assert/well-formed-refused".into(), json!({"text": text, "error": msg}), st);
            }
        }
        (Some(exp), Ok(Command::Kml(KmlStatement { clauses, explicit_transaction }))) => {
            st.count("assert_expansions_compared");
            if c.superseding.is_some() {
                st.count("assert_expansions_with_supersede");
            }
            if *explicit_transaction != c.in_mutate {
                park("C16/assert/transaction-flag".into(), json!({"text": text}), st);
            }
            let tail: Vec<MutationClause> = clauses.iter().skip(n_decl).cloned().collect();
            let a = canonical(tail);
            let b = canonical(exp.clone());
            if a != b {
                park(
                    "C16/assert/expansion-differs-from-definition".into(),
                    json!({"text": text, "parser": serde_json::to_value(&a).unwrap_or(Value::Null), "definition": serde_json::to_value(&b).unwrap_or(Value::Null)}),
                    st,
                );
            }
            st.set("distinct_assert_expansions", vcore::hash_debug(&a));
            st.sample(|| json!({"kind": "ASSERT expansion compared", "text": text}));
        }
        (Some(_), Ok(_)) => park("C16/assert/not-a-mutation".into(), json!({"text": text}), st),
    }
}

fn assert_case(case: u64, rng: &mut Rng, st: &mut Stats) {
    CURRENT.with(|c| c.set(("assert", case)));
    let declares: Vec<String> = if rng.bool() { vec!["e1".into(), "e2".into()] } else { vec![] };
    let in_mutate = !declares.is_empty() || rng.bool();
    let refs = |rng: &mut Rng, declares: &[String]| -> String {
        if !declares.is_empty() && rng.chance(1, 3) {
            format!("?{}", rng.pick(declares))
        } else {
            (*rng.pick(&[":a", ":alice", ":b", ":msg"])).to_string()
        }
    };
    let subject = refs(rng, &declares);
    let object = match rng.below(5) {
        0 => "\"+01:00\"".to_string(),
        1 => "42".to_string(),
        2 => "true".to_string(),
        3 => "null".to_string(),
        _ => refs(rng, &declares),
    };
    let pred = (*rng.pick(&["\"prefers\"", "\"timezone\"", ":pred"])).to_string();
    let mut members: Vec<(String, String)> = vec![];
    // required members are sometimes left out on purpose
    if !rng.chance(1, 8) {
        members.push(("by".into(), refs(rng, &declares)));
    }
    if !rng.chance(1, 8) {
        members.push(("mode".into(), (*rng.pick(&["\"stated\"", "\"observed\"", "\"inferred\"", ":mode", "\"imported\""])).to_string()));
    }
    if rng.chance(1, 3) {
        members.push(("stance".into(), (*rng.pick(&["\"support\"", "\"reject\"", "\"uncertain\"", ":stance"])).to_string()));
    }
    if rng.chance(1, 3) {
        members.push(("confidence".into(), (*rng.pick(&["0.95", "1", "0", ":c", "0.5"])).to_string()));
    }
    if rng.chance(1, 4) {
        members.push(("at".into(), (*rng.pick(&[":time", "\"2026-08-16T01:00:00Z\""])).to_string()));
    }
    if rng.chance(1, 4) {
        members.push(("valid".into(), (*rng.pick(&["{from: :t1, until: :t2}", "{from: \"2026-01-01\"}", "{from: :t1, until: null}", ":interval"])).to_string()));
    }
    if rng.chance(1, 2) {
        let e = match rng.below(8) {
            0 => "[]".to_string(),
            1 => "[:e1, :e2]".to_string(),
            2 => "[\"E-1\", \"E-2\", \"E-3\"]".to_string(),
            3 => "\"E-1\"".to_string(),
            4 if !declares.is_empty() => format!("?{}", declares[0]),
            5 if !declares.is_empty() => format!("[?{}, :e9, \"E-4\"]", declares[1]),
            6 => "[[:e1]]".to_string(),
            _ => ":msg".to_string(),
        };
        members.push(("evidence".into(), e));
    }
    if rng.chance(1, 3) {
        members.push(("key".into(), (*rng.pick(&[":client_key", "\"assert:1\"", "17", "true", "null", "[1]", "{a: 1}"])).to_string()));
    }
    if rng.chance(1, 12) {
        members.push(((*rng.pick(&["oops", "asserted_by", "role", "_system", "By", "evidence_refs", "by"])).to_string(), ":x".into()));
    }
    rng.shuffle(&mut members);
    let c = AssertCase {
        handle: if rng.bool() { Some((*rng.pick(&["a", "claim", "h9"])).to_string()) } else { None },
        tuple: (subject, pred, object),
        members,
        superseding: if rng.chance(1, 3) { Some((*rng.pick(&[":old", "\"A-17\""])).to_string()) } else { None },
        seq: if in_mutate { declares.len() } else { 0 },
        declares,
        in_mutate,
    };
    assert_check(&c, st);
}

// ---------------------------------------------------------------------------------------------
// generated plans

fn plan_case(case: u64, rng: &mut Rng, st: &mut Stats) {
    CURRENT.with(|c| c.set(("plans", case)));
    let text = {
        let mut g = Gen::new(rng);
        g.fuel = 600;
        g.kml();
        generate::render(&g.t)
    };
    st.count("generated_plans");
    if let Some(cmd) = check_text(&text, json!({"generated": true}), st) {
        st.count("generated_plans_accepted");
        if let Command::Kml(s) = &cmd {
            if s.clauses.len() > 1 {
                st.count("generated_multi_clause_plans_accepted");
            }
            let declared = s.clauses.iter().filter(|c| c.handle().is_some()).count();
            st.max("max_handles_declared_in_a_generated_plan", declared as u64);
        }
        st.set("distinct_generated_plans_accepted", vcore::hash_debug(&cmd));
        inject(&cmd, &text, st);
    }
    // plans broken at the text level: a handle reference renamed / a declaration duplicated
    let broken = match rng.below(3) {
        0 => text.replacen("?h0", "?ghost", 1),
        1 => text.replacen("?h1 ", "?h0 ", 1),
        _ => text.replacen("CONFIRM \"PURGE\"", "CONFIRM \"Purge\"", 1),
    };
    if broken != text {
        st.count("generated_plans_broken_in_text");
        if check_text(&broken, json!({"generated": true, "broken": true}), st).is_some() {
            st.count("generated_broken_plans_still_accepted");
        }
    }
}

// ---------------------------------------------------------------------------------------------
// sanity set: every walker rule must be able to fire (and the validator should refuse the tree)

fn sanity(st: &mut Stats) {
    let update = |where_clauses: Value, actions: Value| {
        json!({"Kml": {"explicit_transaction": false, "clauses": [{"Update": {"target": {"Handle": "t"}, "expect_version": null, "actions": actions, "where_clauses": where_clauses, "limit": null}}]}})
    };
    let concept = |assign: &str| {
        let mut c = json!({"handle": "c", "type": {"Name": "T"}, "client_key": null, "name": null, "set_fields": null, "set_attributes": null, "set_facets": [], "set_structural": null});
        c[assign] = json!([["_system", {"Value": {"Number": 1}}]]);
        json!({"Kml": {"explicit_transaction": false, "clauses": [{"CreateConcept": c}]}})
    };
    let one = |clause: Value| json!({"Kml": {"explicit_transaction": true, "clauses": [clause]}});
    let assertion_where = json!([{"Assertion": {"variable": "t", "matcher": {}}}]);
    let bad: Vec<(&str, &str, Value)> = vec![
        ("engine-owned-field-assigned", "CreateConcept.SET FIELDS", concept("set_fields")),
        ("engine-owned-field-assigned", "CreateConcept.SET ATTRIBUTES", concept("set_attributes")),
        ("engine-owned-field-assigned", "facet", one(json!({"CreateEvidence": {"handle": "e", "client_key": null, "set_fields": null,
            "set_facets": [{"facet": {"Name": "F"}, "values": [["governance", {"Param": "g"}]]}], "set_structural": null}}))),
        ("engine-owned-field-assigned", "unset", one(json!({"UpsertConcept": {"handle": "c", "match": {"key": {"Literal": {"String": "k"}}}, "expect_version": null,
            "set_fields": null, "set_attributes": null, "set_facets": [], "unset_attributes": ["space_id"], "unset_facets": [], "set_structural": null, "unset_structural": null}}))),
        ("engine-owned-field-assigned", "retention", one(json!({"SetRetention": {"target": {"Param": "x"}, "values": [["space_seq", {"Value": {"Number": 7}}]], "where_clauses": null, "limit": null, "expect_version": null}}))),
        ("engine-owned-field-assigned", "transition", one(json!({"TransitionActivity": {"target": {"Param": "x"}, "to": {"Literal": {"String": "completed"}}, "set_fields": [["_system", {"Value": "Null"}]], "set_structural": null, "expect_state": null}}))),
        ("immutable-payload-rewritten", "assertion", update(assertion_where.clone(), json!([{"SetFields": [["confidence", {"Value": {"Number": 0.1}}]]}]))),
        ("immutable-payload-rewritten", "assertion-second-block", update(assertion_where.clone(), json!([{"SetFields": [["zz_note", {"Value": {"Number": 1}}]]}, {"SetFields": [["confidence", {"Value": {"Number": 0.1}}]]}]))),
        ("immutable-payload-rewritten", "evidence-third-block", update(json!([{"Evidence": {"variable": "t", "matcher": {}}}]), json!([{"SetAttributes": [["zz_a", {"Value": {"Number": 1}}]]}, {"SetFields": [["zz_note", {"Value": {"Number": 1}}]]}, {"SetFields": [["payload", {"Param": "p"}]]}]))),
        ("engine-owned-field-assigned", "update-second-block", update(json!([{"Concept": {"variable": "t", "matcher": {}}}]), json!([{"SetFields": [["zz_note", {"Value": {"Number": 1}}]]}, {"SetFields": [["_system", {"Value": {"Number": 1}}]]}]))),
        ("immutable-payload-rewritten", "evidence", update(json!([{"Evidence": {"variable": "t", "matcher": {}}}]), json!([{"SetFields": [["payload", {"Param": "p"}]]}]))),
        ("immutable-payload-rewritten", "proposition", update(json!([{"Proposition": {"variable": "t", "matcher": {"Id": {"Param": "p"}}}}]), json!([{"SetFields": [["object", {"Param": "p"}]]}]))),
        ("immutable-payload-rewritten", "union", update(json!([{"Concept": {"variable": "t", "matcher": {}}}, {"Union": [{"Assertion": {"variable": "t", "matcher": {}}}]}]), json!([{"SetFields": [["stance", {"Param": "p"}]]}]))),
        ("record-topology-mutated", "set", update(assertion_where.clone(), json!([{"SetStructural": [{"field": {"Name": "evidence"}, "value": {"Param": "e"}, "options": null}]}]))),
        ("record-topology-mutated", "unset", update(json!([{"Activity": {"variable": "t", "matcher": {}}}]), json!([{"UnsetStructural": [{"field": {"Name": "inputs"}, "value": {"Param": "e"}}]}]))),
        ("belief-as-selector", "update", update(json!([{"Belief": {"variable": "t", "target": {"Id": {"Param": "p"}}}}]), json!([{"SetAttributes": [["a", {"Value": {"Number": 1}}]]}]))),
        ("belief-as-selector", "archive-nested", one(json!({"Archive": {"target": {"Handle": "t"}, "where_clauses": [{"Concept": {"variable": "t", "matcher": {}}}, {"Not": [{"BeliefSlot": {"variable": "s", "subject": {"Variable": "t"}, "predicate": {"Literal": "p"}}}]}], "limit": null, "expect_state": null}}))),
        ("belief-as-selector", "export", json!({"Meta": {"ExportCapsule": {"target": {"Handle": "r"}, "where_clauses": [{"Belief": {"variable": "r", "target": {"Proposition": "p"}}}], "options": null, "as_of": null}}})),
        ("upsert-without-stable-identity", "name-only", one(json!({"UpsertConcept": {"handle": "c", "match": {"name": {"Literal": {"String": "N"}}}, "expect_version": null,
            "set_fields": null, "set_attributes": null, "set_facets": [], "unset_attributes": null, "unset_facets": [], "set_structural": null, "unset_structural": null}}))),
        ("upsert-without-stable-identity", "no-match", one(json!({"UpsertConcept": {"handle": "c", "match": null, "expect_version": null,
            "set_fields": null, "set_attributes": null, "set_facets": [], "unset_attributes": null, "unset_facets": [], "set_structural": null, "unset_structural": null}}))),
        ("handle-declared-twice", "two-creates", json!({"Kml": {"explicit_transaction": true, "clauses": [
            {"CreateEvidence": {"handle": "h", "client_key": null, "set_fields": null, "set_facets": [], "set_structural": null}},
            {"CreateActivity": {"handle": "h", "client_key": null, "set_fields": null, "set_facets": [], "set_structural": null}}]}})),
        ("handle-never-bound", "archive", one(json!({"Archive": {"target": {"Handle": "ghost"}, "where_clauses": null, "limit": null, "expect_state": null}}))),
        ("handle-never-bound", "edge", one(json!({"CreateAssertion": {"handle": "a", "client_key": null, "set_fields": null, "set_facets": [],
            "set_structural": [{"field": {"Name": "evidence"}, "value": {"Handle": "ghost"}, "options": null}]}}))),
        ("handle-never-bound", "ensure-endpoint", one(json!({"EnsureProposition": {"handle": null, "subject": {"Variable": "ghost"}, "predicate": {"Literal": "p"}, "object": {"Param": "b"}, "expect_version": null}}))),
        ("purge-unconfirmed", "lower-case", one(json!({"Purge": {"target": {"Param": "x"}, "where_clauses": null, "limit": null, "reference_policy": null, "confirm": "purge"}}))),
    ];
    for (rule, label, tree) in bad {
        st.count("sanity_trees");
        let Ok(cmd) = serde_json::from_value::<Command>(tree.clone()) else {
            st.inconclusive(format!("sanity tree {rule}/{label} does not decode into the AST"));
            continue;
        };
        let mut m = Measured::default();
        let f = walker::walk(&cmd, &mut m);
        if f.iter().any(|x| x.rule == rule) {
            st.count(&format!("walker_rule_fired:{rule}"));
            st.count("sanity_walker_fired");
        } else {
            st.inconclusive(format!("walker rule {rule} did not fire on its sanity tree {label}"));
        }
        st.eval();
        match validate_command(&cmd) {
            Err(_) => st.count("sanity_trees_refused_by_validate_command"),
            Ok(()) => {
                st.count("sanity_trees_accepted_by_validate_command");
                report(&f, "validate_command", json!({"sanity_tree": label, "tree": tree}), st);
            }
        }
    }
}

// ---------------------------------------------------------------------------------------------

fn main() {
    let mut run = Run::from_args(
        "C16",
        "exploration",
        "finite matrix clause family x target kind x block x field name x spelling enumerated completely (a cell is \
         non-trivial when the parser accepts it; distinct by tree), JSON-injected single-site mutants of every accepted \
         tree, generated multi-clause plans, generated ASSERT statements",
    );
    run.assume("engine-owned names are exactly _system, governance, space_id, space_seq (Spec 6.2/6.3/2.11/28.1), compared case-sensitively after JSON string decoding: `_System`, ` _system` and `\"_system.version\"` are different field names (the engine compares names byte-wise as well)");
    run.assume("an engine-owned name used as a key inside a value object, as a structural edge option or as a MATCH member is data, not an assignment: counted (measured:*), not judged");
    run.assume("statically known kind = the UPDATE target variable is bound by a typed pattern at the top level, in an OPTIONAL block or in a UNION branch (an independent scope whose solutions are added); a NOT block binds nothing; two different required kinds for one variable are unsatisfiable and not judged; direct :id / \"id\" targets are not judged");
    run.assume("immutable payload names: Proposition subject/predicate/object (12.5); Assertion proposition/asserted_by/stance/mode/confidence/asserted_at/valid_time/evidence (13.7, 13.2); Evidence evidence_class/payload/content_digest/media_type/observed_at (15.5, 15.3); structural mutation through UPDATE is refused for Assertion, Evidence, Proposition and Activity targets (17.5, KIPSyntax 3.5)");
    run.assume("a ?variable endpoint of ENSURE PROPOSITION / ASSERT names a plan handle (Spec 53.2, the parse_kml doc example, the engine resolves it through the handle table)");
    run.assume("ASSERT: defaults the parser materialises, pinned on the unchanged tree: stance \"support\" when not written; every evidence citation carries options {role: \"support\"}; the assertion handle is the written one or #assert<position>, the proposition handle <assertion handle>#proposition; an evidence array yields one edge per element, an empty array none; the order of set_fields is not part of the definition");
    if ENGINE_OWNED.iter().any(|n| !PROTECTED_FIELDS.contains(n)) {
        run.stats.count("engine_owned_names_missing_from_the_crate_constant");
    }
    run.set_extra("crate_PROTECTED_FIELDS", json!(PROTECTED_FIELDS));
    let t = run.tier;

    if run.wants("sanity") && run.replay.is_none() {
        let mut st = Stats::default();
        sanity(&mut st);
        run.stats.merge(st);
    }
    let mut matrix_complete = false;
    if run.wants("matrix") {
        let cells = build_matrix();
        run.set_extra("matrix_cells_total", json!(cells.len()));
        let n_cases = cells.len().div_ceil(CHUNK) as u64;
        let ran = run.parallel("matrix", n_cases, 0.95, |case, _rng, st| matrix_case(&cells, case, st));
        matrix_complete = ran == n_cases && run.stats.get("matrix_cells") == cells.len() as u64;
        if run.replay.is_none() {
            run.exhaustive = Some(matrix_complete);
            if !matrix_complete {
                run.stats.inconclusive("the matrix was not enumerated completely");
            }
        }
    }
    if run.wants("assert") {
        run.parallel("assert", t.pick(30_000, 600_000), 0.5, assert_case);
    }
    if run.wants("plans") {
        run.parallel("plans", t.pick(6_000, 200_000), 0.9, plan_case);
    }

    raise_parked(&mut run);
    let acc = run.stats.get("matrix_accepted");
    let refd = run.stats.get("matrix_refused");
    run.set_extra("matrix", json!({"cells": run.stats.get("matrix_cells"), "accepted": acc, "refused": refd, "enumerated_completely": matrix_complete}));
    run.set_extra(
        "json_injected",
        json!({"trees": run.stats.get("json_injected_trees"), "accepted": run.stats.get("json_injected_accepted"),
               "refused": run.stats.get("json_injected_refused"), "undecodable": run.stats.get("json_injected_undecodable")}),
    );
    run.floor("matrix_cells", 100_000);
    run.floor("matrix_accepted", 20_000);
    run.floor("matrix_refused", 20_000);
    run.floor("cells_writing_an_engine_owned_name_exactly", 5_000);
    run.floor("oracle_walker_on_parsed_tree", 30_000);
    run.floor("oracle_walker_on_validated_tree", 20_000);
    run.floor("json_injected_trees", 100_000);
    run.floor("json_injected_refused", 20_000);
    run.floor("json_injected_accepted", 20_000);
    for op in [
        "rename-key-to-engine-owned", "rename-key-to-payload-name", "append-engine-owned-key", "unset-engine-owned-name",
        "add-belief-selector", "swap-pattern-to-belief", "change-target-kind", "move-binding-into-block", "drop-where-block",
        "rename-declared-handle", "rename-handle-reference", "break-purge-confirmation", "name-only-upsert-match",
        "duplicate-clause", "add-clause-claiming-existing-handle", "append-unbound-handle-value",
    ] {
        run.floor(&format!("inject:{op}"), 50);
    }
    run.floor("assert_statements", t.pick(25_000, 200_000));
    run.floor("assert_expansions_compared", 8_000);
    run.floor("assert_expansions_with_supersede", 2_000);
    run.floor("assert_refused_missing_by", 1_000);
    run.floor("assert_refused_missing_mode", 1_000);
    run.floor_set("distinct_assert_expansions", 3_000);
    run.floor("generated_plans_accepted", 4_000);
    run.floor("generated_multi_clause_plans_accepted", 1_000);
    run.floor("sanity_trees", 22);
    for rule in [
        "engine-owned-field-assigned", "immutable-payload-rewritten", "record-topology-mutated", "belief-as-selector",
        "upsert-without-stable-identity", "handle-declared-twice", "handle-never-bound", "purge-unconfirmed",
    ] {
        run.floor(&format!("walker_rule_fired:{rule}"), 1);
    }
    run.finish();
}

//! `RecStore`: recording / fault-injecting / gating `ObjectStore` wrapper (DESIGN.md 0.3).
//!
//! * every call is appended to one ordered event log (mutations with their payload);
//! * `materialize(k)` rebuilds the exact backend state after the first k landed mutations
//!   (the state a power loss at that instant leaves behind);
//! * faults: power-off after k landed mutations, single-call `FailBefore` (nothing lands, error
//!   returned) and `FailAfter` (the call lands and an error is returned: unknown outcome);
//! * gate ("yield") mode: every backend call returns `Pending` once before it executes, so a
//!   manual executor (`manual.rs`) decides which task performs its next backend call;
//! * markers: the workload driver brackets its API calls so that "what had been acknowledged
//!   when mutation k landed" is read off the log.

use async_trait::async_trait;
use bytes::Bytes;
use futures::stream::{BoxStream, StreamExt};
use object_store::memory::InMemory;
use object_store::path::Path;
use object_store::{
    Attributes, CopyOptions, Error, GetOptions, GetResult, ListResult, MultipartUpload,
    ObjectMeta, ObjectStore, ObjectStoreExt, PutMode, PutMultipartOptions, PutOptions,
    PutPayload, PutResult, RenameOptions, Result, UploadPart,
};
use parking_lot::Mutex;
use std::sync::Arc;
use std::sync::atomic::{AtomicBool, AtomicU64, Ordering};

#[derive(Clone, Copy, Debug, PartialEq, Eq, Hash)]
pub enum OpKind {
    Put,
    MultipartInit,
    PutPart,
    MultipartComplete,
    MultipartAbort,
    Get,
    GetRanges,
    Delete,
    List,
    ListOffset,
    ListDelim,
    Copy,
    Rename,
}

impl OpKind {
    pub fn is_mutation(self) -> bool {
        matches!(
            self,
            OpKind::Put | OpKind::MultipartComplete | OpKind::Delete | OpKind::Copy | OpKind::Rename
        )
    }
}

/// A mutation that reached the backend ("landed"), with everything needed to re-apply it.
#[derive(Clone, Debug)]
pub enum Mutation {
    Put {
        path: Path,
        data: Bytes,
        attributes: Attributes,
    },
    Delete {
        path: Path,
        /// false when the key did not exist (state unchanged)
        effective: bool,
    },
    Copy {
        from: Path,
        to: Path,
    },
    Rename {
        from: Path,
        to: Path,
    },
}

impl Mutation {
    pub fn path(&self) -> &Path {
        match self {
            Mutation::Put { path, .. } | Mutation::Delete { path, .. } => path,
            Mutation::Copy { to, .. } | Mutation::Rename { to, .. } => to,
        }
    }
    pub fn describe(&self) -> String {
        match self {
            Mutation::Put { path, data, .. } => format!("put {path} ({}B)", data.len()),
            Mutation::Delete { path, effective } => {
                format!("delete {path}{}", if *effective { "" } else { " (absent)" })
            }
            Mutation::Copy { from, to } => format!("copy {from} -> {to}"),
            Mutation::Rename { from, to } => format!("rename {from} -> {to}"),
        }
    }
    /// Does this mutation change backend state?
    pub fn effective(&self) -> bool {
        !matches!(self, Mutation::Delete { effective: false, .. })
    }
}

#[derive(Clone, Debug)]
pub struct Event {
    pub seq: u64,
    /// logical task that issued the call (set by the manual executor / drivers; 0 = unknown)
    pub task: u32,
    pub kind: OpKind,
    pub path: String,
    /// "ok" or the error variant name
    pub result: String,
    /// index into the landed-mutation list when this call landed a mutation
    pub mutation: Option<usize>,
    /// a fault was injected on this call
    pub injected: Option<&'static str>,
}

#[derive(Clone, Debug)]
pub enum LogItem {
    Backend(Event),
    /// driver-side marker, e.g. OpStart(i) / OpOk(i) / OpErr(i)
    Marker { seq: u64, tag: String, n: u64 },
}

#[derive(Clone, Copy, Debug, PartialEq, Eq)]
pub enum Fault {
    None,
    /// the store loses power once `n` mutations have landed: every later call fails
    PowerOffAfter(u64),
    /// the `n`-th mutation attempt (0-based) fails and nothing lands
    FailBefore(u64),
    /// the `n`-th mutation attempt (0-based) lands, then an error is returned
    FailAfter(u64),
}

#[derive(Default)]
struct Log {
    items: Vec<LogItem>,
    mutations: Vec<Mutation>,
    /// for each landed mutation: position in `items`
    mutation_pos: Vec<usize>,
}

pub struct RecInner {
    inner: Arc<dyn ObjectStore>,
    log: Mutex<Log>,
    seq: AtomicU64,
    attempts: AtomicU64,
    landed: AtomicU64,
    fault: Mutex<Fault>,
    powered_off: AtomicBool,
    fault_fired: AtomicBool,
    gate: AtomicBool,
    /// mutations additionally return Pending once AFTER they landed (the caller can be cancelled
    /// between the backend effect and observing its result)
    gate_after: AtomicBool,
    /// post-call yield for reads (get / get_ranges / list_with_delimiter): the response is in the
    /// caller's hands but the caller has not acted on it yet (read-then-act windows, cache fills)
    gate_after_reads: AtomicBool,
    /// number of calls that went through the gate (progress signal for schedulers)
    pub gate_passes: AtomicU64,
    record_reads: AtomicBool,
}

/// Cheap handle; all clones share the log.
#[derive(Clone)]
pub struct RecStore(pub Arc<RecInner>);

impl std::fmt::Debug for RecStore {
    fn fmt(&self, f: &mut std::fmt::Formatter<'_>) -> std::fmt::Result {
        write!(f, "RecStore")
    }
}
impl std::fmt::Display for RecStore {
    fn fmt(&self, f: &mut std::fmt::Formatter<'_>) -> std::fmt::Result {
        write!(f, "RecStore({})", self.0.inner)
    }
}

thread_local! {
    static CURRENT_TASK: std::cell::Cell<u32> = const { std::cell::Cell::new(0) };
}

/// Sets the logical task id attributed to backend calls made from this thread.
pub fn set_current_task(t: u32) {
    CURRENT_TASK.with(|c| c.set(t));
}
pub fn current_task() -> u32 {
    CURRENT_TASK.with(|c| c.get())
}

/// A future that returns `Pending` exactly once (and wakes itself).
pub struct YieldOnce(bool);
impl std::future::Future for YieldOnce {
    type Output = ();
    fn poll(
        mut self: std::pin::Pin<&mut Self>,
        cx: &mut std::task::Context<'_>,
    ) -> std::task::Poll<()> {
        if self.0 {
            std::task::Poll::Ready(())
        } else {
            self.0 = true;
            cx.waker().wake_by_ref();
            std::task::Poll::Pending
        }
    }
}
pub fn yield_once() -> YieldOnce {
    YieldOnce(false)
}

fn err_name(e: &Error) -> String {
    match e {
        Error::NotFound { .. } => "NotFound".into(),
        Error::AlreadyExists { .. } => "AlreadyExists".into(),
        Error::Precondition { .. } => "Precondition".into(),
        Error::NotModified { .. } => "NotModified".into(),
        Error::NotSupported { .. } => "NotSupported".into(),
        Error::NotImplemented { .. } => "NotImplemented".into(),
        Error::InvalidPath { .. } => "InvalidPath".into(),
        Error::Generic { .. } => "Generic".into(),
        _ => "Other".into(),
    }
}

fn injected(what: &'static str, kind: OpKind, path: &str) -> Error {
    Error::Generic {
        store: "RecStore",
        source: format!("injected fault: {what} ({kind:?} {path})").into(),
    }
}

fn payload_bytes(p: &PutPayload) -> Bytes {
    if p.as_ref().len() == 1 {
        return p.as_ref()[0].clone();
    }
    let mut v = Vec::with_capacity(p.content_length());
    for seg in p.iter() {
        v.extend_from_slice(seg);
    }
    Bytes::from(v)
}

enum Pre {
    Proceed,
    /// proceed, then report an error although the call landed
    ProceedThenFail,
}

impl RecStore {
    pub fn new() -> Self {
        Self::over(Arc::new(InMemory::new()))
    }

    pub fn over(inner: Arc<dyn ObjectStore>) -> Self {
        RecStore(Arc::new(RecInner {
            inner,
            log: Mutex::new(Log::default()),
            seq: AtomicU64::new(0),
            attempts: AtomicU64::new(0),
            landed: AtomicU64::new(0),
            fault: Mutex::new(Fault::None),
            powered_off: AtomicBool::new(false),
            fault_fired: AtomicBool::new(false),
            gate: AtomicBool::new(false),
            gate_after: AtomicBool::new(false),
            gate_after_reads: AtomicBool::new(false),
            gate_passes: AtomicU64::new(0),
            record_reads: AtomicBool::new(true),
        }))
    }

    pub fn inner(&self) -> Arc<dyn ObjectStore> {
        self.0.inner.clone()
    }
    pub fn as_dyn(&self) -> Arc<dyn ObjectStore> {
        Arc::new(self.clone())
    }

    pub fn set_fault(&self, f: Fault) {
        *self.0.fault.lock() = f;
        self.0.fault_fired.store(false, Ordering::SeqCst);
        if let Fault::PowerOffAfter(n) = f {
            if self.0.landed.load(Ordering::SeqCst) >= n {
                self.0.powered_off.store(true, Ordering::SeqCst);
            }
        }
    }
    /// Power comes back (the process "reboots"): faults cleared.
    pub fn reset_faults(&self) {
        *self.0.fault.lock() = Fault::None;
        self.0.powered_off.store(false, Ordering::SeqCst);
    }
    pub fn powered_off(&self) -> bool {
        self.0.powered_off.load(Ordering::SeqCst)
    }
    pub fn fault_fired(&self) -> bool {
        self.0.fault_fired.load(Ordering::SeqCst) || self.powered_off()
    }
    pub fn power_off_now(&self) {
        self.0.powered_off.store(true, Ordering::SeqCst);
    }
    pub fn set_gate(&self, on: bool) {
        self.0.gate.store(on, Ordering::SeqCst);
    }
    /// Post-call yield for mutations (see `gate_after`).
    pub fn set_gate_after(&self, on: bool) {
        self.0.gate_after.store(on, Ordering::SeqCst);
    }
    /// Post-call yield for reads: a task can be held between receiving a read's response and
    /// acting on it while other tasks run (the window of stale cache fills and read-then-write).
    pub fn set_gate_after_reads(&self, on: bool) {
        self.0.gate_after_reads.store(on, Ordering::SeqCst);
    }
    pub fn set_record_reads(&self, on: bool) {
        self.0.record_reads.store(on, Ordering::SeqCst);
    }
    pub fn landed(&self) -> u64 {
        self.0.landed.load(Ordering::SeqCst)
    }
    pub fn attempts(&self) -> u64 {
        self.0.attempts.load(Ordering::SeqCst)
    }
    pub fn gate_passes(&self) -> u64 {
        self.0.gate_passes.load(Ordering::SeqCst)
    }

    pub fn marker(&self, tag: &str, n: u64) {
        let mut log = self.0.log.lock();
        let seq = self.0.seq.fetch_add(1, Ordering::SeqCst);
        log.items.push(LogItem::Marker {
            seq,
            tag: tag.to_string(),
            n,
        });
    }

    /// Position marker for `mutations_since`.
    pub fn mark(&self) -> usize {
        self.0.log.lock().mutations.len()
    }

    /// Landed mutations since `mark` (optionally only those under `prefix`), described.
    pub fn mutations_since(&self, mark: usize, prefix: Option<&str>) -> Vec<Mutation> {
        let log = self.0.log.lock();
        log.mutations[mark.min(log.mutations.len())..]
            .iter()
            .filter(|m| match prefix {
                None => true,
                Some(p) => match m {
                    Mutation::Copy { from, to } | Mutation::Rename { from, to } => {
                        to.as_ref().starts_with(p) || from.as_ref().starts_with(p)
                    }
                    _ => m.path().as_ref().starts_with(p),
                },
            })
            .cloned()
            .collect()
    }

    pub fn mutations(&self) -> Vec<Mutation> {
        self.0.log.lock().mutations.clone()
    }
    pub fn log_items(&self) -> Vec<LogItem> {
        self.0.log.lock().items.clone()
    }
    pub fn log_len(&self) -> usize {
        self.0.log.lock().items.len()
    }

    /// For every landed mutation index k: the markers seen before it, as (tag, n) in order.
    /// Returned as: for each mutation, the position in the full log (markers interleaved).
    pub fn mutation_positions(&self) -> Vec<usize> {
        self.0.log.lock().mutation_pos.clone()
    }

    /// Rebuilds the backend state after the first `k` landed mutations into a fresh InMemory.
    pub async fn materialize(&self, k: usize) -> Arc<InMemory> {
        let muts: Vec<Mutation> = {
            let log = self.0.log.lock();
            log.mutations[..k.min(log.mutations.len())].to_vec()
        };
        materialize_from(&muts).await
    }

    /// Copies the current backend content into a fresh InMemory ("pull the plug now").
    pub async fn snapshot(&self) -> Arc<InMemory> {
        copy_store(self.0.inner.as_ref()).await
    }

    fn push_event(
        &self,
        kind: OpKind,
        path: &str,
        result: String,
        mutation: Option<Mutation>,
        inj: Option<&'static str>,
    ) {
        if !kind.is_mutation() && !self.0.record_reads.load(Ordering::Relaxed) {
            return;
        }
        let mut log = self.0.log.lock();
        let seq = self.0.seq.fetch_add(1, Ordering::SeqCst);
        let mi = mutation.map(|m| {
            log.mutations.push(m);
            let pos = log.items.len();
            log.mutation_pos.push(pos);
            log.mutations.len() - 1
        });
        log.items.push(LogItem::Backend(Event {
            seq,
            task: current_task(),
            kind,
            path: path.to_string(),
            result,
            mutation: mi,
            injected: inj,
        }));
    }

    async fn gate(&self) {
        if self.0.gate.load(Ordering::SeqCst) {
            yield_once().await;
            self.0.gate_passes.fetch_add(1, Ordering::SeqCst);
        }
    }

    async fn gate_post(&self) {
        if self.0.gate_after.load(Ordering::SeqCst) {
            yield_once().await;
        }
    }

    async fn gate_post_read(&self) {
        if self.0.gate_after_reads.load(Ordering::SeqCst) {
            yield_once().await;
        }
    }

    /// Fault decision before a call. Errors mean "fail without touching the backend".
    fn pre(&self, kind: OpKind, path: &str) -> Result<Pre> {
        if self.0.powered_off.load(Ordering::SeqCst) {
            self.push_event(kind, path, "PoweredOff".into(), None, Some("power_off"));
            return Err(injected("power off", kind, path));
        }
        if !kind.is_mutation() {
            return Ok(Pre::Proceed);
        }
        let attempt = self.0.attempts.fetch_add(1, Ordering::SeqCst);
        let fault = *self.0.fault.lock();
        match fault {
            Fault::FailBefore(n) if n == attempt => {
                self.0.fault_fired.store(true, Ordering::SeqCst);
                self.push_event(kind, path, "Injected".into(), None, Some("fail_before"));
                Err(injected("fail before", kind, path))
            }
            Fault::FailAfter(n) if n == attempt => {
                self.0.fault_fired.store(true, Ordering::SeqCst);
                Ok(Pre::ProceedThenFail)
            }
            _ => Ok(Pre::Proceed),
        }
    }

    /// Bookkeeping after a mutation landed; trips the power switch when due.
    fn landed_one(&self) {
        let n = self.0.landed.fetch_add(1, Ordering::SeqCst) + 1;
        if let Fault::PowerOffAfter(k) = *self.0.fault.lock() {
            if n >= k {
                self.0.powered_off.store(true, Ordering::SeqCst);
            }
        }
    }
}

impl Default for RecStore {
    fn default() -> Self {
        Self::new()
    }
}

pub async fn materialize_from(muts: &[Mutation]) -> Arc<InMemory> {
    let store = Arc::new(InMemory::new());
    for m in muts {
        match m {
            Mutation::Put {
                path,
                data,
                attributes,
            } => {
                let opts = PutOptions {
                    mode: PutMode::Overwrite,
                    attributes: attributes.clone(),
                    ..Default::default()
                };
                store
                    .put_opts(path, PutPayload::from_bytes(data.clone()), opts)
                    .await
                    .expect("materialize put");
            }
            Mutation::Delete { path, .. } => {
                let _ = store.delete(path).await;
            }
            Mutation::Copy { from, to } => {
                store.copy(from, to).await.expect("materialize copy");
            }
            Mutation::Rename { from, to } => {
                store.rename(from, to).await.expect("materialize rename");
            }
        }
    }
    store
}

pub async fn copy_store(src: &dyn ObjectStore) -> Arc<InMemory> {
    let dst = Arc::new(InMemory::new());
    let metas: Vec<ObjectMeta> = src
        .list(None)
        .filter_map(|r| async move { r.ok() })
        .collect()
        .await;
    for m in metas {
        if let Ok(r) = src.get_opts(&m.location, GetOptions::default()).await {
            let attributes = r.attributes.clone();
            if let Ok(b) = r.bytes().await {
                let opts = PutOptions {
                    mode: PutMode::Overwrite,
                    attributes,
                    ..Default::default()
                };
                dst.put_opts(&m.location, PutPayload::from_bytes(b), opts)
                    .await
                    .expect("copy_store put");
            }
        }
    }
    dst
}

/// Full content of a store: sorted (path, bytes).
pub async fn dump_store(src: &dyn ObjectStore) -> Vec<(String, Bytes)> {
    let metas: Vec<ObjectMeta> = src
        .list(None)
        .filter_map(|r| async move { r.ok() })
        .collect()
        .await;
    let mut out = vec![];
    for m in metas {
        if let Ok(r) = src.get_opts(&m.location, GetOptions::default()).await {
            if let Ok(b) = r.bytes().await {
                out.push((m.location.to_string(), b));
            }
        }
    }
    out.sort_by(|a, b| a.0.cmp(&b.0));
    out
}

pub fn digest_dump(d: &[(String, Bytes)]) -> u64 {
    let mut h = 0xcbf29ce484222325u64;
    for (p, b) in d {
        h ^= crate::fnv(p.as_bytes());
        h = h.wrapping_mul(0x100000001b3);
        h ^= crate::fnv(b);
        h = h.wrapping_mul(0x100000001b3);
    }
    h
}

#[async_trait]
impl ObjectStore for RecStore {
    async fn put_opts(
        &self,
        location: &Path,
        payload: PutPayload,
        opts: PutOptions,
    ) -> Result<PutResult> {
        self.gate().await;
        let p = location.as_ref();
        let pre = self.pre(OpKind::Put, p)?;
        let data = payload_bytes(&payload);
        let attributes = opts.attributes.clone();
        let r = self.0.inner.put_opts(location, payload, opts).await;
        match r {
            Ok(res) => {
                let fail = matches!(pre, Pre::ProceedThenFail);
                self.push_event(
                    OpKind::Put,
                    p,
                    if fail { "InjectedAfter".into() } else { "ok".into() },
                    Some(Mutation::Put {
                        path: location.clone(),
                        data,
                        attributes,
                    }),
                    if fail { Some("fail_after") } else { None },
                );
                self.landed_one();
                self.gate_post().await;
                if fail {
                    Err(injected("fail after (landed)", OpKind::Put, p))
                } else {
                    Ok(res)
                }
            }
            Err(e) => {
                self.push_event(OpKind::Put, p, err_name(&e), None, None);
                Err(e)
            }
        }
    }

    async fn put_multipart_opts(
        &self,
        location: &Path,
        opts: PutMultipartOptions,
    ) -> Result<Box<dyn MultipartUpload>> {
        self.gate().await;
        let p = location.as_ref();
        self.pre(OpKind::MultipartInit, p)?;
        let attributes = opts.attributes.clone();
        let inner = self.0.inner.put_multipart_opts(location, opts).await;
        match inner {
            Ok(up) => {
                self.push_event(OpKind::MultipartInit, p, "ok".into(), None, None);
                Ok(Box::new(RecUpload {
                    store: self.clone(),
                    location: location.clone(),
                    inner: up,
                    parts: Arc::new(Mutex::new(vec![])),
                    next_part: 0,
                    attributes,
                }))
            }
            Err(e) => {
                self.push_event(OpKind::MultipartInit, p, err_name(&e), None, None);
                Err(e)
            }
        }
    }

    async fn get_opts(&self, location: &Path, options: GetOptions) -> Result<GetResult> {
        self.gate().await;
        let p = location.as_ref();
        self.pre(OpKind::Get, p)?;
        let r = self.0.inner.get_opts(location, options).await;
        self.push_event(
            OpKind::Get,
            p,
            match &r {
                Ok(_) => "ok".into(),
                Err(e) => err_name(e),
            },
            None,
            None,
        );
        self.gate_post_read().await;
        r
    }

    async fn get_ranges(
        &self,
        location: &Path,
        ranges: &[std::ops::Range<u64>],
    ) -> Result<Vec<Bytes>> {
        self.gate().await;
        let p = location.as_ref();
        self.pre(OpKind::GetRanges, p)?;
        let r = self.0.inner.get_ranges(location, ranges).await;
        self.push_event(
            OpKind::GetRanges,
            p,
            match &r {
                Ok(_) => "ok".into(),
                Err(e) => err_name(e),
            },
            None,
            None,
        );
        self.gate_post_read().await;
        r
    }

    fn delete_stream(
        &self,
        locations: BoxStream<'static, Result<Path>>,
    ) -> BoxStream<'static, Result<Path>> {
        let this = self.clone();
        locations
            .then(move |location| {
                let this = this.clone();
                async move {
                    let location = location?;
                    this.gate().await;
                    let p = location.to_string();
                    let pre = this.pre(OpKind::Delete, &p)?;
                    let existed = this.0.inner.head(&location).await.is_ok();
                    let r = this.0.inner.delete(&location).await;
                    match r {
                        Ok(()) => {
                            let fail = matches!(pre, Pre::ProceedThenFail);
                            this.push_event(
                                OpKind::Delete,
                                &p,
                                if fail { "InjectedAfter".into() } else { "ok".into() },
                                Some(Mutation::Delete {
                                    path: location.clone(),
                                    effective: existed,
                                }),
                                if fail { Some("fail_after") } else { None },
                            );
                            this.landed_one();
                            this.gate_post().await;
                            if fail {
                                Err(injected("fail after (landed)", OpKind::Delete, &p))
                            } else {
                                Ok(location)
                            }
                        }
                        Err(e) => {
                            this.push_event(OpKind::Delete, &p, err_name(&e), None, None);
                            Err(e)
                        }
                    }
                }
            })
            .boxed()
    }

    fn list(&self, prefix: Option<&Path>) -> BoxStream<'static, Result<ObjectMeta>> {
        let this = self.clone();
        let prefix = prefix.cloned();
        futures::stream::once(async move {
            this.gate().await;
            let p = prefix.clone().unwrap_or_default();
            match this.pre(OpKind::List, p.as_ref()) {
                Err(e) => futures::stream::once(async move { Err(e) }).boxed(),
                Ok(_) => {
                    this.push_event(OpKind::List, p.as_ref(), "ok".into(), None, None);
                    this.0.inner.list(prefix.as_ref())
                }
            }
        })
        .flatten()
        .boxed()
    }

    fn list_with_offset(
        &self,
        prefix: Option<&Path>,
        offset: &Path,
    ) -> BoxStream<'static, Result<ObjectMeta>> {
        let this = self.clone();
        let prefix = prefix.cloned();
        let offset = offset.clone();
        futures::stream::once(async move {
            this.gate().await;
            let p = prefix.clone().unwrap_or_default();
            match this.pre(OpKind::ListOffset, p.as_ref()) {
                Err(e) => futures::stream::once(async move { Err(e) }).boxed(),
                Ok(_) => {
                    this.push_event(OpKind::ListOffset, p.as_ref(), "ok".into(), None, None);
                    this.0.inner.list_with_offset(prefix.as_ref(), &offset)
                }
            }
        })
        .flatten()
        .boxed()
    }

    async fn list_with_delimiter(&self, prefix: Option<&Path>) -> Result<ListResult> {
        self.gate().await;
        let p = prefix.cloned().unwrap_or_default();
        self.pre(OpKind::ListDelim, p.as_ref())?;
        let r = self.0.inner.list_with_delimiter(prefix).await;
        self.push_event(
            OpKind::ListDelim,
            p.as_ref(),
            match &r {
                Ok(_) => "ok".into(),
                Err(e) => err_name(e),
            },
            None,
            None,
        );
        r
    }

    async fn copy_opts(&self, from: &Path, to: &Path, options: CopyOptions) -> Result<()> {
        self.gate().await;
        let p = format!("{from} -> {to}");
        let pre = self.pre(OpKind::Copy, &p)?;
        let r = self.0.inner.copy_opts(from, to, options).await;
        match r {
            Ok(()) => {
                let fail = matches!(pre, Pre::ProceedThenFail);
                self.push_event(
                    OpKind::Copy,
                    &p,
                    if fail { "InjectedAfter".into() } else { "ok".into() },
                    Some(Mutation::Copy {
                        from: from.clone(),
                        to: to.clone(),
                    }),
                    if fail { Some("fail_after") } else { None },
                );
                self.landed_one();
                self.gate_post().await;
                if fail {
                    Err(injected("fail after (landed)", OpKind::Copy, &p))
                } else {
                    Ok(())
                }
            }
            Err(e) => {
                self.push_event(OpKind::Copy, &p, err_name(&e), None, None);
                Err(e)
            }
        }
    }

    async fn rename_opts(&self, from: &Path, to: &Path, options: RenameOptions) -> Result<()> {
        self.gate().await;
        let p = format!("{from} -> {to}");
        let pre = self.pre(OpKind::Rename, &p)?;
        let r = self.0.inner.rename_opts(from, to, options).await;
        match r {
            Ok(()) => {
                let fail = matches!(pre, Pre::ProceedThenFail);
                self.push_event(
                    OpKind::Rename,
                    &p,
                    if fail { "InjectedAfter".into() } else { "ok".into() },
                    Some(Mutation::Rename {
                        from: from.clone(),
                        to: to.clone(),
                    }),
                    if fail { Some("fail_after") } else { None },
                );
                self.landed_one();
                self.gate_post().await;
                if fail {
                    Err(injected("fail after (landed)", OpKind::Rename, &p))
                } else {
                    Ok(())
                }
            }
            Err(e) => {
                self.push_event(OpKind::Rename, &p, err_name(&e), None, None);
                Err(e)
            }
        }
    }
}

struct RecUpload {
    store: RecStore,
    location: Path,
    inner: Box<dyn MultipartUpload>,
    parts: Arc<Mutex<Vec<(usize, Bytes)>>>,
    next_part: usize,
    attributes: Attributes,
}

impl std::fmt::Debug for RecUpload {
    fn fmt(&self, f: &mut std::fmt::Formatter<'_>) -> std::fmt::Result {
        write!(f, "RecUpload({})", self.location)
    }
}

#[async_trait]
impl MultipartUpload for RecUpload {
    fn put_part(&mut self, payload: PutPayload) -> UploadPart {
        let idx = self.next_part;
        self.next_part += 1;
        let p = self.location.to_string();
        if self.store.powered_off() {
            self.store
                .push_event(OpKind::PutPart, &p, "PoweredOff".into(), None, Some("power_off"));
            let e = injected("power off", OpKind::PutPart, &p);
            return Box::pin(async move { Err(e) });
        }
        let data = payload_bytes(&payload);
        let parts = self.parts.clone();
        let fut = self.inner.put_part(payload);
        let store = self.store.clone();
        Box::pin(async move {
            store.gate().await;
            let r = fut.await;
            if r.is_ok() {
                parts.lock().push((idx, data));
            }
            store.push_event(
                OpKind::PutPart,
                &p,
                match &r {
                    Ok(_) => "ok".into(),
                    Err(e) => err_name(e),
                },
                None,
                None,
            );
            r
        })
    }

    async fn complete(&mut self) -> Result<PutResult> {
        self.store.gate().await;
        let p = self.location.to_string();
        let pre = self.store.pre(OpKind::MultipartComplete, &p)?;
        let r = self.inner.complete().await;
        match r {
            Ok(res) => {
                let mut parts = self.parts.lock().clone();
                parts.sort_by_key(|(i, _)| *i);
                let mut v = vec![];
                for (_, b) in parts {
                    v.extend_from_slice(&b);
                }
                let fail = matches!(pre, Pre::ProceedThenFail);
                self.store.push_event(
                    OpKind::MultipartComplete,
                    &p,
                    if fail { "InjectedAfter".into() } else { "ok".into() },
                    Some(Mutation::Put {
                        path: self.location.clone(),
                        data: Bytes::from(v),
                        attributes: self.attributes.clone(),
                    }),
                    if fail { Some("fail_after") } else { None },
                );
                self.store.landed_one();
                self.store.gate_post().await;
                if fail {
                    Err(injected("fail after (landed)", OpKind::MultipartComplete, &p))
                } else {
                    Ok(res)
                }
            }
            Err(e) => {
                self.store
                    .push_event(OpKind::MultipartComplete, &p, err_name(&e), None, None);
                Err(e)
            }
        }
    }

    async fn abort(&mut self) -> Result<()> {
        let p = self.location.to_string();
        let r = self.inner.abort().await;
        self.store.push_event(
            OpKind::MultipartAbort,
            &p,
            match &r {
                Ok(_) => "ok".into(),
                Err(e) => err_name(e),
            },
            None,
            None,
        );
        r
    }
}

//! Schema-only oracles of C13 (no storage, no async): field-by-field and serialize-path round
//! trips, rejection of invalid values on every write path and in stored bytes, the universal
//! "accepted on write => readable and equal" check, the complexity budget boundaries, schema
//! upgrade chains and the typed (derive) round trip. Pure Rust: also run under Miri.

use crate::generate::*;
use crate::typed::{Typed, canon_text};
use anda_db_schema::{Document, DocumentOwned, FieldEntry, FieldKey, Json, Schema, bf16};
use std::collections::{BTreeMap, BTreeSet};
use std::sync::Arc;
use vcore::{Rng, Stats, json};

pub const BRICK: &str = "C13/accepted_on_write_rejected_on_read";

/// Reports a violation signature at most once per process (further hits are counted). Used only
/// for the two dedicated scenarios (known finding / regression of a fixed finding), which would
/// fire on every case and fill the bounded violation list, hiding other signatures.
pub fn violation_once(st: &mut Stats, sig: String, detail: serde_json::Value) {
    static SEEN: std::sync::Mutex<Option<BTreeSet<String>>> = std::sync::Mutex::new(None);
    let mut g = SEEN.lock().unwrap();
    let set = g.get_or_insert_with(BTreeSet::new);
    if set.insert(sig.clone()) {
        drop(g);
        st.violation(sig, detail);
    } else {
        drop(g);
        st.count(&format!("repeat:{sig}"));
    }
}

pub fn build_schema(fields: &[(String, Ft)], version: u64) -> Result<Schema, String> {
    let mut b = Schema::builder();
    b.with_version(version);
    for (name, ft) in fields {
        let e = FieldEntry::new(name.clone(), ft.clone()).map_err(|e| format!("{e:?}"))?;
        b.add_field(e).map_err(|e| format!("{e:?}"))?;
    }
    b.build().map_err(|e| format!("{e:?}"))
}

fn json_to_cbor(j: &Json) -> cbor2::Value {
    use cbor2::Value as V;
    match j {
        Json::Null => V::Null,
        Json::Bool(b) => V::Bool(*b),
        Json::Number(n) => {
            if let Some(u) = n.as_u64() {
                V::Integer(u.into())
            } else if let Some(i) = n.as_i64() {
                V::Integer(i.into())
            } else {
                V::Float(n.as_f64().unwrap_or(0.0))
            }
        }
        Json::String(s) => V::Text(s.clone()),
        Json::Array(a) => V::Array(a.iter().map(json_to_cbor).collect()),
        Json::Object(o) => V::Map(o.iter().map(|(k, v)| (V::Text(k.clone()), json_to_cbor(v))).collect()),
    }
}

/// Harness-side FieldValue -> CBOR tree (independent of the crate's own conversion; can carry
/// NaN, which the crate's serializer refuses).
pub fn to_cbor(v: &Fv) -> cbor2::Value {
    use cbor2::Value as V;
    match v {
        Fv::Bool(b) => V::Bool(*b),
        Fv::I64(i) => V::Integer((*i).into()),
        Fv::U64(u) => V::Integer((*u).into()),
        Fv::F64(f) => V::Float(*f),
        Fv::F32(f) => V::Float(f64::from(*f)),
        Fv::Bytes(b) => V::Bytes(b.clone()),
        Fv::Text(t) => V::Text(t.clone()),
        Fv::Json(j) => json_to_cbor(j),
        Fv::Vector(x) => V::Array(x.iter().map(|b| V::Integer(b.to_bits().into())).collect()),
        Fv::Array(a) => V::Array(a.iter().map(to_cbor).collect()),
        Fv::Map(m) => V::Map(
            m.iter()
                .map(|(k, v)| {
                    let k = match k {
                        FieldKey::Text(s) => V::Text(s.clone()),
                        FieldKey::I64(i) => V::Integer((*i).into()),
                        FieldKey::Bytes(b) => V::Bytes(b.clone()),
                    };
                    (k, to_cbor(v))
                })
                .collect(),
        ),
        Fv::Null => V::Null,
    }
}

/// Stored-form bytes `{ "f": { idx: value } }` built without the crate's serializer.
pub fn inject_bytes(fields: &[(usize, &Fv)]) -> Result<Vec<u8>, String> {
    use cbor2::Value as V;
    let inner = V::Map(fields.iter().map(|(i, v)| (V::Integer((*i as u64).into()), to_cbor(v))).collect());
    let doc = V::Map(vec![(V::Text("f".into()), inner)]);
    let mut buf = vec![];
    cbor2::to_writer(&doc, &mut buf).map_err(|e| format!("{e:?}"))?;
    Ok(buf)
}

pub fn doc_bytes(doc: &Document) -> Result<Vec<u8>, String> {
    let mut buf = vec![];
    cbor2::to_writer(doc, &mut buf).map_err(|e| format!("{e:?}"))?;
    Ok(buf)
}

/// The read path: stored bytes -> DocumentOwned -> Document::try_from_doc.
pub fn read_bytes(schema: &Arc<Schema>, bytes: &[u8]) -> Result<Document, (&'static str, String)> {
    let owned: DocumentOwned = cbor2::from_reader(bytes).map_err(|e| ("deserialize", format!("{e:?}")))?;
    Document::try_from_doc(schema.clone(), owned).map_err(|e| ("try_from_doc", format!("{e:?}")))
}

fn hex(b: &[u8]) -> String {
    let mut s = String::with_capacity(b.len() * 2);
    for x in b.iter().take(400) {
        s.push_str(&format!("{x:02x}"));
    }
    if b.len() > 400 {
        s.push_str("...");
    }
    s
}

pub struct PairCtx<'a> {
    pub schema: &'a Arc<Schema>,
    pub ft: &'a Ft,
    /// "valid", an invalid class or a grey class
    pub class: &'a str,
}

impl PairCtx<'_> {
    fn detail(&self, value: &Fv, extra: serde_json::Value) -> serde_json::Value {
        json!({"type": brief(self.ft, 1500), "value": brief(value, 2500), "class": self.class, "what": extra})
    }
}

#[derive(Clone, Copy, PartialEq)]
pub enum Expect {
    /// documented valid, declared variant: must be accepted, read back strictly equal
    Valid,
    /// documented invalid: must be rejected
    Invalid,
    /// grey: no acceptance verdict; accepted => readable and loosely equal
    Grey,
}

/// Outcome of one write path: the document it produced, if it accepted.
fn write_set_field(schema: &Arc<Schema>, v: &Fv) -> Result<Document, String> {
    let mut doc = Document::new(schema.clone());
    doc.set_id(7);
    doc.set_field("v", v.clone()).map_err(|e| format!("{e:?}"))?;
    Ok(doc)
}

fn write_try_from(schema: &Arc<Schema>, v: &Fv) -> Result<Document, String> {
    let mut m: BTreeMap<String, cbor2::Value> = BTreeMap::new();
    m.insert("_id".into(), cbor2::Value::Integer(7u64.into()));
    m.insert("v".into(), to_cbor(v));
    Document::try_from(schema.clone(), &m).map_err(|e| format!("{e:?}"))
}

/// accept-write => accept-read, applied to a document a write path accepted.
/// `reference`: the value the read-back must equal (strictly when `strict`).
fn accepted_must_read_back(
    cx: &PairCtx,
    path: &str,
    doc: &Document,
    input: &Fv,
    reference: &Fv,
    strict: bool,
    st: &mut Stats,
) {
    let bytes = match doc_bytes(doc) {
        Ok(b) => b,
        Err(e) => {
            if strict {
                st.violation(
                    format!("C13/valid_accepted_but_not_serializable/{path}"),
                    cx.detail(input, json!({"error": e})),
                );
            } else {
                // e.g. NaN inside an untyped array: accepted by set_field, refused by the
                // serializer, hence never stored. Counted, not judged.
                st.count("accepted_but_unserializable_never_stored");
            }
            return;
        }
    };
    st.count("oracle_accept_write_implies_accept_read");
    let doc2 = match read_bytes(cx.schema, &bytes) {
        Ok(d) => d,
        Err((stage, e)) => {
            let sig = format!("{BRICK}/{stage}/{}", cx.class);
            let detail = cx.detail(input, json!({"write_path": path, "error": e, "stored_bytes": hex(&bytes),
                    "stored_value": brief(&doc.get_field("v"), 1500)}));
            if cx.class == VECTOR_UNTYPED {
                violation_once(st, sig, detail);
            } else {
                st.violation(sig, detail);
            }
            return;
        }
    };
    let Some(got) = doc2.get_field("v") else {
        st.violation(
            format!("C13/read_back_field_missing/{path}"),
            cx.detail(input, json!({"stored_bytes": hex(&bytes)})),
        );
        return;
    };
    let same = if strict { fv_eq(got, reference) } else { loose_eq(got, reference) };
    if !same {
        st.violation(
            format!("C13/read_back_changed/{}/{path}", if strict { "declared_variant" } else { "data" }),
            cx.detail(input, json!({"expected": brief(reference, 2500), "read_back": brief(got, 2500),
                "stored_bytes": hex(&bytes)})),
        );
        return;
    }
    if strict {
        if let Err(e) = conforms(cx.ft, got) {
            st.violation(
                format!("C13/read_back_not_in_declared_variant/{path}"),
                cx.detail(input, json!({"error": e, "read_back": brief(got, 2500)})),
            );
        }
        if doc2.id() != 7 {
            st.violation("C13/read_back_id_changed", cx.detail(input, json!({"id": doc2.id()})));
        }
    }
    // a document that was read is rewritten by every update: it must stay readable, and for
    // documents holding declared variants the bytes are a fixpoint
    match doc_bytes(&doc2) {
        Err(e) => st.violation(
            format!("C13/read_back_not_reserializable/{path}"),
            cx.detail(input, json!({"error": e})),
        ),
        Ok(bytes2) => {
            st.count("oracle_reserialize");
            if strict && bytes2 != bytes {
                st.violation(
                    format!("C13/reserialize_not_idempotent/{path}"),
                    cx.detail(input, json!({"first": hex(&bytes), "second": hex(&bytes2)})),
                );
            } else if bytes2 != bytes {
                match read_bytes(cx.schema, &bytes2) {
                    Err((stage, e)) => st.violation(
                        format!("{BRICK}/after_rewrite/{stage}/{}", cx.class),
                        cx.detail(input, json!({"write_path": path, "error": e, "stored_bytes": hex(&bytes2)})),
                    ),
                    Ok(d3) => {
                        if !d3.get_field("v").map(|x| loose_eq(x, got)).unwrap_or(false) {
                            st.violation(
                                format!("C13/read_back_changed/after_rewrite/{path}"),
                                cx.detail(input, json!({"first_read": brief(got, 1500),
                                    "second_read": brief(&d3.get_field("v"), 1500)})),
                            );
                        }
                    }
                }
            }
        }
    }
}

/// Runs one value through every schema-level write path and the stored-bytes injection.
pub fn check_value(cx: &PairCtx, v: &Fv, base: Option<&Fv>, expect: Expect, st: &mut Stats) {
    st.eval();
    type W = fn(&Arc<Schema>, &Fv) -> Result<Document, String>;
    let paths: [(&str, W); 2] = [("set_field", write_set_field), ("try_from", write_try_from)];
    for (path, write) in paths {
        match (write(cx.schema, v), expect) {
            (Ok(doc), Expect::Valid) => {
                st.count(&format!("valid_accepted:{path}"));
                let stored = doc.get_field("v").cloned().unwrap_or(Fv::Null);
                if !fv_eq(&stored, v) {
                    st.violation(
                        format!("C13/write_changed_valid_value/{path}"),
                        cx.detail(v, json!({"stored": brief(&stored, 2500)})),
                    );
                    continue;
                }
                accepted_must_read_back(cx, path, &doc, v, v, true, st);
            }
            (Err(e), Expect::Valid) => {
                st.violation(format!("C13/valid_rejected/{path}"), cx.detail(v, json!({"error": e})));
            }
            (Ok(doc), Expect::Invalid) => {
                st.violation(
                    format!("C13/invalid_accepted/{path}/{}", cx.class),
                    cx.detail(v, json!({"stored": brief(&doc.get_field("v"), 2500)})),
                );
                let stored = doc.get_field("v").cloned().unwrap_or(Fv::Null);
                accepted_must_read_back(cx, path, &doc, v, &stored, false, st);
            }
            (Err(_), Expect::Invalid) => st.count(&format!("invalid_rejected:{path}")),
            (Ok(doc), Expect::Grey) => {
                st.count(&format!("grey_accepted:{path}"));
                st.count(&format!("grey_accepted:{path}:{}", cx.class));
                let stored = doc.get_field("v").cloned().unwrap_or(Fv::Null);
                accepted_must_read_back(cx, path, &doc, v, &stored, false, st);
            }
            (Err(_), Expect::Grey) => st.count(&format!("grey_rejected:{path}")),
        }
    }
    // stored-bytes injection: the value as it would sit in storage, read through the read path
    let idx = cx.schema.get_field("v").map(|f| f.idx()).unwrap_or(1);
    let id = Fv::U64(7);
    let bytes = match inject_bytes(&[(0, &id), (idx, v)]) {
        Ok(b) => b,
        Err(e) => {
            st.inconclusive(format!("harness could not encode a value for injection: {e}"));
            return;
        }
    };
    let read = read_bytes(cx.schema, &bytes);
    // set_doc is the second consumer of stored documents; it must agree with try_from_doc
    if let Ok(owned) = cbor2::from_reader::<DocumentOwned, _>(&bytes[..]) {
        let mut d = Document::new(cx.schema.clone());
        let r = d.set_doc(owned);
        if r.is_ok() != read.is_ok() {
            st.violation(
                "C13/set_doc_disagrees_with_try_from_doc",
                cx.detail(v, json!({"set_doc_ok": r.is_ok(), "try_from_doc_ok": read.is_ok()})),
            );
        }
    }
    match (read, expect) {
        (Ok(doc), Expect::Valid) => {
            st.count("valid_accepted:stored_bytes");
            match doc.get_field("v") {
                Some(got) if fv_eq(got, v) => {}
                got => st.violation(
                    "C13/read_back_changed/declared_variant/stored_bytes",
                    cx.detail(v, json!({"read_back": brief(&got, 2500), "stored_bytes": hex(&bytes)})),
                ),
            }
        }
        (Err((stage, e)), Expect::Valid) => st.violation(
            format!("C13/valid_stored_bytes_rejected/{stage}"),
            cx.detail(v, json!({"error": e, "stored_bytes": hex(&bytes)})),
        ),
        (Ok(doc), Expect::Invalid) => {
            if cx.class == "keyed_map_extra_key" {
                // documented: undeclared keys of a keyed map are leftovers of a removed nested
                // field and are pruned on read; the rest must be the unmutated value
                let ok = match (doc.get_field("v"), base) {
                    (Some(got), Some(b)) => fv_eq(got, b),
                    _ => false,
                };
                if ok {
                    st.count("extra_key_pruned_on_read");
                } else {
                    st.violation(
                        "C13/invalid_accepted/stored_bytes/keyed_map_extra_key_not_pruned",
                        cx.detail(v, json!({"read_back": brief(&doc.get_field("v"), 2500)})),
                    );
                }
            } else {
                st.violation(
                    format!("C13/invalid_accepted/stored_bytes/{}", cx.class),
                    cx.detail(v, json!({"read_back": brief(&doc.get_field("v"), 2500), "stored_bytes": hex(&bytes)})),
                );
            }
        }
        (Err((stage, _)), Expect::Invalid) => st.count(&format!("invalid_rejected:stored_bytes:{stage}")),
        (Ok(doc), Expect::Grey) => {
            st.count("grey_accepted:stored_bytes");
            // whatever the read path accepts must survive being rewritten and read again
            let stored = doc.get_field("v").cloned().unwrap_or(Fv::Null);
            accepted_must_read_back(cx, "stored_bytes_rewrite", &doc, v, &stored, false, st);
        }
        (Err(_), Expect::Grey) => st.count("grey_rejected:stored_bytes"),
    }
}

fn note_type(ft: &Ft, st: &mut Stats) {
    walk_type(ft, &mut |t| st.count(&format!("ctor:{}", ctor_name(t))));
}

/// One (type, valid value) pair + one invalid mutation + one grey mutation.
pub fn pair_case(_case: u64, rng: &mut Rng, st: &mut Stats) {
    let depth = *rng.pick(&[0usize, 1, 1, 2, 2, 3, 3, 4, 4, 4]);
    let ft = gen_type(rng, depth);
    note_type(&ft, st);
    st.max("max_type_depth", type_depth(&ft) as u64);
    let schema = match build_schema(&[("v".to_string(), ft.clone())], 1) {
        Ok(s) => Arc::new(s),
        Err(e) => {
            st.inconclusive(format!("harness: schema build failed: {e}"));
            return;
        }
    };
    let mut g = G { rng, boundary: false };
    let v = gen_valid(&ft, &mut g, false);
    if let Err(e) = conforms(&ft, &v) {
        st.inconclusive(format!("harness: generator produced a non-conforming value: {e}"));
        return;
    }
    let tshape = type_shape(&ft);
    let th = vcore::fnv_str(&tshape);
    st.set("type_shapes", th);
    let vdepth = value_depth(&v);
    st.max("max_value_depth", vdepth as u64);
    {
        let cx = PairCtx { schema: &schema, ft: &ft, class: "valid" };
        check_value(&cx, &v, None, Expect::Valid, st);
        st.count("pairs_valid");
        if vdepth >= 2 || g.boundary {
            st.distinct(th ^ vcore::fnv_str(&value_shape(&v)).rotate_left(21));
        }
    }
    // top-level Null for a nullable field / absent optional field
    if let Some((w, class, d)) = mutate_invalid(&ft, &v, &mut g) {
        let cx = PairCtx { schema: &schema, ft: &ft, class };
        check_value(&cx, &w, Some(&v), Expect::Invalid, st);
        st.count(&format!("invalid:{class}"));
        st.count(&format!("invalid_depth:{d}"));
        st.count("pairs_invalid");
        st.distinct(th ^ vcore::fnv_str(&value_shape(&w)).rotate_left(21) ^ vcore::fnv_str(class));
        st.sample(|| json!({"monitor": "pairs", "type": brief(&ft, 300), "valid": brief(&v, 300),
            "invalid_class": class, "invalid": brief(&w, 300)}));
    }
    if let Some((w, class)) = mutate_grey(&ft, &v, &mut g) {
        let cx = PairCtx { schema: &schema, ft: &ft, class };
        check_value(&cx, &w, Some(&v), Expect::Grey, st);
        st.count(&format!("grey:{class}"));
        st.count("pairs_grey");
    }
}

// ---------------------------------------------------------------------------------------------
// complexity budget boundaries (documented: depth 64, nodes 16384, array 4096, map entries 4096)

fn nest_in(rng: &mut Rng, ft: Ft, at_limit: Fv, over: Fv) -> (Ft, Fv, Fv, usize) {
    // optionally bury the big value inside a typed composite so that the breach is deep inside
    match rng.below(5) {
        0 => (ft, at_limit, over, 0),
        1 => (Ft::Option(Box::new(ft)), at_limit, over, 0),
        2 => (
            Ft::Array(vec![Ft::Text, ft]),
            Fv::Array(vec![Fv::Text("x".into()), at_limit]),
            Fv::Array(vec![Fv::Text("x".into()), over]),
            1,
        ),
        3 => {
            let k = FieldKey::Text("big".into());
            (
                Ft::Map(BTreeMap::from([(k.clone(), ft), (FieldKey::Text("n".into()), Ft::Option(Box::new(Ft::U64)))])),
                Fv::Map(BTreeMap::from([(k.clone(), at_limit)])),
                Fv::Map(BTreeMap::from([(k, over)])),
                1,
            )
        }
        _ => {
            let k = FieldKey::I64(-5);
            (
                Ft::Map(BTreeMap::from([(FieldKey::I64(i64::MIN), Ft::Array(vec![ft]))])),
                Fv::Map(BTreeMap::from([(k.clone(), Fv::Array(vec![at_limit]))])),
                Fv::Map(BTreeMap::from([(k, Fv::Array(vec![over]))])),
                2,
            )
        }
    }
}

pub fn budget_case(case: u64, rng: &mut Rng, st: &mut Stats) {
    const KINDS: &[&str] =
        &["array_len", "map_entries", "nodes", "depth", "json_array_len", "json_object_entries", "untyped_array_len"];
    let kind = KINDS[(case % KINDS.len() as u64) as usize];
    let (ft, at_limit, over, extra_nodes_allowed) = match kind {
        "array_len" | "untyped_array_len" => {
            let (ft, elem): (Ft, fn(u64) -> Fv) = if kind == "untyped_array_len" {
                (Ft::Array(vec![]), |i| Fv::U64(i))
            } else {
                match rng.below(3) {
                    0 => (Ft::Array(vec![Ft::U64]), |i| Fv::U64(i)),
                    1 => (Ft::Array(vec![Ft::Bool]), |i| Fv::Bool(i % 2 == 0)),
                    _ => (Ft::Array(vec![Ft::Option(Box::new(Ft::I64))]), |i| if i % 3 == 0 { Fv::Null } else { Fv::I64(-(i as i64)) }),
                }
            };
            let a: Vec<Fv> = (0..4096u64).map(elem).collect();
            let mut b = a.clone();
            b.push(elem(4096));
            (ft, Fv::Array(a), Fv::Array(b), true)
        }
        "map_entries" => {
            let text = rng.bool();
            let ft = if text {
                Ft::Map(BTreeMap::from([(FieldKey::Text("*".into()), Ft::Bool)]))
            } else {
                Ft::Map(BTreeMap::from([(FieldKey::I64(i64::MIN), Ft::U64)]))
            };
            let mk = |n: u64| -> Fv {
                Fv::Map(
                    (0..n)
                        .map(|i| {
                            if text {
                                (FieldKey::Text(format!("k{i}")), Fv::Bool(true))
                            } else {
                                (FieldKey::I64(i as i64 - 2000), Fv::U64(i))
                            }
                        })
                        .collect(),
                )
            };
            (ft, mk(4096), mk(4097), true)
        }
        "nodes" => {
            // root + k inner arrays + their elements == 16384 exactly
            let k = 5 + rng.usize(4);
            let total = 16384 - 1 - k;
            let mut lens = vec![0usize; k];
            let mut left = total;
            for l in lens.iter_mut() {
                let take = left.min(4096 - rng.usize(3));
                *l = take;
                left -= take;
            }
            if left != 0 {
                st.inconclusive("harness: node budget case could not be laid out");
                return;
            }
            let mk = |lens: &[usize]| Fv::Array(lens.iter().map(|n| Fv::Array((0..*n as u64).map(Fv::U64).collect())).collect());
            let at = mk(&lens);
            let pos = lens.iter().position(|l| *l < 4096).unwrap_or(0);
            let mut lens2 = lens.clone();
            lens2[pos] += 1;
            if lens2[pos] > 4096 {
                st.inconclusive("harness: node budget case has no array with room");
                return;
            }
            (Ft::Array(vec![Ft::Array(vec![Ft::U64])]), at, mk(&lens2), false)
        }
        "depth" => {
            // a scalar leaf under k containers; documented maximum nesting depth is 64
            let use_map = rng.chance(1, 3);
            let mk = |k: usize| {
                let mut v = Fv::U64(1);
                for i in 0..k {
                    v = if use_map && i % 2 == 1 {
                        Fv::Map(BTreeMap::from([(FieldKey::Text("d".into()), v)]))
                    } else {
                        Fv::Array(vec![v])
                    };
                }
                v
            };
            if use_map {
                // both values need an Array on top to fit the one (untyped array) field type
                let inner63 = mk(63); // outermost container i=62 (even) is an Array
                let at = Fv::Array(vec![inner63.clone()]); // 64 containers
                let over = Fv::Array(vec![Fv::Array(vec![inner63])]); // 65 containers
                (Ft::Array(vec![]), at, over, false)
            } else {
                (Ft::Array(vec![]), mk(64), mk(65), false)
            }
        }
        "json_array_len" => {
            let mk = |n: u64| Fv::Json(Json::Array((0..n).map(Json::from).collect()));
            (Ft::Json, mk(4096), mk(4097), true)
        }
        _ => {
            let mk = |n: u64| Fv::Json(Json::Object((0..n).map(|i| (format!("k{i}"), Json::from(i))).collect()));
            (Ft::Json, mk(4096), mk(4097), true)
        }
    };
    let (ft, at_limit, over, _d) =
        if extra_nodes_allowed { nest_in(rng, ft, at_limit, over) } else { (ft, at_limit, over, 0) };
    note_type(&ft, st);
    let schema = match build_schema(&[("v".to_string(), ft.clone())], 1) {
        Ok(s) => Arc::new(s),
        Err(e) => {
            st.inconclusive(format!("harness: schema build failed: {e}"));
            return;
        }
    };
    let class = format!("budget_{kind}");
    let before = st.violations.len();
    check_value(&PairCtx { schema: &schema, ft: &ft, class: "valid" }, &at_limit, None, Expect::Valid, st);
    if st.violations.len() == before {
        st.count(&format!("budget_at_limit_accepted:{kind}"));
    }
    let before = st.violations.len();
    check_value(&PairCtx { schema: &schema, ft: &ft, class: &class }, &over, Some(&at_limit), Expect::Invalid, st);
    if st.violations.len() == before {
        st.count(&format!("budget_over_limit_rejected:{kind}"));
    }
    st.count(&format!("invalid:{class}"));
    st.distinct(vcore::fnv_str(&class) ^ vcore::fnv_str(&type_shape(&ft)));
}

/// Class label of the dedicated scenario below (kept out of the random grey classes so that its
/// alarm does not cut the `pairs` exploration short).
pub const VECTOR_UNTYPED: &str = "vector_in_untyped_position_counts_as_one_node";

/// A `Vector` sitting in an UNTYPED position (element of `Array([])`, value of `Map({})`): it is one
/// node as a `Vector`, but len+1 nodes / an array of len elements once read back, where no declared
/// type folds it back into a Vector. The variants straddle the three limits of the read-back shape
/// (array length 4096, node count 16384, depth 64). Returns (type, value, variant, read-back shape
/// within the documented budget).
pub fn vector_in_untyped_value(rng: &mut Rng) -> (Ft, Fv, &'static str, bool) {
    let big = |n: u32| Fv::Vector((0..n).map(|i| bf16::from_bits((i % 0x7f00) as u16)).collect());
    let deep = |containers: usize| {
        let mut v = big(1);
        for _ in 0..containers {
            v = Fv::Array(vec![v]);
        }
        vec![v]
    };
    let (payload, variant): (Vec<Fv>, &'static str) = match rng.below(8) {
        0 => (vec![Fv::U64(1), big(4097)], "array_len_over"), // array length 4097 > 4096 on read
        1 => (vec![Fv::U64(1), big(4096)], "array_len_at_limit"),
        2 => ((0..90).map(|_| big(200)).collect(), "nodes_over"), // 91 nodes as Vectors, 18091 on read
        3 => ((0..80).map(|_| big(200)).collect(), "nodes_within"), // <= 16083 on read in every wrapper
        // 1 + 3*(1+4094) + (1+4095) + 2 = 16384 nodes on read under a bare Array([])
        4 => (vec![big(4094), big(4094), big(4094), big(4095), Fv::U64(1), Fv::U64(2)], "nodes_exact_or_one_over"),
        5 => (vec![big(4094), big(4094), big(4094), big(4095), Fv::U64(1), Fv::U64(2), Fv::U64(3), Fv::U64(4)], "nodes_just_over"),
        // the bit patterns of the innermost vector sit 2 levels below the innermost array:
        // depth 62..64 on read (depending on the wrapper) resp. 65..67
        6 => (deep(60), "depth_within"),
        _ => (deep(63), "depth_over"),
    };
    let (ft, v) = match rng.below(5) {
        0 => (Ft::Array(vec![]), Fv::Array(payload)),
        1 => (Ft::Option(Box::new(Ft::Array(vec![]))), Fv::Array(payload)),
        2 => (
            Ft::Map(BTreeMap::new()),
            Fv::Map(payload.into_iter().enumerate().map(|(i, v)| (FieldKey::I64(i as i64), v)).collect()),
        ),
        3 => (
            Ft::Map(BTreeMap::from([(FieldKey::Text("*".into()), Ft::Array(vec![]))])),
            Fv::Map(BTreeMap::from([(FieldKey::Text("k".into()), Fv::Array(payload))])),
        ),
        // untyped below untyped: the vectors are two generic containers away from the declared type
        _ => (
            Ft::Array(vec![Ft::Text, Ft::Array(vec![])]),
            Fv::Array(vec![Fv::Text("t".into()), Fv::Array(vec![Fv::Map(BTreeMap::from([(FieldKey::I64(0), Fv::Array(payload))]))])]),
        ),
    };
    // the documented budget applied to the schema-less (read-back) shape: every value a node, root
    // at depth 0, 16384 nodes, depth 64, 4096 elements per container
    let (nodes, depth, widest) = generic_measure(&generic_canon(&v));
    let fits = nodes <= 16384 && depth <= 64 && widest <= 4096;
    (ft, v, variant, fits)
}

pub fn vector_untyped_case(_case: u64, rng: &mut Rng, st: &mut Stats) {
    let (ft, v, variant, fits) = vector_in_untyped_value(rng);
    let Ok(schema) = build_schema(&[("v".to_string(), ft.clone())], 1) else {
        return st.inconclusive("harness: schema build failed");
    };
    let schema = Arc::new(schema);
    let accepted = write_set_field(&schema, &v).is_ok();
    st.count(&format!(
        "vector_untyped:{}:{}",
        if fits { "read_back_within_budget" } else { "read_back_over_budget" },
        if accepted { "accepted" } else { "rejected" }
    ));
    st.set("vector_untyped_variants", vcore::fnv_str(variant) ^ vcore::fnv_str(ctor_name(&ft)));
    check_value(&PairCtx { schema: &schema, ft: &ft, class: VECTOR_UNTYPED }, &v, None, Expect::Grey, st);
    st.count("grey:vector_in_untyped_position");
}

/// (nodes, deepest node depth, widest container) of a value in its schema-less shape, counted the
/// way the documentation describes the budget: every value is a node, the root is at depth 0.
pub fn generic_measure(v: &Fv) -> (usize, usize, usize) {
    fn go(v: &Fv, depth: usize, acc: &mut (usize, usize, usize)) {
        acc.0 += 1;
        acc.1 = acc.1.max(depth);
        match v {
            Fv::Array(a) => {
                acc.2 = acc.2.max(a.len());
                a.iter().for_each(|x| go(x, depth + 1, acc));
            }
            Fv::Map(m) => {
                acc.2 = acc.2.max(m.len());
                m.values().for_each(|x| go(x, depth + 1, acc));
            }
            _ => {}
        }
    }
    let mut acc = (0, 0, 0);
    go(v, 0, &mut acc);
    acc
}

// ---------------------------------------------------------------------------------------------
// typed path

fn check_derived_schema<T: Typed>(st: &mut Stats) -> Option<Arc<Schema>> {
    let schema = match T::derived_schema() {
        Ok(s) => s,
        Err(e) => {
            st.violation(format!("C13/typed/schema_derivation_failed/{}", T::NAME), json!({"error": e}));
            return None;
        }
    };
    let expected = T::expected();
    let mut problems = vec![];
    if schema.len() != expected.len() + 1 {
        problems.push(format!("field count {} != documented {}", schema.len(), expected.len() + 1));
    }
    for (name, ft, unique) in &expected {
        match schema.get_field(name) {
            None => problems.push(format!("field {name:?} missing")),
            Some(f) => {
                if f.r#type() != ft {
                    problems.push(format!("field {name:?}: derived {:?}, documented table gives {:?}", f.r#type(), ft));
                }
                if f.unique() != *unique {
                    problems.push(format!("field {name:?}: unique {} != {}", f.unique(), unique));
                }
                if f.required() == matches!(ft, Ft::Option(_)) {
                    problems.push(format!("field {name:?}: required flag inconsistent with Option"));
                }
            }
        }
    }
    match schema.get_field("_id") {
        Some(f) if f.idx() == 0 && f.r#type() == &Ft::U64 && f.unique() => {}
        other => problems.push(format!("_id entry wrong: {other:?}")),
    }
    st.count("oracle_derived_schema_matches_documented_table");
    if !problems.is_empty() {
        st.violation(
            format!("C13/typed/derived_schema_differs_from_documented_mapping/{}", T::NAME),
            json!({"struct": T::NAME, "problems": problems}),
        );
        return None;
    }
    Some(Arc::new(schema))
}

/// T -> Document::try_from -> bytes -> try_from_doc -> try_into::<T> == T
pub fn typed_roundtrip<T: Typed>(rng: &mut Rng, st: &mut Stats, n: usize) {
    let Some(schema) = check_derived_schema::<T>(st) else {
        return;
    };
    for _ in 0..n {
        st.eval();
        let mut g = G { rng: &mut *rng, boundary: false };
        let mut t = T::generate(&mut g);
        t.set_id(1 + g.rng.below(u64::MAX - 1));
        let fail = |st: &mut Stats, sig: &str, what: serde_json::Value| {
            st.violation(
                format!("C13/typed/{sig}/{}", T::NAME),
                json!({"struct": T::NAME, "value": brief(&t, 3000), "what": what}),
            );
        };
        let doc = match Document::try_from(schema.clone(), &t) {
            Ok(d) => d,
            Err(e) => {
                fail(st, "valid_rejected/try_from", json!({"error": format!("{e:?}")}));
                continue;
            }
        };
        // every field the write path produced holds the declared variant
        for f in schema.iter() {
            if let Some(v) = doc.get_field(f.name()) {
                if let Err(e) = conforms(f.r#type(), v) {
                    fail(st, "written_field_not_in_declared_variant", json!({"field": f.name(), "error": e}));
                }
            }
        }
        let bytes = match doc_bytes(&doc) {
            Ok(b) => b,
            Err(e) => {
                fail(st, "valid_accepted_but_not_serializable", json!({"error": e}));
                continue;
            }
        };
        let doc2 = match read_bytes(&schema, &bytes) {
            Ok(d) => d,
            Err((stage, e)) => {
                st.violation(
                    format!("{BRICK}/{stage}/typed"),
                    json!({"write_path": "typed try_from", "struct": T::NAME, "value": brief(&t, 3000),
                        "error": e, "stored_bytes": hex(&bytes)}),
                );
                continue;
            }
        };
        let mut fields_ok = true;
        for f in schema.iter() {
            let (a, b) = (doc.get_field(f.name()), doc2.get_field(f.name()));
            let same = match (a, b) {
                (None, None) => true,
                (Some(a), Some(b)) => fv_eq(a, b),
                _ => false,
            };
            if !same {
                fields_ok = false;
                fail(
                    st,
                    "read_back_changed/declared_variant",
                    json!({"field": f.name(), "written": brief(&a, 1500), "read_back": brief(&b, 1500)}),
                );
            }
        }
        if !fields_ok {
            continue;
        }
        match doc_bytes(&doc2) {
            Ok(b2) if b2 == bytes => {}
            other => fail(st, "reserialize_not_idempotent", json!({"second": format!("{:?}", other.map(|b| hex(&b)))})),
        }
        match doc2.try_into::<T>() {
            Err(e) => {
                st.violation(
                    format!("{BRICK}/try_into_typed"),
                    json!({"struct": T::NAME, "value": brief(&t, 3000), "error": format!("{e:?}")}),
                );
            }
            Ok(back) => {
                if back != t || canon_text(&back) != canon_text(&t) {
                    fail(st, "typed_value_changed", json!({"back": brief(&back, 3000)}));
                } else {
                    st.count("typed_roundtrips");
                    st.count(&format!("typed_roundtrip:{}", T::NAME));
                    st.set("typed_structs_roundtripped", vcore::fnv_str(T::NAME));
                    if g.boundary {
                        st.distinct(vcore::fnv_str(T::NAME) ^ vcore::fnv_str(&canon_text(&t)));
                    }
                }
            }
        }
        // the direct path too (no stored form in between)
        match doc.try_into::<T>() {
            Ok(back) if back == t => {}
            Ok(back) => fail(st, "typed_value_changed_without_storage", json!({"back": brief(&back, 3000)})),
            Err(e) => fail(st, "try_into_failed_without_storage", json!({"error": format!("{e:?}")})),
        }
    }
    st.sample(|| json!({"monitor": "typed", "struct": T::NAME, "fields": T::expected().len()}));
}

// ---------------------------------------------------------------------------------------------
// schema upgrade chains

#[derive(Clone, Debug)]
struct UField {
    name: String,
    ft: Ft,
    /// identity of this incarnation of the name (a re-added name is a new lineage)
    lineage: u64,
    unique: bool,
}

const NESTED_KEYS: &[&str] = &["ka", "kb", "kc", "kd", "ke", "kf"];

fn keyed_type(rng: &mut Rng, n: usize) -> Ft {
    let mut m = BTreeMap::new();
    let mut pool: Vec<&str> = NESTED_KEYS.to_vec();
    rng.shuffle(&mut pool);
    for k in pool.into_iter().take(n) {
        let t = gen_type(rng, 1);
        let t = if rng.bool() { Ft::Option(Box::new(t)) } else { t };
        m.insert(FieldKey::Text(k.to_string()), t);
    }
    Ft::Map(m)
}

/// Finds the keyed map reachable through Option / homogeneous Array / wildcard wrappers.
fn keyed_map_mut(ft: &mut Ft) -> Option<&mut BTreeMap<FieldKey, Ft>> {
    match ft {
        Ft::Option(t) => keyed_map_mut(t),
        Ft::Array(ts) if ts.len() == 1 => keyed_map_mut(&mut ts[0]),
        Ft::Map(m) => {
            if m.is_empty() {
                None
            } else if wildcard_of(m).is_some() {
                keyed_map_mut(m.values_mut().next().unwrap())
            } else {
                Some(m)
            }
        }
        _ => None,
    }
}

fn wrap_keyed(rng: &mut Rng, inner: Ft) -> Ft {
    match rng.below(5) {
        0 => inner,
        1 => Ft::Option(Box::new(inner)),
        2 => Ft::Array(vec![inner]),
        3 => Ft::Map(BTreeMap::from([(FieldKey::Text("*".into()), inner)])),
        _ => Ft::Option(Box::new(Ft::Array(vec![inner]))),
    }
}

/// What the documented read path makes of a value written under `old` when read under `new`:
/// entries of keyed-map keys that `new` no longer declares are dropped (recursively).
fn prune_model(new: &Ft, v: &Fv) -> Fv {
    match (new, v) {
        (Ft::Option(t), v) if *v != Fv::Null => prune_model(t, v),
        (Ft::Array(ts), Fv::Array(vs)) => match ts.len() {
            0 => v.clone(),
            1 => Fv::Array(vs.iter().map(|x| prune_model(&ts[0], x)).collect()),
            _ => Fv::Array(ts.iter().zip(vs).map(|(t, x)| prune_model(t, x)).collect()),
        },
        (Ft::Map(m), Fv::Map(vs)) => {
            if m.is_empty() {
                v.clone()
            } else if let Some((_, t)) = wildcard_of(m) {
                Fv::Map(vs.iter().map(|(k, x)| (k.clone(), prune_model(t, x))).collect())
            } else {
                Fv::Map(
                    vs.iter().filter_map(|(k, x)| m.get(k).map(|t| (k.clone(), prune_model(t, x)))).collect(),
                )
            }
        }
        _ => v.clone(),
    }
}

/// Removes, from a value, the entries of the given nested keys of the (single) keyed map.
fn drop_keys(ft: &Ft, v: &Fv, keys: &BTreeSet<FieldKey>) -> Fv {
    match (ft, v) {
        (Ft::Option(t), v) if *v != Fv::Null => drop_keys(t, v, keys),
        (Ft::Array(ts), Fv::Array(vs)) if ts.len() == 1 => Fv::Array(vs.iter().map(|x| drop_keys(&ts[0], x, keys)).collect()),
        (Ft::Map(m), Fv::Map(vs)) => {
            if let Some((_, t)) = wildcard_of(m) {
                Fv::Map(vs.iter().map(|(k, x)| (k.clone(), drop_keys(t, x, keys))).collect())
            } else if m.is_empty() {
                v.clone()
            } else {
                Fv::Map(vs.iter().filter(|(k, _)| !keys.contains(*k)).map(|(k, x)| (k.clone(), x.clone())).collect())
            }
        }
        _ => v.clone(),
    }
}

struct Version {
    schema: Arc<Schema>,
    fields: Vec<UField>,
}

struct StoredDoc {
    version: usize,
    id: u64,
    bytes: Vec<u8>,
    /// lineage -> (field name, written value)
    values: BTreeMap<u64, (String, Fv)>,
}

fn schema_from(fields: &[UField], version: u64, rng: &mut Rng) -> Result<Schema, String> {
    // "the new schema is typically built from program code": sequential idx in code order, which
    // need not be the order of the persisted schema
    let mut order: Vec<&UField> = fields.iter().collect();
    rng.shuffle(&mut order);
    let mut b = Schema::builder();
    b.with_version(version);
    for f in order {
        let mut e = FieldEntry::new(f.name.clone(), f.ft.clone()).map_err(|e| format!("{e:?}"))?;
        if f.unique {
            e = e.with_unique();
        }
        b.add_field(e).map_err(|e| format!("{e:?}"))?;
    }
    b.build().map_err(|e| format!("{e:?}"))
}

fn persist_roundtrip(schema: &Schema, rng: &mut Rng) -> Result<Schema, String> {
    // a collection persists its schema in its metadata and upgrades from the loaded copy
    match rng.below(3) {
        0 => Ok(schema.clone()),
        1 => {
            let mut buf = vec![];
            cbor2::to_writer(schema, &mut buf).map_err(|e| format!("{e:?}"))?;
            cbor2::from_reader(&buf[..]).map_err(|e| format!("{e:?}"))
        }
        _ => {
            let s = serde_json::to_string(schema).map_err(|e| format!("{e:?}"))?;
            serde_json::from_str(&s).map_err(|e| format!("{e:?}"))
        }
    }
}

/// `with_retype`: also generate "nested key removed, later declared again with ANOTHER type"
/// (kept in its own section: `upgrade_with` permits every step of it, yet documents that still carry
/// the old entry become unreadable - known finding, signature
/// `C13/upgrade/old_document_unreadable/after_nested_key_readded_with_other_type`).
pub fn upgrade_case(_case: u64, rng: &mut Rng, st: &mut Stats, with_retype: bool) {
    let mut next_lineage = 1u64;
    let mut lin = || {
        next_lineage += 1;
        next_lineage
    };
    let names: Vec<String> = (0..10).map(|i| format!("f{i}")).collect();
    // initial fields
    let n0 = 2 + rng.usize(3);
    let mut fields: Vec<UField> = vec![];
    for name in names.iter().take(n0) {
        let ft = if with_retype || rng.chance(2, 5) {
            let nk = 2 + rng.usize(3);
            let k = keyed_type(rng, nk);
            wrap_keyed(rng, k)
        } else {
            let t = gen_type(rng, 2);
            if rng.bool() { Ft::Option(Box::new(t)) } else { t }
        };
        fields.push(UField { name: name.clone(), ft, lineage: lin(), unique: rng.chance(1, 8) });
    }
    let s0 = match schema_from(&fields, 1, rng) {
        Ok(s) => s,
        Err(e) => {
            st.inconclusive(format!("harness: initial schema: {e}"));
            return;
        }
    };
    let mut idx_owner: BTreeMap<usize, u64> = BTreeMap::new(); // every idx ever allocated -> lineage
    idx_owner.insert(0, 0);
    for f in &fields {
        idx_owner.insert(s0.get_field(&f.name).unwrap().idx(), f.lineage);
    }
    let mut versions = vec![Version { schema: Arc::new(s0), fields: fields.clone() }];
    let mut removed_names: Vec<String> = vec![];
    let mut docs: Vec<StoredDoc> = vec![];
    // nested keys that were removed at some point (per lineage), and those re-added later
    let mut nested_removed: BTreeMap<u64, BTreeMap<FieldKey, Ft>> = BTreeMap::new();
    let mut nested_readded: BTreeMap<u64, BTreeSet<FieldKey>> = BTreeMap::new();
    // lineage -> key -> index (into `versions`) of the version that declared it again with ANOTHER type
    let mut nested_readded_other_type: BTreeMap<u64, BTreeMap<FieldKey, usize>> = BTreeMap::new();
    let mut log: Vec<String> = vec![];
    let n_steps = if with_retype { 3 + rng.usize(3) } else { 2 + rng.usize(4) };

    let write_docs = |vi: usize, ver: &Version, rng: &mut Rng, docs: &mut Vec<StoredDoc>, st: &mut Stats| {
        for _ in 0..2 {
            let mut doc = Document::new(ver.schema.clone());
            let id = 100 + docs.len() as u64;
            doc.set_id(id);
            let mut values = BTreeMap::new();
            for f in &ver.fields {
                let mut g = G { rng: &mut *rng, boundary: false };
                if matches!(f.ft, Ft::Option(_)) && g.rng.chance(1, 4) {
                    continue; // absent optional field
                }
                let v = gen_valid(&f.ft, &mut g, false);
                if let Err(e) = doc.set_field(&f.name, v.clone()) {
                    st.violation(
                        "C13/valid_rejected/set_field",
                        json!({"monitor": "upgrade", "type": brief(&f.ft, 800), "value": brief(&v, 1500), "error": format!("{e:?}")}),
                    );
                    return;
                }
                values.insert(f.lineage, (f.name.clone(), v));
            }
            match doc_bytes(&doc) {
                Ok(bytes) => docs.push(StoredDoc { version: vi, id, bytes, values }),
                Err(e) => st.violation("C13/valid_accepted_but_not_serializable/set_field", json!({"monitor": "upgrade", "error": e})),
            }
        }
    };
    write_docs(0, &versions[0], rng, &mut docs, st);

    for step in 0..n_steps {
        let prev = versions.last().unwrap();
        let mut fields = prev.fields.clone();
        let n_ops = 1 + rng.usize(2);
        // removing and declaring again within ONE step is a plain type change, not a re-add
        let mut removed_now: Vec<String> = vec![];
        let mut nested_removed_now: Vec<(u64, FieldKey)> = vec![];
        for _ in 0..n_ops {
            let op = if with_retype { rng.weighted(&[6, 4, 4, 6, 30, 6, 44]) } else { rng.weighted(&[24, 20, 14, 14, 14, 10, 0]) };
            match op {
                0 => {
                    // add a new optional field
                    if let Some(name) = names.iter().find(|n| !fields.iter().any(|f| &f.name == *n) && !removed_names.contains(n)) {
                        let t = if rng.chance(1, 3) { keyed_type(rng, 2) } else { gen_type(rng, 2) };
                        let t = if matches!(t, Ft::Option(_)) { t } else { Ft::Option(Box::new(t)) };
                        log.push(format!("v{}: add optional {name}: {}", step + 2, type_shape(&t)));
                        fields.push(UField { name: name.clone(), ft: t, lineage: lin(), unique: false });
                        st.count("upgrade_op:add_optional_field");
                    }
                }
                1 => {
                    if fields.len() > 1 {
                        let i = rng.usize(fields.len());
                        let f = fields.remove(i);
                        log.push(format!("v{}: remove {}", step + 2, f.name));
                        removed_now.push(f.name.clone());
                        removed_names.push(f.name);
                        st.count("upgrade_op:remove_field");
                    }
                }
                2 => {
                    // re-add a removed name (a fresh optional field; its type may differ)
                    let cands: Vec<usize> =
                        (0..removed_names.len()).filter(|i| !removed_now.contains(&removed_names[*i])).collect();
                    if !cands.is_empty() {
                        let i = *rng.pick(&cands);
                        let name = removed_names.remove(i);
                        if !fields.iter().any(|f| f.name == name) {
                            let t = gen_type(rng, 2);
                            let t = if matches!(t, Ft::Option(_)) { t } else { Ft::Option(Box::new(t)) };
                            log.push(format!("v{}: re-add {name}: {}", step + 2, type_shape(&t)));
                            fields.push(UField { name, ft: t, lineage: lin(), unique: false });
                            st.count("upgrade_op:readd_removed_name");
                        }
                    }
                }
                3 => {
                    // nested struct gains an optional key
                    let cands: Vec<usize> = (0..fields.len()).filter(|i| keyed_map_mut(&mut fields[*i].ft.clone()).is_some()).collect();
                    if !cands.is_empty() {
                        let i = *rng.pick(&cands);
                        let lineage = fields[i].lineage;
                        let never_used = |k: &FieldKey, m: &BTreeMap<FieldKey, Ft>| {
                            !m.contains_key(k) && !nested_removed.get(&lineage).map(|r| r.contains_key(k)).unwrap_or(false)
                        };
                        let m = keyed_map_mut(&mut fields[i].ft).unwrap();
                        if let Some(k) = NESTED_KEYS.iter().map(|k| FieldKey::Text(k.to_string())).find(|k| never_used(k, m)) {
                            let t = Ft::Option(Box::new(gen_type(rng, 1)));
                            log.push(format!("v{}: {}.+{k:?}: {}", step + 2, fields[i].name, type_shape(&t)));
                            keyed_map_mut(&mut fields[i].ft).unwrap().insert(k, t);
                            st.count("upgrade_op:nested_add_optional_key");
                        }
                    }
                }
                4 => {
                    // nested struct loses a key
                    let cands: Vec<usize> = (0..fields.len())
                        .filter(|i| keyed_map_mut(&mut fields[*i].ft.clone()).map(|m| m.len() >= 2).unwrap_or(false))
                        .collect();
                    if !cands.is_empty() {
                        let i = *rng.pick(&cands);
                        let lineage = fields[i].lineage;
                        let m = keyed_map_mut(&mut fields[i].ft).unwrap();
                        let keys: Vec<FieldKey> = m.keys().cloned().collect();
                        let k = rng.pick(&keys).clone();
                        let t = m.remove(&k).unwrap();
                        // a one-entry map whose key is a wildcard sentinel would BE a wildcard map
                        if m.len() == 1 && is_wildcard_sentinel(m.keys().next().unwrap()) {
                            m.insert(k, t);
                            continue;
                        }
                        log.push(format!("v{}: {}.-{k:?}", step + 2, fields[i].name));
                        nested_removed_now.push((lineage, k.clone()));
                        nested_removed.entry(lineage).or_default().insert(k, t);
                        st.count("upgrade_op:nested_remove_key");
                    }
                }
                5 | 6 => {
                    // nested struct re-declares a key it had removed (same type / another type)
                    let earlier = |lineage: u64, r: &BTreeMap<FieldKey, Ft>| -> Option<FieldKey> {
                        r.keys().find(|k| !nested_removed_now.contains(&(lineage, (*k).clone()))).cloned()
                    };
                    let cands: Vec<usize> = (0..fields.len())
                        .filter(|i| {
                            nested_removed.get(&fields[*i].lineage).map(|r| earlier(fields[*i].lineage, r).is_some()).unwrap_or(false)
                                && keyed_map_mut(&mut fields[*i].ft.clone()).is_some()
                        })
                        .collect();
                    if !cands.is_empty() {
                        let i = *rng.pick(&cands);
                        let lineage = fields[i].lineage;
                        let k = earlier(lineage, &nested_removed[&lineage]).unwrap();
                        let removed = nested_removed.get_mut(&lineage).unwrap();
                        let old_t = removed.remove(&k).unwrap();
                        let old_inner = match &old_t {
                            Ft::Option(t) => (**t).clone(),
                            t => t.clone(),
                        };
                        let t = if op == 5 {
                            Ft::Option(Box::new(old_inner))
                        } else {
                            let other = loop {
                                let c = gen_scalar_type(rng);
                                if c != old_inner && c != Ft::Json {
                                    break c;
                                }
                            };
                            nested_readded_other_type.entry(lineage).or_default().insert(k.clone(), versions.len());
                            Ft::Option(Box::new(other))
                        };
                        log.push(format!("v{}: {}.re-add {k:?}: {}", step + 2, fields[i].name, type_shape(&t)));
                        nested_readded.entry(lineage).or_default().insert(k.clone());
                        keyed_map_mut(&mut fields[i].ft).unwrap().insert(k, t);
                        st.count(if op == 5 {
                            "upgrade_op:nested_readd_key_same_type"
                        } else {
                            "upgrade_op:nested_readd_key_other_type"
                        });
                    }
                }
                _ => {}
            }
        }
        let new_version = step as u64 + 2;
        let mut new_schema = match schema_from(&fields, new_version, rng) {
            Ok(s) => s,
            Err(e) => {
                st.inconclusive(format!("harness: schema build in chain: {e}"));
                return;
            }
        };
        let old = match persist_roundtrip(&prev.schema, rng) {
            Ok(s) => s,
            Err(e) => {
                st.violation("C13/upgrade/persisted_schema_not_loadable", json!({"error": e, "log": log}));
                return;
            }
        };
        if old != *prev.schema || old.allocated_idx_end() != prev.schema.allocated_idx_end() {
            st.violation(
                "C13/upgrade/persisted_schema_differs",
                json!({"log": log, "before": brief(&prev.schema, 1500), "after": brief(&old, 1500)}),
            );
            return;
        }
        // forbidden variants of this very upgrade must be refused and leave the schema untouched
        forbidden_upgrades(&fields, &prev.fields, &old, new_version, rng, st, &log);
        st.eval();
        if let Err(e) = new_schema.upgrade_with(&old) {
            st.violation(
                "C13/upgrade/permitted_upgrade_refused",
                json!({"error": format!("{e:?}"), "log": log, "old": brief(&old, 2000)}),
            );
            return;
        }
        st.count("upgrades_applied");
        // idx discipline: survivors keep theirs, newcomers never take one that was ever allocated
        for f in &fields {
            let idx = new_schema.get_field(&f.name).map(|e| e.idx()).unwrap_or(usize::MAX);
            match idx_owner.get(&idx) {
                Some(owner) if *owner == f.lineage => {}
                Some(owner) => {
                    st.violation(
                        "C13/upgrade/field_index_reused_or_moved",
                        json!({"field": f.name, "idx": idx, "previous_owner_lineage": owner, "log": log}),
                    );
                    return;
                }
                None => {
                    if prev.fields.iter().any(|p| p.lineage == f.lineage) {
                        st.violation("C13/upgrade/surviving_field_changed_index", json!({"field": f.name, "idx": idx, "log": log}));
                        return;
                    }
                    idx_owner.insert(idx, f.lineage);
                }
            }
        }
        st.count("oracle_upgrade_idx_discipline");
        let ver = Version { schema: Arc::new(new_schema), fields: fields.clone() };
        // read every older document at this version
        for d in &docs {
            st.count("upgrade_old_doc_reads");
            let span = versions.len() - d.version;
            st.max("max_upgrade_read_span", span as u64);
            let doc = match read_bytes(&ver.schema, &d.bytes) {
                Ok(doc) => doc,
                Err((stage, e)) => {
                    // Known finding (needs a maintainer decision): a nested key that was removed
                    // and later declared again with ANOTHER type makes documents that still carry
                    // the old entry unreadable. The failure is attributed to it only when the very
                    // same document, minus exactly those stale entries, IS readable; anything
                    // else keeps the general signature.
                    let detail = json!({"written_at_version": d.version + 1, "read_at_version": versions.len() + 1,
                        "error": e, "log": log, "stored_bytes": hex(&d.bytes),
                        "schema_now": brief(&ver.schema, 2500)});
                    let written_under = &versions[d.version];
                    let mut stale_entries = 0usize;
                    let mut parts: Vec<(usize, Fv)> = vec![(0, Fv::U64(d.id))];
                    for (lineage, (name, written)) in &d.values {
                        let stale: BTreeSet<FieldKey> = nested_readded_other_type
                            .get(lineage)
                            .map(|m| m.iter().filter(|(_, at)| **at > d.version).map(|(k, _)| k.clone()).collect())
                            .unwrap_or_default();
                        let (Some(entry), Some(old_f)) =
                            (written_under.schema.get_field(name), written_under.fields.iter().find(|f| f.lineage == *lineage))
                        else {
                            continue;
                        };
                        let cleaned = if stale.is_empty() { written.clone() } else { drop_keys(&old_f.ft, written, &stale) };
                        if !fv_eq(&cleaned, written) {
                            stale_entries += 1;
                        }
                        parts.push((entry.idx(), cleaned));
                    }
                    let refs: Vec<(usize, &Fv)> = parts.iter().map(|(i, v)| (*i, v)).collect();
                    let cleaned_doc = if stale_entries > 0 {
                        inject_bytes(&refs).ok().and_then(|b| read_bytes(&ver.schema, &b).ok())
                    } else {
                        None
                    };
                    match cleaned_doc {
                        Some(doc) => {
                            violation_once(
                                st,
                                "C13/upgrade/old_document_unreadable/after_nested_key_readded_with_other_type".to_string(),
                                detail,
                            );
                            st.count("upgrade_retype_unreadable_but_readable_without_stale_entries");
                            doc
                        }
                        None => {
                            st.violation(format!("C13/upgrade/old_document_unreadable/{stage}"), detail);
                            continue;
                        }
                    }
                }
            };
            for f in &ver.fields {
                let got = doc.get_field(&f.name);
                match d.values.get(&f.lineage) {
                    Some((_, written)) => {
                        // a surviving field: equal, minus entries of nested keys since removed;
                        // nested keys that were removed and declared again are left out of the
                        // comparison (the docs are silent on whether stale entries resurface)
                        let ignore = nested_readded.get(&f.lineage).cloned().unwrap_or_default();
                        let expected = drop_keys(&f.ft, &prune_model(&f.ft, written), &ignore);
                        let ok = got.map(|g| fv_eq(&drop_keys(&f.ft, g, &ignore), &expected)).unwrap_or(false);
                        st.count("oracle_upgrade_surviving_field_equal");
                        if !ignore.is_empty() {
                            st.count("upgrade_nested_readd_compared_modulo_readded_keys");
                        }
                        if !ok {
                            st.violation(
                                "C13/upgrade/surviving_field_changed",
                                json!({"field": f.name, "type_now": brief(&f.ft, 800), "written": brief(written, 1500),
                                    "expected": brief(&expected, 1500), "read": brief(&got, 1500), "log": log}),
                            );
                        }
                    }
                    None => {
                        // absent at write time, or a field (re-)added later: nothing may surface
                        st.count("oracle_upgrade_later_field_absent");
                        if got.is_some() {
                            st.violation(
                                "C13/upgrade/later_field_shows_stale_value",
                                json!({"field": f.name, "read": brief(&got, 1500), "log": log}),
                            );
                        }
                    }
                }
            }
            // removed ones are gone + the document can be rewritten under the new schema
            let known: BTreeSet<usize> = ver.schema.iter().map(|f| f.idx()).collect();
            if doc.fields().keys().any(|i| !known.contains(i)) {
                st.violation("C13/upgrade/removed_field_still_present", json!({"log": log, "fields": brief(doc.fields(), 1500)}));
            }
            match doc_bytes(&doc).map_err(|e| ("serialize", e)).and_then(|b| read_bytes(&ver.schema, &b)) {
                Ok(_) => st.count("oracle_upgrade_rewrite_readable"),
                Err((stage, e)) => st.violation(
                    format!("{BRICK}/after_upgrade_rewrite/{stage}"),
                    json!({"error": e, "log": log}),
                ),
            }
        }
        write_docs(versions.len(), &ver, rng, &mut docs, st);
        versions.push(ver);
    }
    st.count("upgrade_chains");
    st.set("upgrade_chain_shapes", vcore::fnv_str(&log.iter().map(|l| l.split(':').nth(1).unwrap_or("").split_whitespace().next().unwrap_or("").to_string()).collect::<Vec<_>>().join(",")));
    st.distinct(vcore::fnv_str(&log.join(";")));
    st.sample(|| json!({"monitor": "upgrade", "chain": log, "documents": docs.len()}));
}

fn forbidden_upgrades(
    fields: &[UField],
    prev_fields: &[UField],
    old: &Schema,
    new_version: u64,
    rng: &mut Rng,
    st: &mut Stats,
    log: &[String],
) {
    // survivors = fields present (same lineage) in both
    let survivors: Vec<usize> =
        (0..fields.len()).filter(|i| prev_fields.iter().any(|p| p.lineage == fields[*i].lineage)).collect();
    let kind = rng.below(9);
    let mut cand: Vec<UField> = fields.to_vec();
    let mut version = new_version;
    let name: &str = match kind {
        0 => {
            let Some(&i) = survivors.first().map(|_| rng.pick(&survivors)) else { return };
            // the type a survivor had in the persisted schema, changed to another scalar family
            let old_t = prev_fields.iter().find(|p| p.lineage == cand[i].lineage).unwrap().ft.clone();
            let t = loop {
                let c = gen_scalar_type(rng);
                if c != old_t {
                    break c;
                }
            };
            cand[i].ft = t;
            "type_change"
        }
        1 => {
            let Some(&i) = survivors.first().map(|_| rng.pick(&survivors)) else { return };
            let old_t = prev_fields.iter().find(|p| p.lineage == cand[i].lineage).unwrap().ft.clone();
            cand[i].ft = match old_t {
                Ft::Option(t) => *t,
                t => Ft::Option(Box::new(t)),
            };
            "optionality_change"
        }
        2 => {
            cand.push(UField { name: "brand_new_required".into(), ft: gen_scalar_type(rng), lineage: 0, unique: false });
            if matches!(cand.last().unwrap().ft, Ft::Json) {
                cand.last_mut().unwrap().ft = Ft::Text;
            }
            "new_required_field"
        }
        3 => {
            version = old.version() - rng.below(2).min(old.version());
            "version_not_greater"
        }
        4 => {
            let Some(&i) = survivors.first().map(|_| rng.pick(&survivors)) else { return };
            cand[i].unique = !cand[i].unique;
            "unique_flag_flip"
        }
        5 => {
            // nested key changes its type
            let c: Vec<usize> = survivors
                .iter()
                .copied()
                .filter(|i| {
                    let p = prev_fields.iter().find(|p| p.lineage == cand[*i].lineage).unwrap();
                    p.ft == cand[*i].ft && keyed_map_mut(&mut cand[*i].ft.clone()).is_some()
                })
                .collect();
            let Some(&i) = c.first().map(|_| rng.pick(&c)) else { return };
            let m = keyed_map_mut(&mut cand[i].ft).unwrap();
            let k = m.keys().next().unwrap().clone();
            let old_t = m[&k].clone();
            let t = loop {
                let c = gen_scalar_type(rng);
                if c != old_t && Ft::Option(Box::new(c.clone())) != old_t {
                    break c;
                }
            };
            m.insert(k, t);
            "nested_key_type_change"
        }
        6 => {
            // nested struct gains a REQUIRED key
            let c: Vec<usize> = survivors
                .iter()
                .copied()
                .filter(|i| {
                    let p = prev_fields.iter().find(|p| p.lineage == cand[*i].lineage).unwrap();
                    p.ft == cand[*i].ft && keyed_map_mut(&mut cand[*i].ft.clone()).is_some()
                })
                .collect();
            let Some(&i) = c.first().map(|_| rng.pick(&c)) else { return };
            let m = keyed_map_mut(&mut cand[i].ft).unwrap();
            m.insert(FieldKey::Text("new_required_key".into()), Ft::U64);
            "nested_new_required_key"
        }
        7 => {
            // tuple arity / homogeneous <-> tuple
            let c: Vec<usize> = survivors.iter().copied().filter(|i| matches!(cand[*i].ft, Ft::Array(_))).collect();
            let Some(&i) = c.first().map(|_| rng.pick(&c)) else { return };
            if let Ft::Array(ts) = &mut cand[i].ft {
                ts.push(Ft::Bool);
            }
            "array_arity_change"
        }
        _ => {
            // wildcard <-> keyed
            let c: Vec<usize> = survivors
                .iter()
                .copied()
                .filter(|i| matches!(&cand[*i].ft, Ft::Map(m) if wildcard_of(m).is_some()))
                .collect();
            let Some(&i) = c.first().map(|_| rng.pick(&c)) else { return };
            if let Ft::Map(m) = &mut cand[i].ft {
                let t = m.values().next().unwrap().clone();
                *m = BTreeMap::from([(FieldKey::Text("named".into()), t)]);
            }
            "wildcard_to_keyed"
        }
    };
    let Ok(mut s) = schema_from(&cand, version, rng) else { return };
    let before = s.clone();
    st.count(&format!("forbidden_upgrade:{name}"));
    match s.upgrade_with(old) {
        Ok(()) => st.violation(
            format!("C13/upgrade/forbidden_upgrade_accepted/{name}"),
            json!({"kind": name, "old": brief(old, 2000), "new": brief(&before, 2000), "log": log}),
        ),
        Err(_) => {
            st.count("forbidden_upgrades_refused");
            if s != before {
                st.violation(
                    "C13/upgrade/refused_upgrade_modified_schema",
                    json!({"kind": name, "before": brief(&before, 1500), "after": brief(&s, 1500)}),
                );
            }
        }
    }
}

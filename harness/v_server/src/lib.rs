//! Shared fixtures of the v_server monitors (C14): run-time extraction of the RPC dispatch table,
//! an in-process HTTP driver over `build_router(AppState)` on a `RecStore`, the scripted world
//! (databases A/B/C/D + primary, their keys, marker content), per-method parameter builders and
//! the admin snapshots used by the "no effect" oracle.

use anda_db_server::{AppState, Scope, ServerOptions, build_router};
use anda_object_store::{FaultHandle, FaultKind, FaultOp, FaultRule, FaultStore};
use axum::Router;
use axum::body::Body;
use http_body_util::BodyExt;
use serde_json::{Value, json};
use object_store::ObjectStore;
use std::collections::{BTreeMap, BTreeSet};
use std::sync::Arc;
use std::time::Duration;
use tower::ServiceExt;
pub use vcore::recstore::{Fault, Mutation, RecStore};

// ---------------------------------------------------------------------------------------------
// dispatch table extraction (text of api/mod.rs of the tree the harness was built against)

#[derive(Clone, Copy, PartialEq, Eq, Debug, Hash, PartialOrd, Ord)]
pub enum Effect {
    Read,
    Mutating,
}

impl Effect {
    pub fn name(self) -> &'static str {
        match self {
            Effect::Read => "Read",
            Effect::Mutating => "Mutating",
        }
    }
}

#[derive(Clone, Debug, Default)]
pub struct MethodTable {
    pub root: Vec<(String, Effect)>,
    pub db: Vec<(String, Effect)>,
    pub source: String,
}

impl MethodTable {
    pub fn root_effect(&self, m: &str) -> Option<Effect> {
        self.root.iter().find(|(n, _)| n == m).map(|(_, e)| *e)
    }
    pub fn db_effect(&self, m: &str) -> Option<Effect> {
        self.db.iter().find(|(n, _)| n == m).map(|(_, e)| *e)
    }
    /// Union of all names of both tables, in table order (root first).
    pub fn all_names(&self) -> Vec<String> {
        let mut v: Vec<String> = vec![];
        for (n, _) in self.root.iter().chain(self.db.iter()) {
            if !v.contains(n) {
                v.push(n.clone());
            }
        }
        v
    }
}

/// Directory of the server crate the harness was built against: `--arg server_src=`, else
/// `VERIF_SERVER_SRC`, else the `anda_db_server = { path = ".." }` entry of the harness workspace
/// manifest (so a scratch-worktree run reads the worktree's table), else /repo.
pub fn server_crate_dir(arg: Option<&String>) -> String {
    if let Some(a) = arg {
        return a.clone();
    }
    if let Ok(e) = std::env::var("VERIF_SERVER_SRC") {
        return e;
    }
    let ws = std::path::Path::new(env!("CARGO_MANIFEST_DIR")).join("../Cargo.toml");
    if let Ok(txt) = std::fs::read_to_string(&ws) {
        for line in txt.lines() {
            let l = line.trim();
            if l.starts_with("anda_db_server") {
                if let Some(p) = l.split("path").nth(1) {
                    if let Some(q) = p.split('"').nth(1) {
                        return q.to_string();
                    }
                }
            }
        }
    }
    "/repo/rs/anda_db_server".to_string()
}

/// Removes `//` comments (outside string literals) so that arms inside comments are not read.
fn strip_line_comments(src: &str) -> String {
    let mut out = String::with_capacity(src.len());
    for line in src.lines() {
        let b = line.as_bytes();
        let mut in_str = false;
        let mut cut = b.len();
        let mut i = 0;
        while i < b.len() {
            match b[i] {
                b'\\' if in_str => i += 1,
                b'"' => in_str = !in_str,
                b'/' if !in_str && i + 1 < b.len() && b[i + 1] == b'/' => {
                    cut = i;
                    break;
                }
                _ => {}
            }
            i += 1;
        }
        out.push_str(&line[..cut]);
        out.push('\n');
    }
    out
}

/// Text of the `{ .. }` block that follows the first occurrence of `header`.
fn block_after<'a>(src: &'a str, header: &str) -> Option<&'a str> {
    let start = src.find(header)?;
    let rest = &src[start..];
    let open = rest.find('{')?;
    let b = rest.as_bytes();
    let (mut depth, mut in_str, mut i) = (0i32, false, open);
    while i < b.len() {
        match b[i] {
            b'\\' if in_str => i += 1,
            b'"' => in_str = !in_str,
            b'{' if !in_str => depth += 1,
            b'}' if !in_str => {
                depth -= 1;
                if depth == 0 {
                    return Some(&rest[open..=i]);
                }
            }
            _ => {}
        }
        i += 1;
    }
    None
}

/// Reads the `"name" [| "name"..] => ( .., Read|Mutating )` arms of one `parse` function.
fn parse_arms(block: &str) -> Result<Vec<(String, Effect)>, String> {
    let parse_fn = block_after(block, "fn parse").ok_or("no `fn parse` in impl block")?;
    let b = parse_fn.as_bytes();
    let mut out: Vec<(String, Effect)> = vec![];
    let mut pending: Vec<String> = vec![];
    let mut i = 0;
    while i < b.len() {
        if b[i] == b'"' {
            let mut j = i + 1;
            let mut s = String::new();
            while j < b.len() && b[j] != b'"' {
                if b[j] == b'\\' && j + 1 < b.len() {
                    j += 1;
                }
                s.push(b[j] as char);
                j += 1;
            }
            pending.push(s);
            i = j + 1;
            continue;
        }
        if b[i] == b'=' && i + 1 < b.len() && b[i + 1] == b'>' {
            i += 2;
            if pending.is_empty() {
                continue;
            }
            // the arm body: up to the `,` / `}` that closes it at nesting depth 0
            let mut depth = 0i32;
            let mut j = i;
            while j < b.len() {
                match b[j] {
                    b'(' | b'{' | b'[' => depth += 1,
                    b')' | b'}' | b']' => {
                        if depth == 0 {
                            break;
                        }
                        depth -= 1;
                    }
                    b',' if depth == 0 => break,
                    _ => {}
                }
                j += 1;
            }
            let body = &parse_fn[i..j.min(b.len())];
            let words: Vec<&str> = body
                .split(|c: char| !(c.is_alphanumeric() || c == '_'))
                .filter(|w| !w.is_empty())
                .collect();
            let r = words.iter().any(|w| *w == "Read");
            let m = words.iter().any(|w| *w == "Mutating");
            let eff = match (r, m) {
                (true, false) => Effect::Read,
                (false, true) => Effect::Mutating,
                _ => {
                    return Err(format!(
                        "arm for {pending:?} is not classifiable as Read|Mutating: `{}`",
                        body.trim()
                    ));
                }
            };
            for n in pending.drain(..) {
                out.push((n, eff));
            }
            i = j;
            continue;
        }
        i += 1;
    }
    if !pending.is_empty() {
        return Err(format!("string literals without an arm: {pending:?}"));
    }
    Ok(out)
}

pub fn extract_method_table(server_dir: &str) -> Result<MethodTable, String> {
    let path = format!("{server_dir}/src/api/mod.rs");
    let raw = std::fs::read_to_string(&path).map_err(|e| format!("cannot read {path}: {e}"))?;
    let src = strip_line_comments(&raw);
    // only the non-test part of the file
    let src = match src.find("#[cfg(test)]") {
        Some(p) => &src[..p],
        None => &src[..],
    };
    let root_block = block_after(src, "impl RootMethod").ok_or("no `impl RootMethod` block")?;
    let db_block = block_after(src, "impl DbMethod").ok_or("no `impl DbMethod` block")?;
    Ok(MethodTable {
        root: parse_arms(root_block)?,
        db: parse_arms(db_block)?,
        source: path,
    })
}

// ---------------------------------------------------------------------------------------------
// HTTP driver

#[derive(Clone, Copy, PartialEq, Eq, Debug, Hash, PartialOrd, Ord)]
pub enum Enc {
    Cbor,
    Json,
    /// JSON body without a Content-Type header (answered in the default encoding, CBOR)
    Missing,
}

impl Enc {
    pub fn name(self) -> &'static str {
        match self {
            Enc::Cbor => "cbor",
            Enc::Json => "json",
            Enc::Missing => "no-content-type",
        }
    }
    /// Encoding the server answers in when only Content-Type is sent.
    pub fn reply(self) -> Enc {
        match self {
            Enc::Json => Enc::Json,
            _ => Enc::Cbor,
        }
    }
}

#[derive(Clone, Debug)]
pub struct Req {
    pub path: String,
    /// raw value of the Authorization header
    pub auth: Option<Vec<u8>>,
    pub enc: Enc,
    pub method: String,
    pub params: Value,
}

impl Req {
    pub fn describe(&self) -> Value {
        json!({"path": self.path,
               "authorization": self.auth.as_ref().map(|a| String::from_utf8_lossy(a).to_string()),
               "encoding": self.enc.name(), "method": self.method, "params": self.params})
    }
}

#[derive(Clone, Debug, PartialEq, Eq, Hash)]
pub struct Resp {
    pub status: u16,
    pub headers: Vec<(String, Vec<u8>)>,
    pub body: Vec<u8>,
}

impl Resp {
    pub fn describe(&self) -> Value {
        json!({"status": self.status,
               "headers": self.headers.iter().map(|(k, v)| format!("{k}: {}", String::from_utf8_lossy(v))).collect::<Vec<_>>(),
               "body": self.decoded().unwrap_or_else(|| json!(String::from_utf8_lossy(&self.body).to_string()))})
    }
    pub fn decoded(&self) -> Option<Value> {
        let ct = self
            .headers
            .iter()
            .find(|(k, _)| k == "content-type")
            .map(|(_, v)| String::from_utf8_lossy(v).to_string())
            .unwrap_or_default();
        if ct.contains("json") {
            serde_json::from_slice(&self.body).ok()
        } else if ct.contains("cbor") {
            cbor2::de::from_reader::<Value, _>(&self.body[..]).ok()
        } else {
            None
        }
    }
    pub fn error_code(&self) -> Option<String> {
        self.decoded()?.get("error")?.get("code")?.as_str().map(|s| s.to_string())
    }
    pub fn result(&self) -> Option<Value> {
        self.decoded()?.get("result").cloned()
    }
    pub fn class_hash(&self) -> u64 {
        vcore::hash_debug(self)
    }
}

pub fn encode_body(enc: Enc, method: &str, params: &Value) -> Vec<u8> {
    let req = json!({"method": method, "params": params});
    match enc {
        Enc::Cbor => {
            let mut body = Vec::new();
            cbor2::ser::to_writer(&req, &mut body).expect("cbor encode");
            body
        }
        _ => serde_json::to_vec(&req).expect("json encode"),
    }
}

/// Sends one request through the router. `Err` = the request could not even be built (harness).
pub async fn send(app: &Router, req: &Req) -> Result<Resp, String> {
    let body = encode_body(req.enc, &req.method, &req.params);
    send_raw(app, "POST", &req.path, req.auth.as_deref(), req.enc, body).await
}

pub async fn send_raw(
    app: &Router,
    http_method: &str,
    path: &str,
    auth: Option<&[u8]>,
    enc: Enc,
    body: Vec<u8>,
) -> Result<Resp, String> {
    let mut b = http::Request::builder().method(http_method).uri(path);
    match enc {
        Enc::Cbor => b = b.header(http::header::CONTENT_TYPE, "application/cbor"),
        Enc::Json => b = b.header(http::header::CONTENT_TYPE, "application/json"),
        Enc::Missing => {}
    }
    if let Some(a) = auth {
        let hv = http::HeaderValue::from_bytes(a).map_err(|e| format!("header value: {e}"))?;
        b = b.header(http::header::AUTHORIZATION, hv);
    }
    let request = b.body(Body::from(body)).map_err(|e| format!("request build ({path}): {e}"))?;
    let resp = app.clone().oneshot(request).await.map_err(|e| format!("oneshot: {e}"))?;
    let status = resp.status().as_u16();
    let mut headers: Vec<(String, Vec<u8>)> = resp
        .headers()
        .iter()
        .map(|(k, v)| (k.as_str().to_string(), v.as_bytes().to_vec()))
        .collect();
    headers.sort();
    let body = resp
        .into_body()
        .collect()
        .await
        .map_err(|e| format!("body collect: {e}"))?
        .to_bytes()
        .to_vec();
    Ok(Resp { status, headers, body })
}

pub fn bearer(key: &str) -> Vec<u8> {
    format!("Bearer {key}").into_bytes()
}

/// Lets spawned tasks make progress (current-thread runtime).
pub async fn drain(yields: usize) {
    for _ in 0..yields {
        tokio::task::yield_now().await;
    }
}

// ---------------------------------------------------------------------------------------------
// the scripted world

#[derive(Clone, Debug)]
pub struct Names {
    pub primary: String,
    pub a: String,
    pub b: String,
    /// had a key that was removed again: governed by the admin key only
    pub c: String,
    /// created with a key, populated, then closed (binding kept, not open)
    pub d: String,
    pub missing: String,
    /// B's name does not occur inside any other legitimate name (leak check on the name is sound)
    pub b_name_distinctive: bool,
}

impl Names {
    pub fn pair(i: usize) -> Names {
        let (a, b, distinct) = match i % 3 {
            0 => ("acorn_a1", "zebra_b9", true),
            // A's storage prefix "acorn" is a string prefix of B's "acorn_zq9"
            1 => ("acorn", "acorn_zq9", true),
            // B's name is a string prefix of A's
            _ => ("tenant_xq_long", "tenant_xq", false),
        };
        Names {
            primary: "prim_core0".into(),
            a: a.into(),
            b: b.into(),
            c: "cedar_c3".into(),
            d: "dormant_d4".into(),
            missing: "nosuch_m7".into(),
            b_name_distinctive: distinct,
        }
    }
    pub fn coll(&self, db: &str) -> String {
        if db == self.a {
            "items_alpha".into()
        } else if db == self.b {
            "stock_zq".into()
        } else if db == self.c {
            "notes_cedar".into()
        } else if db == self.d {
            "attic_dormant".into()
        } else {
            "sys_journal".into()
        }
    }
    pub fn marker(&self, db: &str) -> &'static str {
        if db == self.a {
            "ALPHAMARK"
        } else if db == self.b {
            "ZEBRAQUARTZ"
        } else if db == self.c {
            "CEDARMARK"
        } else if db == self.d {
            "DORMANTMARK"
        } else {
            "PRIMMARK"
        }
    }
}

#[derive(Clone, Debug)]
pub struct Keys {
    pub admin: String,
    pub a: String,
    /// first key of A, replaced by `a` (revoked by rotation)
    pub a_old: String,
    pub b: String,
    /// the key B carries in the "another key" world
    pub b_alt: String,
    /// key once bound to C, removed (revoked by removal)
    pub c_removed: String,
    pub d: String,
}

impl Default for Keys {
    fn default() -> Self {
        Keys {
            admin: "adm-5d1c6f0e92b74a13".into(),
            a: "ka-93f1e7c2a05b4d68".into(),
            a_old: "ka-old-1b7d44e0c9a2f356".into(),
            b: "kb-e4a09c31f7d2586b".into(),
            b_alt: "kb-alt-70c5b2e19d3f4a86".into(),
            c_removed: "kc-gone-2f8e61a4d7c0b935".into(),
            d: "kd-6a3f0b92e1c754d8".into(),
        }
    }
}

#[derive(Clone, Copy, PartialEq, Eq, Debug, Hash)]
pub enum BMode {
    /// B exists, bound to `keys.b`
    Keyed,
    /// B exists, bound to `keys.b_alt`
    Rekeyed,
    /// B exists without a key of its own (admin key only)
    Unbound,
    /// B does not exist
    Absent,
}

pub const ALL_BMODES: [BMode; 4] = [BMode::Keyed, BMode::Rekeyed, BMode::Unbound, BMode::Absent];

/// Lifecycle state the databases are brought into after the creation script.
#[derive(Clone, Copy, PartialEq, Eq, Debug, Hash)]
pub enum Life {
    /// everything open, collections loaded, all state flushed
    Warm,
    /// as Warm, plus documents added/updated/removed after the last flush
    Pending,
    /// databases (and A's collection) switched to read-only
    ReadOnly,
    /// A, B, C closed and reopened through the root scope: collections not loaded yet
    Reopened,
    /// AppState shut down gracefully and connected again over the same store
    Restarted,
    /// a second AppState over a copy of the store taken without any shutdown
    Crashed,
    /// as Crashed, with unflushed document writes at the moment of the copy
    CrashedPending,

    // --- states in which B is (meant to be) known to the server but not served; see `DORMANT_LIVES`
    /// graceful shutdown, then a restart during which every read of B's objects fails (transient
    /// storage fault): B stays registered but has no live entry; the fault is cleared afterwards
    UnopenedAfterFailedReopen,
    /// as `UnopenedAfterFailedReopen`, then the admin's `db.open` brings B back (collections cold)
    FailedReopenThenOpened,
    /// B closed with `db.close` and not reopened: no live entry, not registered, binding kept
    ClosedUnregistered,
    /// `db.close` of B whose registry write into the primary database failed (answered with an
    /// error): no live entry, still registered in memory and on disk, binding kept
    ClosedStillRegistered,
    /// B's key removed, a second key bound, removed, the first key bound again; B stays open
    RekeyedAfterRevoke,
    /// B is not created by the script; its `db.create` runs at the end and the `n`-th mutation
    /// attempt of it fails once (nothing lands), the server unwinds what it can
    CreateFailedAt(u8),
    /// as above, but the store becomes unreachable (every call fails) once `n` mutations of the
    /// `db.create` landed and comes back only after the answer: the unwind fails as well
    CreateOutageAt(u8),
    /// B's `db.create` completes, then a second AppState is connected over the crash state that
    /// holds only the first `n` landed mutations of it
    CreateCrashedAt(u8),
}

impl Life {
    /// Variant name without its parameter (counter keys, signatures).
    pub fn kind(self) -> String {
        format!("{self:?}").split('(').next().unwrap_or("").to_string()
    }
    /// One of the states added for the lifecycle monitor (`DORMANT_LIVES` + the create cuts).
    pub fn is_late(self) -> bool {
        !ALL_LIVES.contains(&self)
    }
    /// B is created (or attempted) by `apply_life`, not by the creation script.
    pub fn creates_b_late(self) -> bool {
        matches!(self, Life::CreateFailedAt(_) | Life::CreateOutageAt(_) | Life::CreateCrashedAt(_))
    }
    /// The state is only reached when B ends up without a live entry.
    pub fn b_must_be_dormant(self) -> bool {
        matches!(self, Life::UnopenedAfterFailedReopen | Life::ClosedUnregistered | Life::ClosedStillRegistered)
    }
    /// `Some(true)`: B must still be in the persisted registry; `Some(false)`: must not.
    pub fn b_must_be_registered(self) -> Option<bool> {
        match self {
            Life::UnopenedAfterFailedReopen | Life::ClosedStillRegistered | Life::FailedReopenThenOpened => Some(true),
            Life::ClosedUnregistered => Some(false),
            _ => None,
        }
    }
}

pub const ALL_LIVES: [Life; 7] = [
    Life::Warm,
    Life::Pending,
    Life::ReadOnly,
    Life::Reopened,
    Life::Restarted,
    Life::Crashed,
    Life::CrashedPending,
];

/// The fixed lifecycle states of the `states` monitor (the create cuts are enumerated on top).
pub const DORMANT_LIVES: [Life; 5] = [
    Life::UnopenedAfterFailedReopen,
    Life::FailedReopenThenOpened,
    Life::ClosedUnregistered,
    Life::ClosedStillRegistered,
    Life::RekeyedAfterRevoke,
];

#[derive(Clone, Debug)]
pub struct WorldSpec {
    pub names: Names,
    pub keys: Keys,
    pub bmode: BMode,
    pub life: Life,
}

/// In-process admin view (see `World::snap`). The light part is taken after every request, the
/// heavy part (metadata bytes, key-acceptance matrix) at a lower cadence.
#[derive(Clone, Debug, PartialEq, Eq)]
pub struct Snap {
    pub list: Vec<String>,
    /// (database, read-only flag)
    pub flags: Vec<(String, bool)>,
    /// (database, loaded collection, read-only flag, document count)
    pub coll_flags: Vec<(String, String, bool, u64)>,
    pub per_db: Option<BTreeMap<String, Vec<u8>>>,
    pub keys: Option<Vec<u8>>,
}

impl Snap {
    /// What differs between two views: "<database list>", "<key acceptance matrix>", or the names
    /// of the databases whose flags / collections / metadata changed. Heavy parts are compared
    /// only when both views carry them.
    pub fn diff(&self, other: &Snap) -> Vec<String> {
        let mut d: BTreeSet<String> = BTreeSet::new();
        if self.list != other.list {
            d.insert("<database list>".to_string());
        }
        for (x, y) in [(&self.flags, &other.flags), (&other.flags, &self.flags)] {
            for f in x {
                if !y.contains(f) {
                    d.insert(f.0.clone());
                }
            }
        }
        for (x, y) in [(&self.coll_flags, &other.coll_flags), (&other.coll_flags, &self.coll_flags)] {
            for f in x {
                if !y.contains(f) {
                    d.insert(f.0.clone());
                }
            }
        }
        if let (Some(a), Some(b)) = (&self.keys, &other.keys) {
            if a != b {
                d.insert("<key acceptance matrix>".to_string());
            }
        }
        if let (Some(a), Some(b)) = (&self.per_db, &other.per_db) {
            let names: BTreeSet<&String> = a.keys().chain(b.keys()).collect();
            for n in names {
                if a.get(n) != b.get(n) {
                    d.insert(n.clone());
                }
            }
        }
        d.into_iter().collect()
    }
}

pub struct World {
    pub spec: WorldSpec,
    pub rec: RecStore,
    pub state: AppState,
    pub app: Router,
    /// (db, collection) pairs whose handle is loaded (a read of any other collection is a cold
    /// open, which the server documents as writing: `api/collection.rs::open`)
    pub warm: BTreeSet<(String, String)>,
    pub n_docs: u64,
    /// control handle of the path-selective fault layer (late lifecycle states only; `rec` sits
    /// below it, so its log holds exactly what reached the backend)
    pub faults: Option<FaultHandle>,
    fault_store: Option<Arc<dyn ObjectStore>>,
    /// B has a live entry (observed from the database list once the lifecycle state is applied)
    pub b_open: bool,
    /// the key B was requested under is accepted for B (observed; only consulted for the
    /// interrupted-creation states, whose unwind of the binding is documented as best-effort)
    pub b_bound_observed: bool,
    /// what happened on the way into the state (evidence)
    pub life_notes: Vec<String>,
}

/// Body limit of the worlds (small, so that the over-limit probe is cheap).
pub const MAX_BODY: usize = 48 * 1024;

pub fn server_options(primary: &str, admin: Option<String>) -> ServerOptions {
    ServerOptions {
        name: "c14".to_string(),
        version: "0.0.0".to_string(),
        primary_db: primary.to_string(),
        description: "C14 world".to_string(),
        api_key: admin,
        // the periodic flush task must not fire inside a measured window
        flush_interval: Duration::from_secs(86_400),
        max_body_size: MAX_BODY,
        ..Default::default()
    }
}

pub fn collection_params(name: &str, marker: &str, with_hnsw: bool) -> Value {
    let mut fields = vec![
        json!({"name": "_id", "description": "", "type": "U64", "unique": true, "index": 0}),
        json!({"name": "title", "description": marker, "type": "Text", "unique": false, "index": 1}),
        json!({"name": "body", "description": "", "type": "Text", "unique": false, "index": 2}),
        json!({"name": "score", "description": "", "type": {"Option": "U64"}, "unique": false, "index": 3}),
    ];
    let mut p = json!({
        "config": {"name": name, "description": format!("{marker} collection")},
        "btree_indexes": [["score"]],
        "bm25_indexes": ["title", "body"],
    });
    if with_hnsw {
        fields.push(json!({"name": "emb", "description": "", "type": "Vector", "unique": false, "index": 4}));
        p["hnsw_indexes"] = json!([{"field": "emb", "config": {
            "dimension": 4, "max_layers": 4, "max_connections": 8, "ef_construction": 50,
            "ef_search": 20, "distance_metric": "Cosine", "select_neighbors_strategy": "Heuristic"}}]);
    }
    p["schema"] = json!({"fields": fields});
    p
}

pub fn doc_for(marker: &str, i: u64, with_hnsw: bool) -> Value {
    let mut d = json!({
        "title": format!("{marker} title {i}"),
        "body": format!("common words and {marker}{i} body text number {i}"),
        "score": i * 10,
    });
    if with_hnsw {
        let x = (i % 4) as usize;
        let mut v = [0.05f64; 4];
        v[x] = 1.0;
        d["emb"] = json!(v);
    }
    d
}

pub fn has_hnsw(names: &Names, db: &str) -> bool {
    db == names.a || db == names.b
}

impl World {
    pub async fn admin_ok(&self, path: &str, method: &str, params: Value) -> Value {
        let r = send(
            &self.app,
            &Req {
                path: path.to_string(),
                auth: Some(bearer(&self.spec.keys.admin)),
                enc: Enc::Cbor,
                method: method.to_string(),
                params,
            },
        )
        .await
        .expect("world script request");
        if r.status != 200 {
            panic!("world script: {method} on {path} answered {}", r.describe());
        }
        r.result().unwrap_or(Value::Null)
    }

    async fn populate(&mut self, db: &str, n_docs: u64) {
        let names = self.spec.names.clone();
        let coll = names.coll(db);
        let marker = names.marker(db);
        let hnsw = has_hnsw(&names, db);
        let path = format!("/{db}");
        self.admin_ok(&path, "collection.create", collection_params(&coll, marker, hnsw)).await;
        for i in 1..=n_docs {
            self.admin_ok(&path, "doc.add", json!({"collection": coll, "doc": doc_for(marker, i, hnsw)}))
                .await;
        }
        self.admin_ok(&path, "db.save_extension", json!({"key": "ext_db", "value": format!("{marker}_DBEXT")}))
            .await;
        self.admin_ok(
            &path,
            "collection.save_extension",
            json!({"collection": coll, "key": "ext_coll", "value": format!("{marker}_COLLEXT")}),
        )
        .await;
        self.warm.insert((db.to_string(), coll));
    }

    /// The creation script. Identical in every `BMode` except for the requests that concern B.
    pub async fn build(spec: WorldSpec) -> World {
        let rec = RecStore::new();
        rec.set_record_reads(false);
        // the late lifecycle states need faults by path and by operation: AppState -> FaultStore
        // (pass-through unless a rule is pushed) -> RecStore -> InMemory
        let (store, faults): (Arc<dyn ObjectStore>, Option<FaultHandle>) = if spec.life.is_late() {
            let (fs, h) = FaultStore::wrap(rec.clone());
            (Arc::new(fs), Some(h))
        } else {
            (rec.as_dyn(), None)
        };
        let fault_store = faults.as_ref().map(|_| store.clone());
        let state = AppState::connect(store, server_options(&spec.names.primary, Some(spec.keys.admin.clone())))
            .await
            .expect("AppState::connect");
        let app = build_router(state.clone());
        let mut w = World {
            spec,
            rec,
            state,
            app,
            warm: BTreeSet::new(),
            n_docs: 5,
            faults,
            fault_store,
            b_open: false,
            b_bound_observed: false,
            life_notes: vec![],
        };
        let (n, k) = (w.spec.names.clone(), w.spec.keys.clone());
        // A: created under a first key which is then rotated away
        w.admin_ok("/", "db.create", json!({"name": n.a, "api_key": k.a_old})).await;
        w.admin_ok("/", "db.set_api_key", json!({"name": n.a, "api_key": k.a})).await;
        // C: key bound, then removed
        w.admin_ok("/", "db.create", json!({"name": n.c, "description": "cedar"})).await;
        w.admin_ok("/", "db.set_api_key", json!({"name": n.c, "api_key": k.c_removed})).await;
        w.admin_ok("/", "db.remove_api_key", json!({"name": n.c})).await;
        // D: keyed, populated, closed (binding is kept by db.close)
        w.admin_ok("/", "db.create", json!({"name": n.d, "api_key": k.d})).await;
        w.populate(&n.d.clone(), 2).await;
        w.admin_ok("/", "db.close", json!({"name": n.d})).await;
        w.warm.retain(|(db, _)| db != &n.d);
        // B (the interrupted-creation states create it at the very end, see `apply_life`)
        let b_in_script = w.spec.bmode != BMode::Absent && !w.spec.life.creates_b_late();
        if b_in_script {
            w.admin_ok("/", "db.create", w.b_create_params()).await;
            w.b_open = true;
        }
        let nd = w.n_docs;
        w.populate(&n.a.clone(), nd).await;
        if b_in_script {
            w.populate(&n.b.clone(), nd).await;
        }
        w.populate(&n.c.clone(), 2).await;
        w.populate(&n.primary.clone(), 2).await;
        for db in w.open_dbs() {
            w.admin_ok(&format!("/{db}"), "db.flush", json!({})).await;
        }
        w.apply_life().await;
        w.b_open = w.state.db_names().await.contains(&n.b);
        w.b_bound_observed = match w.b_requested_key() {
            Some(key) => w.state.authorize(Scope::Database(&n.b), Some(key.as_str())).is_ok(),
            None => false,
        };
        w
    }

    /// The key B is created under in this world.
    pub fn b_requested_key(&self) -> Option<String> {
        match self.spec.bmode {
            BMode::Keyed => Some(self.spec.keys.b.clone()),
            BMode::Rekeyed => Some(self.spec.keys.b_alt.clone()),
            _ => None,
        }
    }

    fn b_create_params(&self) -> Value {
        let mut p = json!({"name": self.spec.names.b});
        if let Some(k) = self.b_requested_key() {
            p["api_key"] = json!(k);
        }
        p
    }

    /// Databases with a live entry according to the script (B: as observed after `apply_life`).
    pub fn open_dbs(&self) -> Vec<String> {
        let n = &self.spec.names;
        let mut v = vec![n.primary.clone(), n.a.clone(), n.c.clone()];
        if self.b_open {
            v.push(n.b.clone());
        }
        v
    }

    /// One admin request whose answer is part of the state under construction (may fail).
    async fn admin_try(&mut self, path: &str, method: &str, params: Value) -> Resp {
        let r = send(
            &self.app,
            &Req {
                path: path.to_string(),
                auth: Some(bearer(&self.spec.keys.admin)),
                enc: Enc::Cbor,
                method: method.to_string(),
                params,
            },
        )
        .await
        .expect("world script request");
        self.life_notes.push(format!("{method} -> {} {}", r.status, r.error_code().unwrap_or_default()));
        r
    }

    fn fault_handle(&self) -> FaultHandle {
        self.faults.clone().expect("late lifecycle states run over the fault layer")
    }

    async fn apply_life(&mut self) {
        let n = self.spec.names.clone();
        match self.spec.life {
            Life::Warm => {}
            Life::Pending | Life::CrashedPending => {
                for db in self.open_dbs() {
                    let (coll, marker, hnsw) = (n.coll(&db), n.marker(&db), has_hnsw(&n, &db));
                    let path = format!("/{db}");
                    self.admin_ok(&path, "doc.add", json!({"collection": coll, "doc": doc_for(marker, 77, hnsw)}))
                        .await;
                    self.admin_ok(
                        &path,
                        "doc.update",
                        json!({"collection": coll, "_id": 1, "fields": {"title": format!("{marker} retitled")}}),
                    )
                    .await;
                    self.admin_ok(&path, "doc.remove", json!({"collection": coll, "_id": 2})).await;
                }
                if self.spec.life == Life::CrashedPending {
                    let copy = self.rec.snapshot().await;
                    let rec = RecStore::over(copy);
                    rec.set_record_reads(false);
                    self.reconnect(rec).await;
                }
            }
            Life::ReadOnly => {
                for db in self.open_dbs() {
                    let path = format!("/{db}");
                    self.admin_ok(
                        &path,
                        "collection.set_read_only",
                        json!({"collection": n.coll(&db), "read_only": true}),
                    )
                    .await;
                    self.admin_ok(&path, "db.set_read_only", json!({"read_only": true})).await;
                }
            }
            Life::Reopened => {
                for db in self.open_dbs() {
                    if db == n.primary {
                        continue;
                    }
                    self.admin_ok("/", "db.close", json!({"name": db})).await;
                    self.admin_ok("/", "db.open", json!({"name": db})).await;
                    self.warm.retain(|(d, _)| d != &db);
                }
            }
            Life::Restarted => {
                self.state.shutdown().await;
                self.reconnect(self.rec.clone()).await;
            }
            Life::Crashed => {
                let copy = self.rec.snapshot().await;
                let rec = RecStore::over(copy);
                rec.set_record_reads(false);
                self.reconnect(rec).await;
            }
            Life::UnopenedAfterFailedReopen | Life::FailedReopenThenOpened => {
                self.state.shutdown().await;
                let h = self.fault_handle();
                // every read of an object of B fails while the server starts
                // (`<b>/`: B's objects only, also when A's name extends B's)
                h.push_rule(FaultRule {
                    op: FaultOp::Get,
                    path_contains: Some(format!("{}/", n.b)),
                    skip: 0,
                    times: u64::MAX,
                    kind: FaultKind::Error,
                });
                self.reconnect(self.rec.clone()).await;
                self.life_notes.push(format!(
                    "restarted while every GET under {}/ failed -> serving {:?}",
                    n.b,
                    self.state.db_names().await
                ));
                // storage recovers
                h.reset();
                if self.spec.life == Life::FailedReopenThenOpened && self.spec.bmode != BMode::Absent {
                    self.admin_try("/", "db.open", json!({"name": n.b})).await;
                }
            }
            Life::ClosedUnregistered => {
                self.admin_try("/", "db.close", json!({"name": n.b})).await;
                self.warm.retain(|(d, _)| d != &n.b);
            }
            Life::ClosedStillRegistered => {
                let h = self.fault_handle();
                // the registry lives in the primary database's metadata: its writes fail
                h.push_rule(FaultRule {
                    op: FaultOp::Put,
                    path_contains: Some(format!("{}/", n.primary)),
                    skip: 0,
                    times: u64::MAX,
                    kind: FaultKind::Error,
                });
                self.admin_try("/", "db.close", json!({"name": n.b})).await;
                h.reset();
                self.warm.retain(|(d, _)| d != &n.b);
            }
            Life::RekeyedAfterRevoke => {
                if self.spec.bmode != BMode::Absent {
                    let k = self.spec.keys.clone();
                    let own = self.b_requested_key();
                    // a key that is not the one B ends up with
                    let interim = if own.as_deref() == Some(k.b_alt.as_str()) { k.b.clone() } else { k.b_alt.clone() };
                    self.admin_ok("/", "db.remove_api_key", json!({"name": n.b})).await;
                    self.admin_ok("/", "db.set_api_key", json!({"name": n.b, "api_key": interim})).await;
                    self.admin_ok("/", "db.remove_api_key", json!({"name": n.b})).await;
                    if let Some(own) = own {
                        self.admin_ok("/", "db.set_api_key", json!({"name": n.b, "api_key": own})).await;
                    }
                }
            }
            Life::CreateFailedAt(cut) | Life::CreateOutageAt(cut) => {
                if self.spec.bmode != BMode::Absent {
                    let outage = matches!(self.spec.life, Life::CreateOutageAt(_));
                    if outage {
                        self.rec.set_fault(Fault::PowerOffAfter(self.rec.landed() + cut as u64));
                    } else {
                        self.rec.set_fault(Fault::FailBefore(self.rec.attempts() + cut as u64));
                    }
                    let r = self.admin_try("/", "db.create", self.b_create_params()).await;
                    drain(8).await;
                    let fired = self.rec.fault_fired();
                    self.rec.reset_faults();
                    self.life_notes.push(format!("fault fired: {fired}, create answered {}", r.status));
                }
            }
            Life::CreateCrashedAt(cut) => {
                let from = self.rec.mark();
                if self.spec.bmode != BMode::Absent {
                    self.admin_try("/", "db.create", self.b_create_params()).await;
                    drain(8).await;
                }
                let landed = self.rec.mark() - from;
                self.life_notes.push(format!("create landed {landed} mutations, crash state keeps {}", (cut as usize).min(landed)));
                let copy = self.rec.materialize(from + (cut as usize).min(landed)).await;
                let rec = RecStore::over(copy);
                rec.set_record_reads(false);
                self.reconnect(rec).await;
            }
        }
    }

    /// New `AppState` + router over `rec` (a restart of the process).
    pub async fn reconnect(&mut self, rec: RecStore) {
        // a world that runs over the fault layer keeps it: the same wrapper (and handle) over the
        // same store, a fresh one over a crash copy
        let store: Arc<dyn ObjectStore> = match &self.fault_store {
            Some(fs) if Arc::ptr_eq(&rec.0, &self.rec.0) => fs.clone(),
            Some(_) => {
                let (fs, h) = FaultStore::wrap(rec.clone());
                let fs: Arc<dyn ObjectStore> = Arc::new(fs);
                self.faults = Some(h);
                self.fault_store = Some(fs.clone());
                fs
            }
            None => rec.as_dyn(),
        };
        let state = AppState::connect(
            store,
            server_options(&self.spec.names.primary, Some(self.spec.keys.admin.clone())),
        )
        .await
        .expect("AppState::connect (restart)");
        self.app = build_router(state.clone());
        self.state = state;
        self.rec = rec;
        self.warm.clear();
    }

    /// The key bound to `db` in this world according to the creation script.
    pub fn bound_key(&self, db: &str) -> Option<&str> {
        let (n, k) = (&self.spec.names, &self.spec.keys);
        if db == n.a {
            Some(&k.a)
        } else if db == n.d {
            Some(&k.d)
        } else if db == n.b {
            // an interrupted creation unwinds the binding "best-effort" (state.rs,
            // undo_api_key_binding): whether it survived is observed, not prescribed
            if self.spec.life.creates_b_late() && !self.b_bound_observed {
                return None;
            }
            match self.spec.bmode {
                BMode::Keyed => Some(&k.b),
                BMode::Rekeyed => Some(&k.b_alt),
                _ => None,
            }
        } else {
            None
        }
    }

    /// Effective (state-changing) mutations since `mark`.
    pub fn effective_since(&self, mark: usize) -> Vec<Mutation> {
        self.rec.mutations_since(mark, None).into_iter().filter(|m| m.effective()).collect()
    }

    /// In-process admin view that loads nothing and writes nothing. Light: database list,
    /// read-only flags of the databases and of the loaded collections (+ their document count).
    /// Heavy: per-database metadata (collections, extensions - for the primary these are the
    /// registry and the key hashes) and the key-acceptance matrix over every name and key of the
    /// script.
    pub async fn snap(&self, heavy: bool) -> Snap {
        let list = self.state.db_names().await;
        let mut flags = vec![];
        let mut coll_flags = vec![];
        let mut per_db = BTreeMap::new();
        for name in &list {
            if let Ok(db) = self.state.get_db(name).await {
                flags.push((name.clone(), db.is_read_only()));
                for (d, c) in self.warm.iter().filter(|(d, _)| d == name) {
                    // a loaded handle is returned by the fast path (no storage access)
                    if let Ok(col) = db.open_collection(c.clone(), async |_| Ok(())).await {
                        let s = col.stats();
                        coll_flags.push((d.clone(), c.clone(), s.read_only, s.num_documents));
                    }
                }
                if heavy {
                    let mut out: Vec<u8> = vec![];
                    cbor2::ser::to_writer(&db.metadata(), &mut out).unwrap();
                    per_db.insert(name.clone(), out);
                }
            }
        }
        if !heavy {
            return Snap { list, flags, coll_flags, per_db: None, keys: None };
        }
        let (n, k) = (&self.spec.names, &self.spec.keys);
        let dbs = [&n.primary, &n.a, &n.b, &n.c, &n.d, &n.missing];
        let keys = [&k.admin, &k.a, &k.a_old, &k.b, &k.b_alt, &k.c_removed, &k.d];
        let mut km = vec![];
        for key in keys {
            km.push(self.state.authorize(Scope::Root, Some(key)).is_ok() as u8);
            for db in dbs {
                km.push(self.state.authorize(Scope::Database(db), Some(key)).is_ok() as u8);
            }
        }
        Snap { list, flags, coll_flags, per_db: Some(per_db), keys: Some(km) }
    }

    /// Admin view over HTTP: database list and, per open database, metadata, collection list,
    /// per collection the document count, every document and the definition (without the
    /// operation counters, which reads legitimately advance in memory).
    pub async fn full_snapshot(&mut self) -> Value {
        let list = self.admin_ok("/", "db.list", json!({})).await;
        let mut dbs = serde_json::Map::new();
        for name in list.as_array().cloned().unwrap_or_default() {
            let name = name.as_str().unwrap_or("").to_string();
            let path = format!("/{name}");
            let meta = self.admin_ok(&path, "db.metadata", json!({})).await;
            let colls = self.admin_ok(&path, "collection.list", json!({})).await;
            let mut cs = serde_json::Map::new();
            for c in colls.as_array().cloned().unwrap_or_default() {
                let c = c.as_str().unwrap_or("").to_string();
                let count = self.admin_ok(&path, "doc.count", json!({"collection": c})).await;
                let ids: Vec<u64> = (0..=90).collect();
                let docs = self.admin_ok(&path, "doc.get_many", json!({"collection": c, "_ids": ids})).await;
                let mut cm = self.admin_ok(&path, "collection.metadata", json!({"collection": c})).await;
                let st = cm["stats"].clone();
                cm["stats"] = json!({"read_only": st["read_only"], "num_documents": st["num_documents"],
                                     "max_document_id": st["max_document_id"]});
                self.warm.insert((name.clone(), c.clone()));
                cs.insert(c, json!({"count": count, "docs": docs, "meta": cm}));
            }
            dbs.insert(name, json!({"meta": meta, "collections": cs}));
        }
        json!({"list": list, "dbs": dbs})
    }

    pub async fn shutdown(self) {
        self.state.shutdown().await;
    }

    /// Would a server started now over the current backend content reopen `db`? (= `db` is in the
    /// persisted registry and its objects are readable.) Runs a throw-away AppState over a copy.
    pub async fn reopened_by_a_restart(&self, db: &str) -> Result<bool, String> {
        let copy = RecStore::over(self.rec.snapshot().await);
        copy.set_record_reads(false);
        let state = AppState::connect(
            copy.as_dyn(),
            server_options(&self.spec.names.primary, Some(self.spec.keys.admin.clone())),
        )
        .await
        .map_err(|e| format!("AppState::connect over a copy: {}", e.message))?;
        let has = state.db_names().await.iter().any(|n| n == db);
        state.shutdown().await;
        Ok(has)
    }

    /// Is `db` known to the running server (open or registered)? Observed through the admin's
    /// `db.set_api_key`, which answers 404 for an unknown name - it MUTATES the bindings, so only
    /// for a world that is thrown away afterwards.
    pub async fn known_to_server_destructive(&mut self, db: &str) -> bool {
        let r = self.admin_try("/", "db.set_api_key", json!({"name": db, "api_key": "kz-end-of-case-probe"})).await;
        r.status == 200
    }
}

// ---------------------------------------------------------------------------------------------
// parameter builders

/// What a request's parameters refer to: the addressed database when the harness knows it,
/// else A's content.
#[derive(Clone, Debug)]
pub struct Target {
    pub db: String,
    pub coll: String,
    pub marker: &'static str,
    pub hnsw: bool,
    /// a database name that is NOT the addressed one, planted in ignored parameter fields
    pub decoy: String,
}

impl Target {
    pub fn of(names: &Names, addressed: Option<&str>) -> Target {
        let known = [&names.primary, &names.a, &names.b, &names.c, &names.d];
        let db = match addressed {
            Some(d) if known.iter().any(|k| k.as_str() == d) => d.to_string(),
            _ => names.a.clone(),
        };
        let decoy = if db == names.b { names.a.clone() } else { names.b.clone() };
        Target {
            coll: names.coll(&db),
            marker: names.marker(&db),
            hnsw: has_hnsw(names, &db),
            db,
            decoy,
        }
    }
}

/// Which database a root-scope request names in `params.name`.
#[derive(Clone, Copy, PartialEq, Eq, Debug, Hash)]
pub enum RootAim {
    /// the natural valid target of the method (see `root_params`)
    Natural,
    /// the caller's sibling: B
    Other,
}

pub const KNOWN_ROOT: [&str; 8] = [
    "info", "db.list", "db.create", "db.open", "db.connect", "db.close", "db.set_api_key",
    "db.remove_api_key",
];

/// Valid parameters of the root-scope methods known today; `None` for a method added later.
pub fn root_params(method: &str, names: &Names, aim: RootAim) -> Option<Value> {
    let other = aim == RootAim::Other;
    Some(match method {
        "info" | "db.list" => json!({}),
        "db.create" => json!({"name": if other { names.b.clone() } else { "fresh_made1".to_string() },
                              "api_key": "key-of-fresh-made-1"}),
        "db.open" => json!({"name": if other { &names.b } else { &names.d }}),
        "db.connect" => json!({"name": if other { names.b.clone() } else { "fresh_conn2".to_string() }}),
        "db.close" => json!({"name": if other { &names.b } else { &names.c }}),
        "db.set_api_key" => json!({"name": if other { &names.b } else { &names.a }, "api_key": "key-rotated-in-3"}),
        "db.remove_api_key" => json!({"name": if other { &names.b } else { &names.a }}),
        _ => return None,
    })
}

/// Valid parameters of the database-scope methods known today; `None` for a method added later.
/// Every object carries ignored top-level fields naming another database (`decoy`): a handler
/// that resolved the database from the parameters instead of the authorized path would act there.
pub fn db_params(method: &str, t: &Target) -> Option<Value> {
    let c = &t.coll;
    let mut p = match method {
        "info" | "db.metadata" | "db.stats" | "db.flush" | "collection.list" => json!({}),
        "db.set_read_only" => json!({"read_only": true}),
        "db.get_extension" => json!({"key": "ext_db"}),
        "db.save_extension" => json!({"key": "ext_new", "value": format!("{}_NEWEXT", t.marker)}),
        "db.remove_extension" => json!({"key": "ext_db"}),
        "collection.create" => collection_params("made_later", t.marker, false),
        "collection.ensure" => collection_params(c, t.marker, t.hnsw),
        "collection.metadata" | "collection.stats" | "collection.delete" | "collection.flush"
        | "doc.count" => json!({"collection": c}),
        "collection.set_read_only" => json!({"collection": c, "read_only": true}),
        "collection.get_extension" | "collection.remove_extension" => {
            json!({"collection": c, "key": "ext_coll"})
        }
        "collection.save_extension" => json!({"collection": c, "key": "ext_more", "value": 7}),
        "doc.add" => json!({"collection": c, "doc": doc_for(t.marker, 50, t.hnsw)}),
        "doc.add_many" => json!({"collection": c, "docs": [doc_for(t.marker, 51, t.hnsw), doc_for(t.marker, 52, t.hnsw)]}),
        "doc.get" | "doc.exists" | "doc.remove" => json!({"collection": c, "_id": 1}),
        "doc.get_many" => json!({"collection": c, "_ids": [1, 2, 99]}),
        "doc.update" => json!({"collection": c, "_id": 1, "fields": {"title": format!("{} updated", t.marker)}}),
        "doc.search" => {
            if t.hnsw {
                json!({"collection": c, "query": {"search": {"text": "common words", "vector": [1.0, 0.0, 0.0, 0.0]}, "limit": 5}})
            } else {
                json!({"collection": c, "query": {"search": {"text": "common words"}, "limit": 5}})
            }
        }
        "doc.search_ids" => json!({"collection": c, "query": {"filter": {"Field": ["score", {"Ge": 0}]}, "limit": 5}}),
        "doc.query_ids" | "doc.query_last_ids" => {
            json!({"collection": c, "filter": {"Field": ["score", {"Ge": 10}]}, "limit": 3})
        }
        _ => return None,
    };
    for k in ["name", "db", "db_name", "database"] {
        if p.get(k).is_none() {
            p[k] = json!(t.decoy);
        }
    }
    Some(p)
}

pub const KNOWN_DB: [&str; 31] = [
    "info", "db.metadata", "db.stats", "db.flush", "db.set_read_only", "db.get_extension",
    "db.save_extension", "db.remove_extension", "collection.list", "collection.create",
    "collection.ensure", "collection.metadata", "collection.stats", "collection.delete",
    "collection.flush", "collection.set_read_only", "collection.get_extension",
    "collection.save_extension", "collection.remove_extension", "doc.add", "doc.add_many",
    "doc.get", "doc.get_many", "doc.update", "doc.remove", "doc.exists", "doc.count", "doc.search",
    "doc.search_ids", "doc.query_ids", "doc.query_last_ids",
];

/// Does this database-scope method name a collection in its parameters?
pub fn touches_collection(method: &str) -> bool {
    method.starts_with("collection.") && method != "collection.list" && method != "collection.create"
        || method.starts_with("doc.")
}

/// First forbidden needle that occurs in `hay`.
pub fn find_leak<'a>(hay: &[u8], needles: &'a [String]) -> Option<&'a str> {
    needles
        .iter()
        .find(|n| !n.is_empty() && hay.windows(n.len()).any(|w| w == n.as_bytes()))
        .map(|s| s.as_str())
}

/// Replaces values that legitimately differ between two executions of the same script
/// (unix-millisecond timestamps) by a constant.
pub fn mask_times(v: &Value) -> Value {
    match v {
        Value::Number(n) => match n.as_u64() {
            Some(x) if x >= 1_000_000_000_000 && x < 100_000_000_000_000 => json!("<ms>"),
            _ => v.clone(),
        },
        Value::Array(a) => Value::Array(a.iter().map(mask_times).collect()),
        Value::Object(o) => Value::Object(o.iter().map(|(k, x)| (k.clone(), mask_times(x))).collect()),
        _ => v.clone(),
    }
}

pub fn new_runtime() -> tokio::runtime::Runtime {
    tokio::runtime::Builder::new_current_thread()
        .enable_time()
        .build()
        .expect("tokio current-thread runtime")
}

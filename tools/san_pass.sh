#!/usr/bin/env bash
# usage: tools/san_pass.sh <engine> <Cxx> <pkg> <bin> <sections> <budget_s> <seed>
# Builds (from /repo's working tree, own target dir) and runs one sanitizer pass. Exit codes as ./check:
# 0 = no report and the monitors held, 1 = VIOLATION (sanitizer report or monitor violation),
# 2 = inconclusive (build failed, tool missing, nothing executed).
set -u
cd "$(dirname "$0")/.."
ENGINE="$1"; ID="$2"; PKG="$3"; BIN="$4"; SECTIONS="$5"; BUDGET="$6"; SEED="$7"
ROOT="${VERIF_ROOT:-$(pwd)}"
export CARGO_NET_OFFLINE=true
mkdir -p logs/san replay
LOG="logs/san/$ID.$ENGINE.log"
REPORT="logs/san/$ID.$ENGINE.report"
rm -f "$REPORT".* "$LOG"
T0=$(date +%s)
TRIPLE=x86_64-unknown-linux-gnu
BUILD_S=0
status() { # writes the pass status file read by merge_san.py (wall_s includes build_s)
  printf '{"engine":"%s","sections":"%s","status":"%s","reports":%s,"wall_s":%s,"build_s":%s,"note":"%s"}\n' \
    "$ENGINE" "$SECTIONS" "$1" "$2" "$(( $(date +%s) - T0 ))" "$BUILD_S" "$3" > "logs/san/$ID.$ENGINE.status.json"
}
violation() { # $1 = file that holds the report
  local dst="replay/$ID-$ENGINE-$SEED.report"
  cp "$1" "$dst" 2>/dev/null || true
  echo "  sanitizer report ($ENGINE):"; head -40 "$dst" | sed 's/^/    /'
  echo "VIOLATION property=$ID replay=$ROOT/$dst"
}
case "$ENGINE" in
  tsan|asan)
    if [ "$ENGINE" = tsan ]; then
      FLAGS="-Zsanitizer=thread -Cunsafe-allow-abi-mismatch=sanitizer"; STD="-Zbuild-std"
      export TSAN_OPTIONS="halt_on_error=1:exitcode=66:report_signal_unsafe=0:suppressions=$(pwd)/tools/tsan.supp:log_path=$ROOT/$REPORT"
    else
      # recover mode + halt_on_error=0: the run continues after a report (ASan then reports each code
      # location once), tools/asan_triage.py classifies what was reported afterwards - needed because one
      # report class is a known false positive in safe code that cannot be switched off (see that script).
      FLAGS="-Zsanitizer=address -Zsanitizer-recover=address -Cforce-frame-pointers=yes"; STD=""
      export ASAN_OPTIONS="detect_leaks=0:halt_on_error=0:abort_on_error=0:exitcode=66:log_path=$ROOT/$REPORT"
    fi
    if ! ( cd harness && RUSTFLAGS="$FLAGS" CARGO_TARGET_DIR="$ROOT/harness/target-$ENGINE" \
           cargo +nightly build --release --offline $STD --target $TRIPLE -p "$PKG" --bin "$BIN" ) > "logs/san/build-$ID-$ENGINE.log" 2>&1; then
      echo "INCONCLUSIVE property=$ID $ENGINE build failed (see logs/san/build-$ID-$ENGINE.log)"
      tail -5 "logs/san/build-$ID-$ENGINE.log"
      status inconclusive 0 "build failed"; exit 2
    fi
    BUILD_S=$(( $(date +%s) - T0 ))
    VERIF_EVIDENCE_TAG="$ENGINE" "harness/target-$ENGINE/$TRIPLE/release/$BIN" \
        --tier quick --seed "$SEED" --only "$SECTIONS" --budget-s "$BUDGET" > "$LOG" 2>&1
    rc=$?
    nrep=$(ls "$REPORT".* 2>/dev/null | wc -l)
    NOTE=""
    if [ "$ENGINE" = asan ] && [ "$nrep" != 0 ]; then
      if python3 tools/asan_triage.py "$REPORT".* > "$REPORT-triage" 2>&1; then
        NOTE="$(grep -c '^ignored' "$REPORT-triage") false-positive stack-use-after-scope location(s) in safe non-repository code ignored (tools/asan_triage.py)"
        sed 's/^/  [asan] /' "$REPORT-triage" | cut -c1-220
        mkdir -p logs/san/ignored; mv "$REPORT".* logs/san/ignored/ 2>/dev/null; nrep=0
        [ "$rc" = 66 ] && rc=0
      else
        grep '^REPORT' "$REPORT-triage" | cut -c1-300
      fi
    fi
    if [ "$rc" = 66 ] || [ "$nrep" != 0 ]; then
      f=$(ls "$REPORT".* 2>/dev/null | head -1); [ -z "$f" ] && f="$LOG"
      violation "$f"; status violated "$nrep" "sanitizer report"; exit 1
    fi
    if [ "$rc" = 1 ]; then grep -E '^(VIOLATION|  violation:)' "$LOG"; status violated 0 "monitor violation under $ENGINE"; exit 1; fi
    if [ "$rc" != 0 ]; then
      echo "INCONCLUSIVE property=$ID $ENGINE pass exit code $rc (see $LOG)"; tail -3 "$LOG"
      status inconclusive 0 "exit code $rc"; exit 2
    fi
    grep -E '^\[' "$LOG" | sed "s/^/  [$ENGINE] /"
    status clean 0 "$NOTE"; exit 0 ;;
  memcheck)
    if ! command -v valgrind >/dev/null; then echo "INCONCLUSIVE property=$ID valgrind not installed"; status inconclusive 0 "no valgrind"; exit 2; fi
    VERIF_EVIDENCE_TAG=memcheck valgrind --quiet --error-exitcode=66 --errors-for-leak-kinds=none --leak-check=no \
        --log-file="$ROOT/$REPORT.0" "harness/target/release/$BIN" \
        --tier quick --seed "$SEED" --only "$SECTIONS" --budget-s "$BUDGET" --threads 1 --arg memcheck=1 > "$LOG" 2>&1
    rc=$?
    if [ "$rc" = 66 ]; then violation "$REPORT.0"; status violated 1 "memcheck report"; exit 1; fi
    if [ "$rc" = 1 ]; then grep -E '^(VIOLATION|  violation:)' "$LOG"; status violated 0 "monitor violation under memcheck"; exit 1; fi
    if [ "$rc" != 0 ]; then
      echo "INCONCLUSIVE property=$ID memcheck pass exit code $rc (see $LOG)"; tail -3 "$LOG"
      status inconclusive 0 "exit code $rc"; exit 2
    fi
    grep -E '^\[' "$LOG" | sed "s/^/  [memcheck] /"
    status clean 0 ""; exit 0 ;;
  miri)
    # companion binary <bin>_miri in package v_miri: pure-Rust crates only, small multi-thread workloads,
    # several Miri scheduler seeds; prints "MIRI-<ID> done ..." summary lines that merge_san.py reads.
    # -Zmiri-permissive-provenance: parking_lot_core's word lock casts integers to pointers (dependency
    # code, not /repo); without the flag every process prints a long warning about it.
    NSEEDS="${VERIF_MIRI_SEEDS:-8}"
    ( cd harness && MIRIFLAGS="-Zmiri-disable-isolation -Zmiri-permissive-provenance -Zmiri-many-seeds=0..$NSEEDS -Zmiri-many-seeds-keep-going" \
        CARGO_TARGET_DIR="$ROOT/harness/target-miri" \
        timeout 3000 cargo +nightly miri run --offline -q -p v_miri --bin "${BIN}_miri" -- "$SEED" ) > "$LOG" 2>&1
    rc=$?
    if grep -qE "Undefined Behavior|Data race detected|error: unsupported operation|memory leaked|error: deadlock" "$LOG"; then
      violation "$LOG"; status violated 1 "miri report"; exit 1
    fi
    # a panic inside the code under test (not in the harness) is a violation, as in the native monitors
    if grep -qE "panicked at (/repo/|[^ ]*/rs/anda_)" "$LOG"; then
      grep -E "panicked at " "$LOG" | head -3; violation "$LOG"; status violated 1 "panic in the code under test under miri"; exit 1
    fi
    if grep -q "^MIRI-$ID violation" "$LOG"; then
      grep "^MIRI-$ID violation" "$LOG" | head -5; violation "$LOG"; status violated 1 "model mismatch under miri"; exit 1
    fi
    ndone=$(grep -c "^MIRI-$ID done" "$LOG")
    if [ "$rc" != 0 ] || [ "$ndone" = 0 ]; then
      echo "INCONCLUSIVE property=$ID miri pass did not complete (exit $rc, see $LOG)"; tail -5 "$LOG"
      status inconclusive 0 "exit code $rc, $ndone completed seeds"; exit 2
    fi
    echo "  [miri] $ndone scheduler seeds completed: $(grep "^MIRI-$ID done" "$LOG" | head -1)"
    status clean 0 "$ndone scheduler seeds"; exit 0 ;;
  *) echo "INCONCLUSIVE property=$ID unknown engine $ENGINE"; exit 2 ;;
esac

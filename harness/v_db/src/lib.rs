//! Shared fixtures of the v_db monitors.

//! Shared fixtures of the C17 / C18 monitors: a CognitiveNexus over an in-memory AndaDB with the
//! bundled cognitive-memory profile active, statement execution through `parse_kip` + the real
//! executor, a direct scan of the ten cognitive collections, canonical JSON.

use anda_cognitive_nexus::{
    CognitiveNexus,
    nexus::{DEFAULT_SPACE, Session},
    rows::*,
    schema::{PackageState, SchemaLock, SchemaPackage},
};
use anda_db::database::{AndaDB, DBConfig};
use anda_kip::{Executor, Request};
use object_store::ObjectStore;
use serde_json::{Map, Value, json};
use std::collections::{BTreeMap, BTreeSet};
use std::sync::{Arc, Mutex, OnceLock};
use vcore::Rng;

pub const PROFILE_ID: &str = "kip://profiles/cognitive-memory";
pub const PROFILE_REF: &str = "kip://profiles/cognitive-memory@2.0.0";
/// World-valid time every BELIEF query is pinned to, so that "now" never leaks into an answer.
pub const PIN_TIME: &str = "2030-01-01T00:00:00Z";

pub async fn open_nexus(store: Arc<dyn ObjectStore>, name: &str) -> Result<CognitiveNexus, String> {
    let db = AndaDB::connect(
        store,
        DBConfig {
            name: name.to_string(),
            description: "verif".to_string(),
            ..Default::default()
        },
    )
    .await
    .map_err(|e| format!("AndaDB::connect: {e:?}"))?;
    CognitiveNexus::connect(Arc::new(db))
        .await
        .map_err(|e| format!("CognitiveNexus::connect: {e:?}"))
}

pub fn profile_lock() -> SchemaLock {
    let mut lock = SchemaLock::default();
    lock.packages
        .insert(PROFILE_ID.to_string(), "2.0.0".to_string());
    lock.states
        .insert(PROFILE_ID.to_string(), PackageState::Active);
    lock
}

pub async fn activate_profile(nexus: &CognitiveNexus) -> Result<(), String> {
    nexus
        .install_package(
            &SchemaPackage::parse(anda_cognitive_nexus::profiles::COGNITIVE_MEMORY)
                .map_err(|e| format!("{e:?}"))?,
            "verif",
        )
        .await
        .map_err(|e| format!("{e:?}"))?;
    nexus
        .activate_schema(DEFAULT_SPACE, profile_lock())
        .await
        .map_err(|e| format!("{e:?}"))?;
    Ok(())
}

// ---------------------------------------------------------------------------------------------
// statement execution

#[derive(Clone, Debug, Default)]
pub struct Cmd {
    pub text: String,
    pub params: Map<String, Value>,
    /// request-level `options.dry_run`
    pub dry_run: bool,
    pub idempotency_key: Option<String>,
    /// `space.id` of the envelope; `None` = the default Space
    pub space: Option<String>,
}

impl Cmd {
    pub fn new(text: impl Into<String>) -> Cmd {
        Cmd {
            text: text.into(),
            ..Default::default()
        }
    }
    pub fn param(mut self, k: &str, v: Value) -> Cmd {
        self.params.insert(k.to_string(), v);
        self
    }
    pub fn request(&self) -> Result<Request, String> {
        let mut req = json!({
            "kip": "2.0",
            "operations": [{"command": self.text, "parameters": Value::Object(self.params.clone())}],
        });
        if self.dry_run {
            req["options"] = json!({"dry_run": true});
        }
        if let Some(sp) = &self.space {
            req["space"] = json!({"id": sp});
        }
        if let Some(k) = &self.idempotency_key {
            req["execution"] = json!({"mode": "independent", "idempotency_key": k});
        }
        serde_json::from_value::<Request>(req).map_err(|e| format!("request envelope: {e}"))
    }
    pub fn describe(&self) -> Value {
        json!({"command": self.text, "parameters": self.params, "dry_run": self.dry_run,
               "idempotency_key": self.idempotency_key, "space": self.space})
    }
}

/// What came back, reduced to the parts the oracles read (everything is taken from the
/// serialized wire response, i.e. from what a client would see).
#[derive(Clone, Debug)]
pub struct Outcome {
    /// `None`: the parser refused the text (the engine never saw it)
    pub parse_error: Option<String>,
    pub succeeded: bool,
    pub error_code: String,
    pub error_message: String,
    pub result: Value,
    /// receipt.status: committed | no_effect | ...
    pub receipt_status: String,
    pub space_seq: Option<u64>,
    pub tx_id: Option<String>,
    pub committed_at: Option<String>,
    pub raw: Value,
}

impl Outcome {
    pub fn committed(&self) -> bool {
        self.succeeded && self.space_seq.is_some()
    }
    pub fn changes(&self) -> Vec<(String, String, u64)> {
        self.result
            .get("changes")
            .and_then(|c| c.as_array())
            .map(|a| {
                a.iter()
                    .map(|c| {
                        (
                            c["id"].as_str().unwrap_or("").to_string(),
                            c["op"].as_str().unwrap_or("").to_string(),
                            c["version"].as_u64().unwrap_or(0),
                        )
                    })
                    .collect()
            })
            .unwrap_or_default()
    }
    pub fn handle(&self, h: &str) -> Option<String> {
        self.result
            .get("handles")
            .and_then(|m| m.get(h))
            .and_then(|v| v.as_str())
            .map(|s| s.to_string())
    }
}

pub enum Via<'a> {
    System(&'a CognitiveNexus),
    Session(&'a Session),
}

pub async fn exec(via: &Via<'_>, cmd: &Cmd) -> Result<Outcome, String> {
    let request = cmd.request()?;
    let parsed = match request.operations[0].parse() {
        Ok(p) => p,
        Err(e) => {
            return Ok(Outcome {
                parse_error: Some(format!("{}: {}", e.name(), e.message)),
                succeeded: false,
                error_code: e.name().to_string(),
                error_message: e.message.clone(),
                result: Value::Null,
                receipt_status: String::new(),
                space_seq: None,
                tx_id: None,
                committed_at: None,
                raw: Value::Null,
            });
        }
    };
    let response = match via {
        Via::System(n) => n.execute(parsed, &request, &request.operations[0]).await,
        Via::Session(s) => s.execute(parsed, &request, &request.operations[0]).await,
    };
    let raw = serde_json::to_value(&response).map_err(|e| format!("response encode: {e}"))?;
    let succeeded = raw["status"] == "succeeded";
    let err = if raw["error"].is_object() {
        raw["error"].clone()
    } else {
        raw["results"][0]["error"].clone()
    };
    Ok(Outcome {
        parse_error: None,
        succeeded,
        error_code: err["code"].as_str().unwrap_or("").to_string(),
        error_message: err["message"].as_str().unwrap_or("").to_string(),
        result: raw["results"][0]["result"].clone(),
        receipt_status: raw["receipt"]["status"].as_str().unwrap_or("").to_string(),
        space_seq: raw["receipt"]["space_seq"].as_u64(),
        tx_id: raw["receipt"]["tx_id"].as_str().map(|s| s.to_string()),
        committed_at: raw["receipt"]["committed_at"].as_str().map(|s| s.to_string()),
        raw,
    })
}

/// A read (KQL / META) through the system session: `Ok(result payload)` or `Err(error code)`.
/// Only the operation's result payload is returned; the envelope (`context`, `receipt`) names
/// the read coordinate / environment and is not part of an answer.
pub async fn read(nexus: &CognitiveNexus, text: &str) -> Result<Value, String> {
    let o = exec(&Via::System(nexus), &Cmd::new(text)).await?;
    if let Some(p) = o.parse_error {
        return Err(format!("HARNESS-PARSE {p}"));
    }
    if o.succeeded {
        Ok(o.result)
    } else {
        Err(format!("{}", o.error_code))
    }
}

// ---------------------------------------------------------------------------------------------
// canonical JSON

pub fn canon_into(v: &Value, out: &mut String) {
    match v {
        Value::Object(m) => {
            let mut keys: Vec<&String> = m.keys().collect();
            keys.sort_unstable();
            out.push('{');
            for (i, k) in keys.iter().enumerate() {
                if i > 0 {
                    out.push(',');
                }
                out.push_str(&Value::String((*k).clone()).to_string());
                out.push(':');
                canon_into(&m[*k], out);
            }
            out.push('}');
        }
        Value::Array(a) => {
            out.push('[');
            for (i, x) in a.iter().enumerate() {
                if i > 0 {
                    out.push(',');
                }
                canon_into(x, out);
            }
            out.push(']');
        }
        s => out.push_str(&s.to_string()),
    }
}

pub fn canon(v: &Value) -> String {
    let mut s = String::new();
    canon_into(v, &mut s);
    s
}

// ---------------------------------------------------------------------------------------------
// direct scan of the ten cognitive collections

pub const ELEMENT_COLLECTIONS: [&str; 5] =
    ["concepts", "propositions", "assertions", "evidence", "activities"];

/// collection name -> row id -> row as JSON
pub type Scan = BTreeMap<&'static str, BTreeMap<u64, Value>>;

macro_rules! scan_one {
    ($out:expr, $name:expr, $coll:expr, $ty:ty) => {{
        let coll = $coll;
        let mut m = BTreeMap::new();
        for id in coll.ids() {
            match coll.get_as::<$ty>(id).await {
                Ok(row) => {
                    m.insert(
                        id,
                        serde_json::to_value(&row).map_err(|e| format!("{}: {e}", $name))?,
                    );
                }
                Err(e) => {
                    m.insert(id, json!({"__unreadable__": format!("{e:?}")}));
                }
            }
        }
        $out.insert($name, m);
    }};
}

pub async fn scan(nexus: &CognitiveNexus) -> Result<Scan, String> {
    let s = &nexus.store;
    let mut out: Scan = BTreeMap::new();
    scan_one!(out, "concepts", s.concepts(), ConceptRow);
    scan_one!(out, "propositions", s.propositions(), PropositionRow);
    scan_one!(out, "assertions", s.assertions(), AssertionRow);
    scan_one!(out, "evidence", s.evidence(), EvidenceRow);
    scan_one!(out, "activities", s.activities(), ActivityRow);
    scan_one!(out, "spaces", s.spaces(), SpaceRow);
    scan_one!(out, "transactions", s.transactions(), TransactionRow);
    scan_one!(out, "schema_packages", s.schema_packages(), SchemaPackageRow);
    scan_one!(out, "schema_envs", s.schema_envs(), SchemaEnvRow);
    scan_one!(out, "element_versions", s.element_versions(), ElementVersionRow);
    Ok(out)
}

pub fn kind_prefix(coll: &str) -> &'static str {
    match coll {
        "concepts" => "C",
        "propositions" => "P",
        "assertions" => "A",
        "evidence" => "E",
        "activities" => "X",
        _ => "?",
    }
}

pub fn coll_of_id(id: &str) -> Option<(&'static str, u64)> {
    let (p, n) = id.split_once('-')?;
    let n: u64 = n.parse().ok()?;
    let c = match p {
        "C" => "concepts",
        "P" => "propositions",
        "A" => "assertions",
        "E" => "evidence",
        "X" => "activities",
        _ => return None,
    };
    Some((c, n))
}

/// element id ("C-3") -> row, over the five element collections
pub fn elements(scan: &Scan) -> BTreeMap<String, &Value> {
    let mut m = BTreeMap::new();
    for c in ELEMENT_COLLECTIONS {
        if let Some(rows) = scan.get(c) {
            for (id, row) in rows {
                m.insert(format!("{}-{}", kind_prefix(c), id), row);
            }
        }
    }
    m
}

pub fn pending_ids(scan: &Scan) -> BTreeSet<String> {
    elements(scan)
        .into_iter()
        .filter(|(_, r)| r["state"] == "pending")
        .map(|(id, _)| id)
        .collect()
}

/// The scan with the one field masked that a refused statement may legitimately move: the
/// space row's sequence counter.
pub fn masked(scan: &Scan) -> BTreeMap<String, String> {
    let mut out = BTreeMap::new();
    for (c, rows) in scan {
        for (id, row) in rows {
            let mut row = row.clone();
            if *c == "spaces" {
                row["seq"] = json!("<masked>");
            }
            out.insert(format!("{c}/{id}"), canon(&row));
        }
    }
    out
}

pub fn diff_maps(a: &BTreeMap<String, String>, b: &BTreeMap<String, String>, cap: usize) -> Vec<Value> {
    let mut d = vec![];
    for (k, va) in a {
        match b.get(k) {
            None => d.push(json!({"key": k, "before": clip(va), "after": null})),
            Some(vb) if vb != va => d.push(json!({"key": k, "before": clip(va), "after": clip(vb)})),
            _ => {}
        }
    }
    for (k, vb) in b {
        if !a.contains_key(k) {
            d.push(json!({"key": k, "before": null, "after": clip(vb)}));
        }
    }
    d.truncate(cap);
    d
}

pub fn clip(s: &str) -> String {
    if s.len() > 600 {
        let mut e = 600;
        while !s.is_char_boundary(e) {
            e -= 1;
        }
        format!("{}...({}B)", &s[..e], s.len())
    } else {
        s.to_string()
    }
}

pub fn space_seq(scan: &Scan) -> u64 {
    scan.get("spaces")
        .and_then(|m| {
            m.values()
                .find(|r| r["space_id"] == DEFAULT_SPACE)
                .and_then(|r| r["seq"].as_u64())
        })
        .unwrap_or(0)
}

// ---------------------------------------------------------------------------------------------
// once-per-signature reporting. A defect that the generated workload reaches in most cases
// would otherwise (a) flood the report and (b) trip `Run::parallel`'s stop-after-five rule and end
// the exploration early. Every occurrence is counted under `hits:<signature>`; the first one per
// signature is kept (with section + case so that `--replay` works) and handed to the `Run` by
// `drain_reports` once all sections are done.

static REPORTED: OnceLock<Mutex<BTreeMap<String, Value>>> = OnceLock::new();

thread_local! {
    static CURRENT_CASE: std::cell::RefCell<(String, u64)> = const { std::cell::RefCell::new((String::new(), 0)) };
}

/// Names the section / case the calling thread is running (for the replay coordinates).
pub fn set_case(section: &str, case: u64) {
    CURRENT_CASE.with(|c| *c.borrow_mut() = (section.to_string(), case));
}

pub fn report_once(st: &mut vcore::Stats, sig: &str, detail: impl FnOnce() -> Value) {
    st.count(&format!("hits:{sig}"));
    let mut map = REPORTED
        .get_or_init(|| Mutex::new(BTreeMap::new()))
        .lock()
        .unwrap();
    if !map.contains_key(sig) {
        let (section, case) = CURRENT_CASE.with(|c| c.borrow().clone());
        let mut d = detail();
        if let Some(m) = d.as_object_mut() {
            m.insert("section".into(), json!(section));
            m.insert("case".into(), json!(case));
        } else {
            d = json!({"section": section, "case": case, "detail": d});
        }
        map.insert(sig.to_string(), d);
    }
}

/// Moves the kept first occurrences into the run (call after the last section).
pub fn drain_reports(run: &mut vcore::Run) {
    let map = std::mem::take(
        &mut *REPORTED
            .get_or_init(|| Mutex::new(BTreeMap::new()))
            .lock()
            .unwrap(),
    );
    for (sig, detail) in map {
        run.stats.violation(sig, detail);
    }
}

// ---------------------------------------------------------------------------------------------
// what the generator knows about the current state (read from the direct scan)

#[derive(Clone, Debug)]
pub struct El {
    pub id: String,
    pub state: String,
    pub version: u64,
    /// concept: local type name; proposition: local predicate name
    pub typ: String,
    /// concept: key; assertion: proposition id
    pub key: String,
    /// assertion / evidence / activity lifecycle status
    pub status: String,
    pub subject: String,
    pub object: String,
    pub space: String,
}

#[derive(Default, Clone)]
pub struct World {
    pub concepts: Vec<El>,
    pub props: Vec<El>,
    pub assertions: Vec<El>,
    pub evidence: Vec<El>,
    pub activities: Vec<El>,
    pub foreign_concept: Option<String>,
}

pub fn local_name(sym: &str) -> String {
    sym.rsplit('/').next().unwrap_or("").to_string()
}

pub fn world_of(scan: &Scan) -> World {
    let mut w = World::default();
    for (id, row) in elements(scan) {
        let s = |k: &str| row[k].as_str().unwrap_or("").to_string();
        let mut el = El {
            id: id.clone(),
            state: s("state"),
            version: row["version"].as_u64().unwrap_or(0),
            typ: String::new(),
            key: String::new(),
            status: s("status"),
            subject: String::new(),
            object: String::new(),
            space: s("space"),
        };
        if el.state == "pending" {
            continue;
        }
        if el.space != DEFAULT_SPACE {
            if id.starts_with("C-") {
                w.foreign_concept = Some(id);
            }
            continue;
        }
        match &id[..1] {
            "C" => {
                el.typ = local_name(&s("schema_ref"));
                el.key = s("key");
                // a merged-away Concept: `object` carries the id it was merged into
                el.object = s("merged_into");
                w.concepts.push(el);
            }
            "P" => {
                el.typ = local_name(&s("predicate_ref"));
                el.subject = row["subject"]["id"].as_str().unwrap_or("").to_string();
                el.object = row["object"]["id"].as_str().unwrap_or("").to_string();
                w.props.push(el);
            }
            "A" => {
                el.key = s("proposition_id");
                w.assertions.push(el);
            }
            "E" => w.evidence.push(el),
            "X" => w.activities.push(el),
            _ => {}
        }
    }
    w
}

impl World {
    pub fn active<'a>(v: &'a [El]) -> Vec<&'a El> {
        v.iter().filter(|e| e.state == "active").collect()
    }
    pub fn active_of_type(&self, t: &str) -> Vec<&El> {
        self.concepts
            .iter()
            .filter(|e| e.state == "active" && e.typ == t)
            .collect()
    }
}

// ---------------------------------------------------------------------------------------------
// statement generator

#[derive(Clone, Debug)]
pub struct Clause {
    pub kind: &'static str,
    pub text: String,
}

#[derive(Clone, Debug)]
pub struct Stmt {
    pub cmd: Cmd,
    /// clause kinds in text order
    pub kinds: Vec<&'static str>,
    /// injected failure: (class, position label)
    pub fail: Option<(&'static str, &'static str)>,
    /// "none" | "option" | "preview"
    pub dry: &'static str,
    pub restricted: bool,
    pub retry_of_previous: bool,
}

pub struct Gen {
    pub uid: u64,
    pub tag: String,
}

impl Gen {
    pub fn next(&mut self) -> u64 {
        self.uid += 1;
        self.uid
    }
    pub fn name(&mut self, p: &str) -> String {
        let n = self.next();
        format!("{p}{}_{n}", self.tag)
    }
}

pub fn jstr(s: &str) -> String {
    Value::String(s.to_string()).to_string()
}

pub struct Block<'a> {
    rng: &'a mut Rng,
    g: &'a mut Gen,
    w: &'a World,
    clauses: Vec<Clause>,
    params: Map<String, Value>,
    allow_params: bool,
    persons: Vec<String>,
    others: Vec<String>,
    props: Vec<String>,
    evidence: Vec<String>,
    touched: Vec<String>,
}

macro_rules! push {
    ($s:expr, $k:expr, $t:expr $(,)?) => {{
        let t = $t;
        $s.clauses.push(Clause { kind: $k, text: t });
    }};
}

impl<'a> Block<'a> {
    /// a term naming an existing element: a bound parameter (or `None` when parameters are off)
    fn param_ref(&mut self, id: &str) -> Option<String> {
        if !self.allow_params {
            return None;
        }
        let n = self.g.next();
        let name = format!("r{n}");
        self.params.insert(name.clone(), json!(id));
        Some(format!(":{name}"))
    }

    fn concept_body(&mut self, typ: &str, key: Option<String>) -> String {
        let name = self.g.name("n");
        let mut body = format!("TYPE {} NAME {}", jstr(typ), jstr(&name));
        if let Some(k) = key {
            body.push_str(&format!(" SET FIELDS {{key: {}}}", jstr(&k)));
        }
        let mut attrs: Vec<String> = vec![];
        match typ {
            "Insight" | "Event" => attrs.push(format!("summary: {}", jstr(&self.g.name("s")))),
            "Person" if self.rng.bool() => {
                attrs.push(format!("display_name: {}", jstr(&self.g.name("d"))))
            }
            "Preference" if self.rng.bool() => {
                attrs.push(format!("strength: 0.{}", self.rng.range(1, 9)))
            }
            _ => {}
        }
        if self.rng.chance(1, 3) {
            attrs.push(format!("note: {}", self.rng.below(100)));
        }
        if !attrs.is_empty() {
            body.push_str(&format!(" SET ATTRIBUTES {{{}}}", attrs.join(", ")));
        }
        if self.rng.chance(1, 3) {
            body.push_str(&format!(
                " SET FACET \"MnemonicState\" {{memory_strength: 0.{}, salience: 0.{}}}",
                self.rng.range(1, 9),
                self.rng.range(1, 9)
            ));
        }
        body
    }

    fn plan_creations(&mut self) {
        let np = self.rng.weighted(&[30, 40, 30]);
        for _ in 0..np {
            let h = format!("p{}", self.g.next());
            let key = if self.rng.bool() { Some(self.g.name("kp")) } else { None };
            let body = self.concept_body("Person", key);
            self.persons.push(h.clone());
            push!(self, "create_concept", format!("CREATE CONCEPT ?{h} {{ {body} }}"));
        }
        let no = self.rng.weighted(&[40, 40, 20]);
        for _ in 0..no {
            let h = format!("o{}", self.g.next());
            let typ = *self.rng.pick(&["Preference", "Insight", "Event"]);
            let key = if self.rng.chance(1, 4) { Some(self.g.name("ko")) } else { None };
            let mut body = self.concept_body(typ, key);
            if typ != "Preference" && self.rng.bool() {
                // structural edge to a handle of this block (forward or backward) or an existing id
                let mut targets: Vec<String> = self
                    .persons
                    .iter()
                    .chain(self.others.iter())
                    .map(|h| format!("?{h}"))
                    .collect();
                if let Some(c) = World::active(&self.w.concepts).first().map(|c| c.id.clone()) {
                    if let Some(p) = self.param_ref(&c) {
                        targets.push(p);
                    }
                }
                if !targets.is_empty() {
                    let t = self.rng.pick(&targets).clone();
                    let f = *self.rng.pick(&["about", "mentions"]);
                    body.push_str(&format!(" SET STRUCTURAL {{ ({}, {t}) }}", jstr(f)));
                }
            }
            self.others.push(h.clone());
            push!(self, "create_concept", format!("CREATE CONCEPT ?{h} {{ {body} }}"));
        }
    }

    fn subject_term(&mut self) -> Option<String> {
        let mut c: Vec<String> = self.persons.iter().map(|h| format!("?{h}")).collect();
        let mut existing: Vec<String> = self.w.active_of_type("Person").iter().map(|e| e.id.clone()).collect();
        // now and then a Person that was merged away: the engine resolves it through the whole
        // merge chain to the surviving Concept (Spec 11.3), whatever the chain's length
        let deep = |w: &World, e: &El| w.concepts.iter().any(|t| t.id == e.object && t.state == "merged");
        let mut merged_away: Vec<String> = self.w.concepts.iter().filter(|e| e.state == "merged" && e.typ == "Person" && deep(self.w, e)).map(|e| e.id.clone()).collect();
        if merged_away.is_empty() || self.rng.chance(1, 3) {
            merged_away = self.w.concepts.iter().filter(|e| e.state == "merged" && e.typ == "Person").map(|e| e.id.clone()).collect();
        }
        if !merged_away.is_empty() && self.rng.chance(1, 4) {
            existing = merged_away;
        }
        if !existing.is_empty() && (c.is_empty() || self.rng.bool()) {
            let id = self.rng.pick(&existing).clone();
            if let Some(p) = self.param_ref(&id) {
                c.push(p);
            }
        }
        if c.is_empty() { None } else { Some(self.rng.pick(&c).clone()) }
    }

    fn object_term(&mut self) -> Option<String> {
        let mut c: Vec<String> = self
            .others
            .iter()
            .chain(self.persons.iter())
            .map(|h| format!("?{h}"))
            .collect();
        let mut existing: Vec<String> = World::active(&self.w.concepts).iter().map(|e| e.id.clone()).collect();
        let deep = |w: &World, e: &El| w.concepts.iter().any(|t| t.id == e.object && t.state == "merged");
        let mut merged_away: Vec<String> = self.w.concepts.iter().filter(|e| e.state == "merged" && deep(self.w, e)).map(|e| e.id.clone()).collect();
        if merged_away.is_empty() || self.rng.chance(1, 3) {
            merged_away = self.w.concepts.iter().filter(|e| e.state == "merged").map(|e| e.id.clone()).collect();
        }
        if !merged_away.is_empty() && self.rng.chance(1, 4) {
            existing = merged_away;
        }
        if !existing.is_empty() && (c.is_empty() || self.rng.bool()) {
            let id = self.rng.pick(&existing).clone();
            if let Some(p) = self.param_ref(&id) {
                c.push(p);
            }
        }
        if c.is_empty() { None } else { Some(self.rng.pick(&c).clone()) }
    }

    fn plan_props(&mut self) {
        let k = self.rng.weighted(&[35, 40, 25]);
        for _ in 0..k {
            let h = format!("q{}", self.g.next());
            // ENSURE hit on an existing tuple
            let existing = World::active(&self.w.props);
            if !existing.is_empty() && self.allow_params && self.rng.chance(3, 10) {
                let p = (*self.rng.pick(&existing)).clone();
                if !p.subject.is_empty() && !p.object.is_empty() {
                    let s = self.param_ref(&p.subject).unwrap();
                    let o = self.param_ref(&p.object).unwrap();
                    self.props.push(h.clone());
                    push!(self, 
                        "ensure_hit",
                        format!("ENSURE PROPOSITION ?{h} ({s}, {}, {o})", jstr(&p.typ)),
                    );
                    continue;
                }
            }
            let (Some(s), Some(o)) = (self.subject_term(), self.object_term()) else {
                continue;
            };
            if s == o {
                continue;
            }
            let pred = if self.rng.chance(2, 3) { "prefers" } else { "same_as" };
            // the same tuple twice in one block is the commit-time conflict class: only there
            if self
                .clauses
                .iter()
                .any(|c| c.text.contains(&format!("({s}, {}, {o})", jstr(pred))))
            {
                continue;
            }
            self.props.push(h.clone());
            if self.rng.chance(1, 5) {
                let by = s.clone();
                push!(self, 
                    "assert_sugar",
                    format!(
                        "ASSERT ?a{h} ({s}, {}, {o}) {{ by: {by}, mode: \"stated\", confidence: 0.{} }}",
                        jstr(pred),
                        self.rng.range(1, 9)
                    ),
                );
                self.props.pop();
            } else {
                push!(self, "ensure", format!("ENSURE PROPOSITION ?{h} ({s}, {}, {o})", jstr(pred)));
            }
        }
    }

    fn plan_records(&mut self) {
        let with_e = self.rng.chance(45, 100);
        let with_x = self.rng.chance(35, 100);
        let (eh, xh) = (format!("e{}", self.g.next()), format!("x{}", self.g.next()));
        if with_e {
            let mut body = format!(
                "SET FIELDS {{evidence_class: \"user_statement\", payload: {}}}",
                jstr(&self.g.name("payload"))
            );
            if with_x {
                body.push_str(&format!(" SET STRUCTURAL {{ (\"generated_by\", ?{xh}) }}"));
            }
            self.evidence.push(eh.clone());
            push!(self, "create_evidence", format!("CREATE EVIDENCE ?{eh} {{ {body} }}"));
        }
        if with_x {
            let cls = *self.rng.pick(&["reflection", "semantic_consolidation", "tool_execution"]);
            let status = if self.rng.chance(1, 4) { ", status: \"completed\"" } else { "" };
            let mut body = format!("SET FIELDS {{activity_class: {}{status}}}", jstr(cls));
            if with_e {
                body.push_str(&format!(" SET STRUCTURAL {{ (\"outputs\", ?{eh}) }}"));
            }
            push!(self, "create_activity", format!("CREATE ACTIVITY ?{xh} {{ {body} }}"));
        }
        let na = self.rng.weighted(&[45, 35, 20]);
        for _ in 0..na {
            let mut ptargets: Vec<String> = self.props.iter().map(|h| format!("?{h}")).collect();
            for p in World::active(&self.w.props) {
                ptargets.push(jstr(&p.id));
            }
            if ptargets.is_empty() {
                break;
            }
            let p = self.rng.pick(&ptargets).clone();
            let mut actors: Vec<String> = self.persons.iter().map(|h| format!("?{h}")).collect();
            for c in self.w.active_of_type("Person") {
                actors.push(jstr(&c.id));
            }
            if actors.is_empty() {
                break;
            }
            let by = self.rng.pick(&actors).clone();
            let stance = *self.rng.pick(&["support", "support", "reject", "uncertain"]);
            let mode = *self.rng.pick(&["stated", "observed", "inferred"]);
            let mut fields = format!(
                "proposition: {p}, asserted_by: {by}, stance: {}, mode: {}",
                jstr(stance),
                jstr(mode)
            );
            if self.rng.chance(3, 4) {
                fields.push_str(&format!(", confidence: 0.{}", self.rng.range(1, 9)));
            }
            match self.rng.below(6) {
                0 => fields.push_str(", valid_time: {from: \"2026-01-01T00:00:00Z\", until: \"2028-01-01T00:00:00Z\"}"),
                1 => fields.push_str(", valid_time: {from: \"2031-01-01T00:00:00Z\"}"),
                _ => {}
            }
            let mut body = format!("SET FIELDS {{{fields}}}");
            let mut cites: Vec<String> = self.evidence.iter().map(|h| format!("?{h}")).collect();
            if let Some(e) = World::active(&self.w.evidence).first() {
                cites.push(jstr(&e.id));
            }
            if !cites.is_empty() && self.rng.bool() {
                let c = self.rng.pick(&cites).clone();
                body.push_str(&format!(" SET STRUCTURAL {{ (\"evidence\", {c}) {{role: \"support\"}} }}"));
            }
            let h = format!("a{}", self.g.next());
            push!(self, "create_assertion", format!("CREATE ASSERTION ?{h} {{ {body} }}"));
        }
    }

    fn expect_version(&mut self, e: &El) -> String {
        if self.rng.chance(1, 3) { format!(" EXPECT VERSION {}", e.version) } else { String::new() }
    }

    fn plan_modifications(&mut self) {
        let m = self.rng.weighted(&[30, 35, 22, 13]);
        for _ in 0..m {
            let fam = self.rng.weighted(&[18, 8, 8, 6, 6, 9, 6, 7, 6, 6, 5, 5, 10, 6]);
            match fam {
                0 | 1 | 2 => {
                    // UPDATE of a concept: attributes / name / facet, sometimes twice on one id
                    let cs = World::active(&self.w.concepts);
                    if cs.is_empty() {
                        continue;
                    }
                    let e = (*self.rng.pick(&cs)).clone();
                    let ev = self.expect_version(&e);
                    let act = match fam {
                        0 => format!("SET ATTRIBUTES {{note: {}, tag: {}}}", self.rng.below(1000), jstr(&self.g.name("t"))),
                        1 => format!("SET FIELDS {{name: {}}}", jstr(&self.g.name("rn"))),
                        _ => format!("SET FACET \"MnemonicState\" {{salience: 0.{}}}", self.rng.range(1, 9)),
                    };
                    self.touched.push(e.id.clone());
                    push!(self, "update_concept", format!("UPDATE {}{ev} {act}", jstr(&e.id)));
                }
                3 => {
                    let ps = World::active(&self.w.props);
                    if ps.is_empty() {
                        continue;
                    }
                    let e = (*self.rng.pick(&ps)).clone();
                    self.touched.push(e.id.clone());
                    push!(self, 
                        "update_proposition",
                        format!("UPDATE {} SET ATTRIBUTES {{note: {}}}", jstr(&e.id), self.rng.below(1000)),
                    );
                }
                4 => {
                    let t = *self.rng.pick(&["Person", "Preference", "Insight"]);
                    push!(self, 
                        "update_sweep",
                        format!(
                            "UPDATE ?m SET ATTRIBUTES {{swept: {}}} WHERE {{ ?m CONCEPT {{type: {}}} }} LIMIT {}",
                            self.rng.below(1000),
                            jstr(t),
                            self.rng.range(1, 3)
                        ),
                    );
                }
                5 => {
                    // ARCHIVE / TOMBSTONE of any kind
                    let mut all: Vec<&El> = vec![];
                    for v in [&self.w.concepts, &self.w.props, &self.w.assertions, &self.w.evidence, &self.w.activities] {
                        all.extend(v.iter().filter(|e| e.state == "active" || e.state == "archived"));
                    }
                    if all.is_empty() {
                        continue;
                    }
                    let e = (*self.rng.pick(&all)).clone();
                    let verb = if self.rng.chance(2, 3) { "ARCHIVE" } else { "TOMBSTONE" };
                    let es = if self.rng.chance(1, 3) { format!(" EXPECT STATE {}", jstr(&e.state)) } else { String::new() };
                    self.touched.push(e.id.clone());
                    push!(self, if verb == "ARCHIVE" { "archive" } else { "tombstone" }, format!("{verb} {}{es}", jstr(&e.id)));
                }
                6 => {
                    let a: Vec<&El> = self.w.assertions.iter().filter(|a| a.status == "active").collect();
                    if a.is_empty() {
                        continue;
                    }
                    let e = (*self.rng.pick(&a)).clone();
                    let es = if self.rng.chance(1, 3) { " EXPECT STATE \"active\"" } else { "" };
                    self.touched.push(e.id.clone());
                    push!(self, "retract", format!("RETRACT ASSERTION {}{es}", jstr(&e.id)));
                }
                7 => {
                    // SUPERSEDE by a new assertion of the same block (about the same proposition)
                    let a: Vec<&El> = self.w.assertions.iter().filter(|a| a.status == "active" && a.state == "active").collect();
                    let actors = self.w.active_of_type("Person");
                    if a.is_empty() || actors.is_empty() {
                        continue;
                    }
                    let e = (*self.rng.pick(&a)).clone();
                    let by = self.rng.pick(&actors).id.clone();
                    let h = format!("s{}", self.g.next());
                    push!(self, 
                        "create_assertion",
                        format!(
                            "CREATE ASSERTION ?{h} {{ SET FIELDS {{proposition: {}, asserted_by: {}, stance: \"reject\", mode: \"stated\", confidence: 0.{}}} }}",
                            jstr(&e.key), jstr(&by), self.rng.range(1, 9)
                        ),
                    );
                    self.touched.push(e.id.clone());
                    push!(self, "supersede", format!("SUPERSEDE ASSERTION {} BY ?{h}", jstr(&e.id)));
                }
                8 => {
                    let cs = World::active(&self.w.concepts);
                    if cs.len() < 2 {
                        continue;
                    }
                    let mut a = (*self.rng.pick(&cs)).clone();
                    // merge chains: half of the time the Concept merged away is one that already
                    // absorbed another (a -> b earlier, now b -> c), so that ids two and three hops
                    // from their survivor exist
                    let survivors: Vec<El> = cs.iter().filter(|c| self.w.concepts.iter().any(|m| m.state == "merged" && m.object == c.id)).map(|c| (*c).clone()).collect();
                    if !survivors.is_empty() && self.rng.bool() {
                        a = self.rng.pick(&survivors).clone();
                    }
                    let b = (*self.rng.pick(&cs)).clone();
                    if a.id == b.id {
                        continue;
                    }
                    self.touched.push(a.id.clone());
                    push!(self, "merge", format!("MERGE CONCEPT {} INTO {}", jstr(&a.id), jstr(&b.id)));
                }
                9 => {
                    let cs = World::active(&self.w.concepts);
                    if cs.is_empty() {
                        continue;
                    }
                    let e = (*self.rng.pick(&cs)).clone();
                    self.touched.push(e.id.clone());
                    push!(self, 
                        "set_retention",
                        format!(
                            "SET RETENTION {} {{ retention_class: \"standard\", expires_at: \"203{}-01-01T00:00:00Z\" }}",
                            jstr(&e.id),
                            self.rng.below(9)
                        ),
                    );
                }
                10 => {
                    let xs: Vec<&El> = self.w.activities.iter().filter(|x| x.state == "active" && (x.status == "pending" || x.status == "running")).collect();
                    if xs.is_empty() {
                        continue;
                    }
                    let e = (*self.rng.pick(&xs)).clone();
                    let to = *self.rng.pick(&["running", "completed", "failed"]);
                    self.touched.push(e.id.clone());
                    push!(self, "transition", format!("TRANSITION ACTIVITY {} TO {}", jstr(&e.id), jstr(to)));
                }
                11 => {
                    let es: Vec<&El> = self.w.evidence.iter().filter(|x| x.state == "active" && x.status == "active").collect();
                    if es.is_empty() {
                        continue;
                    }
                    let e = (*self.rng.pick(&es)).clone();
                    let h = format!("c{}", self.g.next());
                    push!(self, 
                        "create_evidence",
                        format!("CREATE EVIDENCE ?{h} {{ SET FIELDS {{evidence_class: \"user_statement\", payload: {}}} }}", jstr(&self.g.name("fix"))),
                    );
                    self.touched.push(e.id.clone());
                    push!(self, "correct", format!("CORRECT EVIDENCE {} BY ?{h}", jstr(&e.id)));
                }
                12 => {
                    // UPSERT hit (existing key) or miss (fresh key)
                    let keyed: Vec<&El> = self.w.concepts.iter().filter(|c| !c.key.is_empty() && c.state == "active").collect();
                    let h = format!("u{}", self.g.next());
                    if !keyed.is_empty() && self.rng.chance(3, 5) {
                        let e = (*self.rng.pick(&keyed)).clone();
                        let ev = self.expect_version(&e);
                        let same = self.rng.chance(1, 5);
                        self.touched.push(e.id.clone());
                        push!(self, 
                            "upsert_hit",
                            format!(
                                "UPSERT CONCEPT ?{h} {{ MATCH {{type: {}, key: {}}}{ev} SET ATTRIBUTES {{upserted: {}}} }}",
                                jstr(&e.typ), jstr(&e.key),
                                if same { 1 } else { self.rng.below(1000) }
                            ),
                        );
                    } else {
                        let ev = if self.rng.chance(1, 4) { " EXPECT VERSION 0" } else { "" };
                        push!(self, 
                            "upsert_miss",
                            format!(
                                "UPSERT CONCEPT ?{h} {{ MATCH {{type: \"Person\", key: {}}}{ev} SET FIELDS {{name: {}}} }}",
                                jstr(&self.g.name("ku")), jstr(&self.g.name("un"))
                            ),
                        );
                        self.persons.push(h);
                    }
                }
                _ => {
                    // a second clause on an element this block already touches
                    let Some(id) = self.touched.last().cloned() else { continue };
                    if !id.starts_with("C-") {
                        continue;
                    }
                    push!(self, 
                        "update_again",
                        format!("UPDATE {} SET ATTRIBUTES {{again: {}}}", jstr(&id), self.rng.below(1000)),
                    );
                }
            }
        }
    }

    /// Clauses whose only purpose is to make the statement refuse. `None` when the state offers
    /// no target for the class.
    fn failing(&mut self, class: &'static str) -> Option<Vec<Clause>> {
        let one = |kind: &'static str, text: String| Some(vec![Clause { kind, text }]);
        let cs = World::active(&self.w.concepts);
        match class {
            "unknown_type" => one("f_unknown_type", format!("CREATE CONCEPT ?z{} {{ TYPE \"Spaceship\" NAME \"Enterprise\" }}", self.g.next())),
            "unbound_param" => one("f_unbound_param", format!("UPDATE :unbound{} SET ATTRIBUTES {{x: 1}}", self.g.next())),
            "immutable_field" => {
                let mut c: Vec<String> = vec![];
                if let Some(e) = cs.first() {
                    c.push(format!("UPDATE {} SET FIELDS {{key: \"moved\"}}", jstr(&e.id)));
                }
                if let Some(a) = self.w.assertions.first() {
                    c.push(format!("UPDATE {} SET FIELDS {{name: \"relabelled\"}}", jstr(&a.id)));
                }
                if let Some(e) = self.w.evidence.first() {
                    c.push(format!("UPDATE {} SET FIELDS {{media_type: \"text/plain\"}}", jstr(&e.id)));
                }
                if c.is_empty() {
                    return None;
                }
                one("f_immutable_field", self.rng.pick(&c).clone())
            }
            "missing_id" => {
                let c = [
                    "UPDATE \"C-99999\" SET ATTRIBUTES {x: 1}".to_string(),
                    "RETRACT ASSERTION \"A-99999\"".to_string(),
                    "ARCHIVE \"E-99999\"".to_string(),
                    "SET RETENTION \"X-99999\" { retention_class: \"standard\" }".to_string(),
                ];
                one("f_missing_id", self.rng.pick(&c).clone())
            }
            "expect_version" => {
                let mut c: Vec<String> = vec![];
                if !cs.is_empty() {
                    let e = (*self.rng.pick(&cs)).clone();
                    c.push(format!("UPDATE {} EXPECT VERSION {} SET ATTRIBUTES {{x: 1}}", jstr(&e.id), e.version + 1 + self.rng.below(5)));
                    if !e.key.is_empty() {
                        c.push(format!(
                            "UPSERT CONCEPT ?v{} {{ MATCH {{type: {}, key: {}}} EXPECT VERSION 0 SET FIELDS {{name: \"clobber\"}} }}",
                            self.g.next(), jstr(&e.typ), jstr(&e.key)
                        ));
                    }
                }
                if self.allow_params {
                    if let Some(p) = World::active(&self.w.props).first().map(|p| (*p).clone()) {
                        if !p.subject.is_empty() && !p.object.is_empty() {
                            let s = self.param_ref(&p.subject).unwrap();
                            let o = self.param_ref(&p.object).unwrap();
                            c.push(format!("ENSURE PROPOSITION ?v{} ({s}, {}, {o}) EXPECT VERSION 0", self.g.next(), jstr(&p.typ)));
                        }
                    }
                }
                c.push(format!(
                    "UPSERT CONCEPT ?v{} {{ MATCH {{type: \"Person\", key: {}}} EXPECT VERSION 3 SET FIELDS {{name: \"ghost\"}} }}",
                    self.g.next(), jstr(&self.g.name("kv"))
                ));
                one("f_expect_version", self.rng.pick(&c).clone())
            }
            "expect_state" => {
                let mut c: Vec<String> = vec![];
                if let Some(e) = cs.first() {
                    c.push(format!("ARCHIVE {} EXPECT STATE \"tombstoned\"", jstr(&e.id)));
                }
                if let Some(a) = self.w.assertions.iter().find(|a| a.status == "active") {
                    c.push(format!("RETRACT ASSERTION {} EXPECT STATE \"superseded\"", jstr(&a.id)));
                }
                if c.is_empty() {
                    return None;
                }
                one("f_expect_state", self.rng.pick(&c).clone())
            }
            "key_conflict_commit" => {
                // detectable only at commit: a second Concept of the type claiming a held key, or
                // two Concepts of one block claiming the same fresh key
                let keyed: Vec<&El> = self.w.concepts.iter().filter(|c| !c.key.is_empty()).collect();
                if !keyed.is_empty() && self.rng.chance(2, 3) {
                    let e = (*self.rng.pick(&keyed)).clone();
                    one(
                        "f_key_conflict",
                        format!("CREATE CONCEPT ?k{} {{ TYPE {} NAME \"dup\" SET FIELDS {{key: {}}} }}", self.g.next(), jstr(&e.typ), jstr(&e.key)),
                    )
                } else {
                    // 2-5 keyed Concepts of one type in the block; one key occurs twice, at
                    // arbitrary (not necessarily adjacent) positions, the others are distinct; now
                    // and then a keyed Concept of ANOTHER type with the same key in between (legal)
                    let k = self.g.name("kd");
                    let typ = *self.rng.pick(&["Preference", "Person"]);
                    let m = 2 + self.rng.usize(4);
                    let (mut i, mut j) = (self.rng.usize(m), self.rng.usize(m));
                    if i == j {
                        j = (i + 1) % m;
                    }
                    if i > j {
                        std::mem::swap(&mut i, &mut j);
                    }
                    let mut out = vec![];
                    for pos in 0..m {
                        let key = if pos == i || pos == j { k.clone() } else { self.g.name("kx") };
                        let text = if pos == j && self.rng.chance(1, 4) {
                            format!("UPSERT CONCEPT ?k{} {{ MATCH {{type: {}, key: {}}} SET FIELDS {{name: \"n{pos}\"}} }}", self.g.next(), jstr(typ), jstr(&key))
                        } else {
                            format!("CREATE CONCEPT ?k{} {{ TYPE {} NAME \"n{pos}\" SET FIELDS {{key: {}}} }}", self.g.next(), jstr(typ), jstr(&key))
                        };
                        out.push(Clause { kind: "f_key_conflict", text });
                        if pos == i && self.rng.chance(1, 3) {
                            let other = if typ == "Person" { "Preference" } else { "Person" };
                            out.push(Clause { kind: "f_key_conflict", text: format!("CREATE CONCEPT ?k{} {{ TYPE {} NAME \"o{pos}\" SET FIELDS {{key: {}}} }}", self.g.next(), jstr(other), jstr(&k)) });
                        }
                    }
                    // the clause that completes the duplicate is the "failing" one: keep it last
                    Some(out)
                }
            }
            "tuple_conflict_commit" => {
                // the same brand-new tuple ensured twice in one block: neither clause can see the
                // other's staged row, so the conflict surfaces while the commit is writing
                let (a, b) = (format!("tp{}", self.g.next()), format!("to{}", self.g.next()));
                let (q1, q2) = (format!("tq{}", self.g.next()), format!("tq{}", self.g.next()));
                let second = if self.rng.bool() {
                    format!("ENSURE PROPOSITION ?{q2} (?{a}, \"prefers\", ?{b})")
                } else {
                    format!("ASSERT ?ta{q2} (?{a}, \"prefers\", ?{b}) {{ by: ?{a}, mode: \"stated\" }}")
                };
                Some(vec![
                    Clause { kind: "create_concept", text: format!("CREATE CONCEPT ?{a} {{ TYPE \"Person\" NAME {} }}", jstr(&self.g.name("tn"))) },
                    Clause { kind: "create_concept", text: format!("CREATE CONCEPT ?{b} {{ TYPE \"Preference\" NAME {} }}", jstr(&self.g.name("tn"))) },
                    Clause { kind: "ensure", text: format!("ENSURE PROPOSITION ?{q1} (?{a}, \"prefers\", ?{b})") },
                    Clause { kind: "f_tuple_conflict", text: second },
                ])
            }
            "constraint" => {
                let c = [
                    format!("CREATE CONCEPT ?y{} {{ TYPE \"Person\" NAME \"Eve\" SET FACET \"MnemonicState\" {{memory_strength: 5}} }}", self.g.next()),
                    format!("CREATE CONCEPT ?y{} {{ TYPE \"Person\" NAME \"Bob\" SET FACET \"MnemonicState\" {{classification: \"public\"}} }}", self.g.next()),
                    format!("CREATE CONCEPT ?y{} {{ TYPE \"Insight\" NAME \"no summary\" }}", self.g.next()),
                    format!("CREATE ASSERTION ?y{} {{ SET FIELDS {{proposition: \"P-99999\", asserted_by: \"C-99999\", stance: \"support\"}} }}", self.g.next()),
                ];
                one("f_constraint", self.rng.pick(&c).clone())
            }
            "supersede_mismatch" => {
                let a: Vec<&El> = self.w.assertions.iter().filter(|a| a.state == "active").collect();
                if a.is_empty() {
                    return None;
                }
                let e = (*self.rng.pick(&a)).clone();
                let other = a.iter().find(|x| x.key != e.key).map(|x| x.id.clone());
                match other {
                    Some(o) if self.rng.bool() => one("f_supersede_mismatch", format!("SUPERSEDE ASSERTION {} BY {}", jstr(&e.id), jstr(&o))),
                    _ => one("f_supersede_mismatch", format!("SUPERSEDE ASSERTION {} BY {}", jstr(&e.id), jstr(&e.id))),
                }
            }
            "terminal_activity" => {
                let x = self.w.activities.iter().find(|x| matches!(x.status.as_str(), "completed" | "failed"))?;
                one("f_terminal_activity", format!("TRANSITION ACTIVITY {} TO \"running\"", jstr(&x.id)))
            }
            "cross_space_ref_commit" => {
                let foreign = self.w.foreign_concept.clone()?;
                let p = self.param_ref(&foreign)?;
                one(
                    "f_cross_space_ref",
                    format!(
                        "CREATE CONCEPT ?f{} {{ TYPE \"Insight\" NAME \"leaky\" SET ATTRIBUTES {{summary: \"s\"}} SET STRUCTURAL {{ (\"about\", {p}) }} }}",
                        self.g.next()
                    ),
                )
            }
            // restricted session (Grant scoped to Concepts): refused while planning, after the
            // block's shells were minted
            "authz_plan" => one(
                "f_authz_plan",
                format!("CREATE EVIDENCE ?w{} {{ SET FIELDS {{evidence_class: \"user_statement\", payload: \"denied\"}} }}", self.g.next()),
            ),
            // restricted session: refused by the command gate, before a transaction opens
            "authz_gate" => {
                let e = cs.first()?;
                one("f_authz_gate", format!("ARCHIVE {}", jstr(&e.id)))
            }
            _ => None,
        }
    }
}

pub const FAIL_CLASSES: [&str; 14] = [
    "unknown_type",
    "unbound_param",
    "immutable_field",
    "missing_id",
    "expect_version",
    "expect_state",
    "key_conflict_commit",
    "tuple_conflict_commit",
    "constraint",
    "supersede_mismatch",
    "terminal_activity",
    "cross_space_ref_commit",
    "authz_plan",
    "authz_gate",
];

/// A statement whose final state equals the current one (documented: commits as `no_effect`,
/// journals, bumps nothing).
pub fn gen_no_effect(rng: &mut Rng, g: &mut Gen, w: &World) -> Option<Stmt> {
    let mut params = Map::new();
    let (kind, text): (&'static str, String) = match rng.below(5) {
        0 => {
            let ps: Vec<&El> = w.props.iter().filter(|p| p.state == "active" && !p.subject.is_empty() && !p.object.is_empty()).collect();
            if ps.is_empty() {
                return None;
            }
            let p = (*rng.pick(&ps)).clone();
            params.insert("s".into(), json!(p.subject));
            params.insert("o".into(), json!(p.object));
            ("ensure_hit", format!("ENSURE PROPOSITION ?h{} (:s, {}, :o)", g.next(), jstr(&p.typ)))
        }
        1 => {
            let a: Vec<&El> = w.concepts.iter().filter(|c| c.state == "archived").collect();
            if a.is_empty() {
                return None;
            }
            ("archive", format!("ARCHIVE {}", jstr(&rng.pick(&a).id)))
        }
        2 => ("update_sweep", "UPDATE ?m SET ATTRIBUTES {x: 1} WHERE { ?m CONCEPT {type: \"SelfModel\"} }".to_string()),
        3 => {
            let a: Vec<&El> = w.assertions.iter().filter(|a| a.status == "retracted").collect();
            if a.is_empty() {
                return None;
            }
            ("retract", format!("RETRACT ASSERTION {}", jstr(&rng.pick(&a).id)))
        }
        _ => {
            let c = World::active(&w.concepts);
            if c.is_empty() {
                return None;
            }
            // twice the same assignment: the second one is the no-effect statement (or both are)
            ("update_concept", format!("UPDATE {} SET ATTRIBUTES {{fixed: 7}}", jstr(&rng.pick(&c).id)))
        }
    };
    let mut cmd = Cmd::new(text);
    cmd.params = params;
    Some(Stmt { cmd, kinds: vec![kind], fail: None, dry: "none", restricted: false, retry_of_previous: false })
}

/// Workload shape: C17 wants refusals and dry runs, C18 wants committed histories.
#[derive(Clone, Copy, Debug)]
pub struct GenCfg {
    /// percent of statements that get an injected failing clause
    pub fail_pct: u64,
    /// percent of statements that are dry runs (half option, half PREVIEW)
    pub dry_pct: u32,
    pub restricted: bool,
    pub retries: bool,
    pub no_effect: bool,
    /// also inject the classes that refuse while the commit runs (C17's subject; C18 histories
    /// must consist of whole commits only)
    pub commit_time_failures: bool,
}

pub const CFG_C17: GenCfg = GenCfg { fail_pct: 45, dry_pct: 20, restricted: true, retries: true, no_effect: true, commit_time_failures: true };
pub const CFG_C18: GenCfg = GenCfg { fail_pct: 6, dry_pct: 0, restricted: false, retries: false, no_effect: false, commit_time_failures: false };

pub fn gen_stmt(rng: &mut Rng, g: &mut Gen, w: &World, prev: Option<&Stmt>, cfg: &GenCfg) -> Stmt {
    if let (Some(p), true) = (prev, cfg.retries) {
        if p.dry == "none" && rng.chance(1, 10) {
            // an idempotent retry: the identical request (documented: re-executes)
            let mut s = p.clone();
            s.retry_of_previous = true;
            return s;
        }
    }
    if cfg.no_effect && rng.chance(1, 12) {
        if let Some(s) = gen_no_effect(rng, g, w) {
            return s;
        }
    }
    let dry = match rng.weighted(&[100 - cfg.dry_pct, cfg.dry_pct / 2, cfg.dry_pct - cfg.dry_pct / 2]) {
        0 => "none",
        1 => "option",
        _ => "preview",
    };
    let mut fail_class = if rng.chance(cfg.fail_pct, 100) { Some(*rng.pick(&FAIL_CLASSES)) } else { None };
    if !cfg.restricted && matches!(fail_class, Some("authz_plan") | Some("authz_gate")) {
        fail_class = None;
    }
    if !cfg.commit_time_failures && matches!(fail_class, Some("key_conflict_commit") | Some("tuple_conflict_commit") | Some("cross_space_ref_commit")) {
        fail_class = None;
    }
    let restricted = cfg.restricted && (matches!(fail_class, Some("authz_plan") | Some("authz_gate")) || rng.chance(1, 25));
    let mut b = Block {
        rng,
        g,
        w,
        clauses: vec![],
        params: Map::new(),
        allow_params: dry != "preview",
        persons: vec![],
        others: vec![],
        props: vec![],
        evidence: vec![],
        touched: vec![],
    };
    b.plan_creations();
    if !restricted {
        b.plan_props();
        b.plan_records();
        b.plan_modifications();
    }
    let mut fail = None;
    let mut clauses = std::mem::take(&mut b.clauses);
    b.rng.shuffle(&mut clauses);
    if let Some(class) = fail_class {
        if let Some(mut fc) = b.failing(class) {
            let pos = if clauses.is_empty() {
                "only"
            } else {
                *b.rng.pick(&["first", "middle", "last"])
            };
            // supporting clauses of a multi-clause failure stay in front, the failing one moves
            let last = fc.pop().unwrap();
            let at = match pos {
                "first" | "only" => 0,
                "last" => clauses.len(),
                _ => clauses.len() / 2,
            };
            clauses.insert(at, last);
            for c in fc {
                // keep the failing clause where the position label says it is
                let at = match pos {
                    "first" | "only" => 1 + b.rng.usize(clauses.len()),
                    "last" => b.rng.usize(clauses.len()),
                    _ => b.rng.usize(clauses.len() + 1),
                };
                clauses.insert(at, c);
            }
            fail = Some((class, pos));
        }
    }
    if clauses.is_empty() {
        let body = b.concept_body("Person", None);
        clauses.push(Clause { kind: "create_concept", text: format!("CREATE CONCEPT ?solo{} {{ {body} }}", b.g.next()) });
    }
    let text = if clauses.len() == 1 && !clauses[0].text.starts_with("ASSERT") && b.rng.bool() {
        clauses[0].text.clone()
    } else {
        format!("MUTATE {{\n  {}\n}}", clauses.iter().map(|c| c.text.as_str()).collect::<Vec<_>>().join("\n  "))
    };
    let mut cmd = Cmd::new(text);
    cmd.params = std::mem::take(&mut b.params);
    if dry == "option" {
        cmd.dry_run = true;
    }
    if dry == "preview" {
        let inner = cmd.text.clone();
        cmd = Cmd::new("PREVIEW KML :kml").param("kml", json!(inner));
    }
    if dry == "none" && b.rng.chance(1, 5) {
        cmd.idempotency_key = Some(b.g.name("idem"));
    }
    Stmt {
        cmd,
        kinds: clauses.iter().map(|c| c.kind).collect(),
        fail,
        dry,
        restricted,
        retry_of_previous: false,
    }
}


//! C07 - Store wrappers behave as a conforming object store with real CAS.
//!
//! Monitors (DESIGN.md C07):
//! * `seq`: differential execution of generated call sequences on MetaStore / EncryptedStore
//!   (over InMemory) against a bare `object_store::memory::InMemory`, with a token ledger (CAS
//!   oracle independent of the reference store), an internal-consistency audit of the wrapper
//!   (get/head/three listings report one size, token, timestamp per commit), cold-instance swaps
//!   and strictly sequential writes through a second, lagging instance.
//! * `conc`: 2-3 concurrent calls on one key, interleaved at every backend call (RecStore gate
//!   below the wrapper + manual executor; DFS within a budget, random beyond), judged against the
//!   set of linearizations; the same call sets also run on a multi-thread runtime (S-mt).
//!
//! Candidate finding kept as an oracle (signature `C07/{meta,enc}/concurrent/
//! read_not_found_while_key_is_overwritten`): a `get`/`head` that overlaps TWO completed
//! overwrites of its key returns `NotFound` although the key existed throughout. Sequence:
//! put(k,v0); reader resolves pointer v0; put(k,v1) commits and reclaims gen v0; reader's payload
//! read misses, re-resolves (once) to v1; put(k,v2) commits and reclaims gen v1; reader's second
//! payload read misses -> `NotFound` (get_opts retries only once; InMemory never does this).

use anda_object_store::{EncryptedStoreBuilder, MetaStoreBuilder};
use bytes::Bytes;
use chrono::{DateTime, TimeDelta, Utc};
use futures::{StreamExt, TryStreamExt};
use object_store::memory::InMemory;
use object_store::path::Path;
use object_store::{
    Attribute, Attributes, CopyMode, CopyOptions, Error, GetOptions, GetRange, MultipartUpload,
    ObjectMeta, ObjectStore, ObjectStoreExt, PutMode, PutMultipartOptions, PutOptions, PutPayload,
    RenameOptions, RenameTargetMode, UpdateVersion,
};
use std::collections::{BTreeSet, HashMap};
use std::ops::Range;
use std::sync::Arc;
use vcore::manual::{Chooser, DfsChooser, ManualExec, RandChooser};
use vcore::recstore::RecStore;
use vcore::{Rng, Run, Stats, Value, json};

// ---------------------------------------------------------------------------------------------
// basics

const KEYS: [&str; 6] = ["a", "a/b", "a/b/c", "ab", "d/e", "d/f"];
/// "" stands for `None`
const PREFIXES: [&str; 8] = ["", "a", "a/b", "a/b/c", "ab", "d", "d/e", "x"];
const OFFSETS: [&str; 9] = ["", "a", "a/b", "a/b/c", "aa", "ab", "d", "d/e", "zz"];
const CHUNKS: [u64; 4] = [1, 7, 16, 65536];

#[derive(Clone, Copy, Debug, PartialEq, Eq, Hash)]
enum EK {
    NotFound,
    AlreadyExists,
    Precondition,
    NotModified,
    NotSupported,
    Other,
}

fn ek(e: &Error) -> EK {
    match e {
        Error::NotFound { .. } => EK::NotFound,
        Error::AlreadyExists { .. } => EK::AlreadyExists,
        Error::Precondition { .. } => EK::Precondition,
        Error::NotModified { .. } => EK::NotModified,
        Error::NotSupported { .. } | Error::NotImplemented { .. } => EK::NotSupported,
        _ => EK::Other,
    }
}

impl EK {
    fn name(self) -> &'static str {
        match self {
            EK::NotFound => "NotFound",
            EK::AlreadyExists => "AlreadyExists",
            EK::Precondition => "Precondition",
            EK::NotModified => "NotModified",
            EK::NotSupported => "NotSupported",
            EK::Other => "Other",
        }
    }
}

#[derive(Clone, Copy, Debug, PartialEq, Eq)]
enum Cfg {
    Meta,
    Enc(u64),
}

impl Cfg {
    fn family(self) -> &'static str {
        match self {
            Cfg::Meta => "meta",
            Cfg::Enc(_) => "enc",
        }
    }
    fn tag(self) -> String {
        match self {
            Cfg::Meta => "meta".into(),
            Cfg::Enc(c) => format!("enc{c}"),
        }
    }
    /// chunk size (a nominal one for MetaStore, used only to pick payload sizes and ranges)
    fn chunk(self) -> u64 {
        match self {
            Cfg::Meta => 16,
            Cfg::Enc(c) => c,
        }
    }
}

fn build<T: ObjectStore + Clone>(cfg: Cfg, inner: &T) -> Arc<dyn ObjectStore> {
    match cfg {
        Cfg::Meta => Arc::new(MetaStoreBuilder::new(inner.clone(), 1000).build()),
        Cfg::Enc(c) => Arc::new(
            EncryptedStoreBuilder::with_secret(inner.clone(), 1000, [7u8; 32])
                .with_chunk_size(c)
                .build(),
        ),
    }
}

fn pattern(pat: u8, size: usize) -> Bytes {
    let mut v = Vec::with_capacity(size);
    for i in 0..size {
        let x = (i as u32).wrapping_mul(2654435761).rotate_left(pat as u32 + 3) >> 11;
        v.push(x as u8 ^ pat.wrapping_mul(37).wrapping_add(1));
    }
    Bytes::from(v)
}

#[derive(Clone)]
struct Payload {
    pat: u8,
    size: usize,
    cuts: Vec<usize>,
}

impl std::fmt::Debug for Payload {
    fn fmt(&self, f: &mut std::fmt::Formatter<'_>) -> std::fmt::Result {
        write!(f, "P{}x{}/{:?}", self.pat, self.size, self.cuts)
    }
}

impl Payload {
    fn bytes(&self) -> Bytes {
        pattern(self.pat, self.size)
    }
    fn put_payload(&self) -> PutPayload {
        let b = self.bytes();
        if self.cuts.is_empty() {
            return PutPayload::from_bytes(b);
        }
        let mut segs = vec![];
        let mut prev = 0;
        for c in self.cuts.iter().copied().chain(std::iter::once(self.size)) {
            segs.push(b.slice(prev..c));
            prev = c;
        }
        segs.into_iter().collect()
    }
}

fn sizes_for(c: u64) -> Vec<usize> {
    let c = c as usize;
    let mut v = vec![0, 1, c.saturating_sub(1), c, c + 1, 2 * c, 3 * c + 1];
    v.sort_unstable();
    v.dedup();
    v
}

fn size_class(size: u64, c: u64) -> &'static str {
    if size == 0 {
        "0"
    } else if size < c {
        "<c"
    } else if size == c {
        "=c"
    } else if size % c == 0 {
        "kc"
    } else {
        ">c"
    }
}

fn gen_payload(rng: &mut Rng, c: u64, small_only: bool) -> Payload {
    let mut sizes = sizes_for(c);
    if small_only {
        sizes.retain(|s| *s <= 2 * c as usize + 1);
    }
    let size = *rng.pick(&sizes);
    let pat = rng.below(3) as u8;
    let mut cuts = vec![];
    if size > 0 && rng.chance(2, 5) {
        let n = 1 + rng.usize(3);
        for _ in 0..n {
            // cut points near chunk boundaries and anywhere (empty segments included)
            let p = match rng.below(3) {
                0 => rng.usize(size + 1),
                1 => (c as usize).min(size),
                _ => (c as usize + 1).min(size),
            };
            cuts.push(p);
        }
        cuts.sort_unstable();
    }
    Payload { pat, size, cuts }
}

/// interesting byte positions of an object of size `s` stored with chunk size `c`
fn points(s: u64, c: u64) -> Vec<u64> {
    let mut v = vec![
        0,
        1,
        c.saturating_sub(1),
        c,
        c + 1,
        (2 * c).saturating_sub(1),
        2 * c,
        2 * c + 1,
        3 * c,
        s.saturating_sub(1),
        s,
        s + 1,
        s + c,
        s / 2,
    ];
    v.sort_unstable();
    v.dedup();
    v
}

fn gen_range(rng: &mut Rng, s: u64, c: u64) -> GetRange {
    let pts = points(s, c);
    match rng.weighted(&[50, 20, 20]) {
        0 => {
            let a = *rng.pick(&pts);
            let b = *rng.pick(&pts);
            if rng.chance(9, 10) && a > b {
                GetRange::Bounded(b..a)
            } else {
                GetRange::Bounded(a..b) // empty and inverted ones included
            }
        }
        1 => GetRange::Offset(*rng.pick(&pts)),
        _ => GetRange::Suffix(*rng.pick(&pts)),
    }
}

/// (kind label, resolved range when valid)
fn classify_range(r: &GetRange, s: u64) -> (&'static str, Option<Range<u64>>) {
    let res = r.as_range(s).ok();
    let kind = match r {
        GetRange::Bounded(b) if b.start == b.end => "bounded_empty",
        GetRange::Bounded(b) if b.start > b.end => "bounded_inverted",
        GetRange::Bounded(b) if b.start >= s => "bounded_start_past_end",
        GetRange::Bounded(b) if b.end > s => "bounded_end_past_end",
        GetRange::Bounded(_) => "bounded",
        GetRange::Offset(o) if *o >= s => "offset_past_end",
        GetRange::Offset(_) => "offset",
        GetRange::Suffix(0) => "suffix_zero",
        GetRange::Suffix(n) if *n > s => "suffix_larger_than_object",
        GetRange::Suffix(_) => "suffix",
    };
    (kind, res)
}

fn crosses_chunk(r: &Range<u64>, c: u64) -> bool {
    r.end > r.start && r.start / c != (r.end - 1) / c
}

fn digest(b: &[u8]) -> String {
    format!("{}B:{:016x}:{:?}", b.len(), vcore::fnv(b), &b[..b.len().min(6)])
}

// ---------------------------------------------------------------------------------------------
// panics raised while a wrapper call is on the stack (e.g. a slice index out of range inside a
// dependency, reached from the wrapper's range arithmetic) are findings, not harness faults

thread_local! {
    static TARGET_PANIC: std::cell::RefCell<Option<String>> = const { std::cell::RefCell::new(None) };
}

fn install_target_panic_hook() {
    let prev = std::panic::take_hook();
    std::panic::set_hook(Box::new(move |info| {
        let bt = std::backtrace::Backtrace::force_capture().to_string();
        if bt.contains("anda_object_store::") {
            let loc = info.location().map(|l| format!("{}:{}", l.file(), l.line())).unwrap_or_default();
            let msg = if let Some(s) = info.payload().downcast_ref::<&str>() {
                s.to_string()
            } else if let Some(s) = info.payload().downcast_ref::<String>() {
                s.clone()
            } else {
                "<non-string panic>".to_string()
            };
            TARGET_PANIC.with(|c| *c.borrow_mut() = Some(format!("{msg} (at {loc})")));
        }
        prev(info);
    }));
}

/// Runs `f`; a panic with the wrapper on the stack becomes a violation, any other panic is
/// passed on (vcore reports it as a harness fault).
fn guard_target_panics<R>(f: impl FnOnce() -> R) -> Result<R, String> {
    TARGET_PANIC.with(|c| *c.borrow_mut() = None);
    match std::panic::catch_unwind(std::panic::AssertUnwindSafe(f)) {
        Ok(r) => Ok(r),
        Err(p) => match TARGET_PANIC.with(|c| c.borrow_mut().take()) {
            Some(msg) => Err(msg),
            None => std::panic::resume_unwind(p),
        },
    }
}

// ---------------------------------------------------------------------------------------------
// symbolic tokens and conditions

#[derive(Clone, Debug, PartialEq)]
enum Tok {
    /// token of commit #n of key k
    C(usize, usize),
    Bogus,
}

#[derive(Clone, Debug)]
enum Part {
    T(Tok),
    L(&'static str),
}

#[derive(Clone, Debug)]
struct TagSpec {
    parts: Vec<Part>,
    sep: &'static str,
    pad: bool,
    shape: &'static str,
}

#[derive(Clone, Debug, Default)]
struct Cond {
    im: Option<TagSpec>,
    inm: Option<TagSpec>,
    /// if_modified_since = last_modified + delta ms
    ims: Option<i64>,
    ius: Option<i64>,
}

impl Cond {
    fn shape(&self) -> String {
        format!(
            "im:{}|inm:{}|ims:{}|ius:{}",
            self.im.as_ref().map(|t| t.shape).unwrap_or("-"),
            self.inm.as_ref().map(|t| t.shape).unwrap_or("-"),
            self.ims.map(|d| d.signum().to_string()).unwrap_or("-".into()),
            self.ius.map(|d| d.signum().to_string()).unwrap_or("-".into()),
        )
    }
}

#[derive(Clone, Copy, PartialEq)]
enum Side {
    W,
    R,
}

#[derive(Clone, Debug)]
enum ModeSpec {
    Overwrite,
    Create,
    Update {
        tok: Option<Tok>,
        version: bool,
        label: &'static str,
    },
}

impl ModeSpec {
    fn label(&self) -> String {
        match self {
            ModeSpec::Overwrite => "Overwrite".into(),
            ModeSpec::Create => "Create".into(),
            ModeSpec::Update { label, .. } => format!("Update[{label}]"),
        }
    }
}

#[derive(Clone, Copy, Debug, PartialEq)]
enum MpEnd {
    Complete,
    /// `complete()` called a second time on the same uploader (a retry after a lost
    /// acknowledgement): the reference commits the same parts again
    CompleteTwice,
    Abort,
    Drop,
}

#[derive(Clone, Debug)]
enum Op {
    Put { k: usize, mode: ModeSpec, pl: Payload, attrs: bool, via_lagging: bool },
    Multipart { k: usize, parts: Vec<Payload>, end: MpEnd, defer: bool, attrs: bool },
    FinishUpload { idx: usize },
    Get { k: usize, range: Option<GetRange>, cond: Cond, head: bool },
    GetRanges { k: usize, ranges: Vec<Range<u64>> },
    List { prefix: usize },
    ListOffset { prefix: usize, offset: usize },
    ListDelim { prefix: usize },
    Delete { k: usize },
    DeleteStream { ks: Vec<usize> },
    Copy { from: usize, to: usize, create: bool },
    Rename { from: usize, to: usize, create: bool },
    Aba { k: usize, a: Payload, b: Payload },
    ColdSwap { chunk: Option<u64>, probe: bool },
}

struct Commit {
    wtok: String,
    rtok: String,
    size: u64,
    wlm: DateTime<Utc>,
    rlm: DateTime<Utc>,
    data: Bytes,
    hash: u64,
    /// chunk size the payload was encrypted with (follows copies)
    chunk: u64,
}

#[derive(Default)]
struct KeyState {
    commits: Vec<Commit>,
    present: bool,
}

struct OpenUpload {
    k: usize,
    w: Box<dyn MultipartUpload>,
    r: Box<dyn MultipartUpload>,
    data: Vec<u8>,
    end: MpEnd,
    chunk: u64,
}

struct World {
    cfg: Cfg,
    inner: InMemory,
    w: Arc<dyn ObjectStore>,
    /// previous instance kept after a cold swap: its metadata cache lags behind
    lagging: Option<(Arc<dyn ObjectStore>, Cfg)>,
    r: InMemory,
    keys: Vec<Path>,
    ks: Vec<KeyState>,
    wtoks: HashMap<String, (usize, usize)>,
    rtoks: HashMap<String, (usize, usize)>,
    uploads: Vec<OpenUpload>,
    history: Vec<String>,
    shapes: Vec<String>,
    kinds: BTreeSet<&'static str>,
    failed: bool,
}

// ---------------------------------------------------------------------------------------------
// world: helpers, ledger, audit

type NMeta = (String, u64, String);

impl World {
    fn new(cfg: Cfg) -> World {
        let inner = InMemory::new();
        let w = build(cfg, &inner);
        World {
            cfg,
            inner,
            w,
            lagging: None,
            r: InMemory::new(),
            keys: KEYS.iter().map(|k| Path::from(*k)).collect(),
            ks: (0..KEYS.len()).map(|_| KeyState::default()).collect(),
            wtoks: HashMap::new(),
            rtoks: HashMap::new(),
            uploads: vec![],
            history: vec![format!("init cfg={}", cfg.tag())],
            shapes: vec![],
            kinds: BTreeSet::new(),
            failed: false,
        }
    }

    fn viol(&mut self, st: &mut Stats, sig: &str, detail: Value) {
        self.failed = true;
        st.violation(
            format!("C07/{}/{}", self.cfg.family(), sig),
            json!({"cfg": self.cfg.tag(), "what": detail, "history": self.history}),
        );
    }

    fn shape(&mut self, st: &mut Stats, kind: &'static str, s: String) {
        let full = format!("{}|{}|{}", self.cfg.tag(), kind, s);
        st.set("call_shapes", vcore::fnv_str(&full));
        st.count(&format!("call:{kind}"));
        self.kinds.insert(kind);
        self.shapes.push(format!("{kind}|{s}"));
    }

    fn cur(&self, k: usize) -> Option<&Commit> {
        if self.ks[k].present { self.ks[k].commits.last() } else { None }
    }
    fn present_set(&self) -> BTreeSet<usize> {
        (0..self.ks.len()).filter(|k| self.ks[*k].present).collect()
    }

    fn tok_cur(&self, k: usize) -> Tok {
        match self.ks[k].commits.len() {
            0 => Tok::Bogus,
            n => Tok::C(k, n - 1),
        }
    }
    fn tok_stale(&self, rng: &mut Rng, k: usize) -> Tok {
        let n = self.ks[k].commits.len();
        if n >= 2 { Tok::C(k, rng.usize(n - 1)) } else { Tok::Bogus }
    }
    fn tok_foreign(&self, rng: &mut Rng, k: usize) -> Tok {
        let others: Vec<usize> =
            (0..self.ks.len()).filter(|o| *o != k && !self.ks[*o].commits.is_empty()).collect();
        if others.is_empty() {
            return Tok::Bogus;
        }
        // prefer the current token of a present key
        let present: Vec<usize> = others.iter().copied().filter(|o| self.ks[*o].present).collect();
        let o = if !present.is_empty() { *rng.pick(&present) } else { *rng.pick(&others) };
        Tok::C(o, self.ks[o].commits.len() - 1)
    }

    fn concrete(&self, side: Side, t: &Tok) -> String {
        match t {
            Tok::Bogus => "nope".into(),
            Tok::C(k, n) => {
                let c = &self.ks[*k].commits[*n];
                if side == Side::W { c.wtok.clone() } else { c.rtok.clone() }
            }
        }
    }

    fn tagspec(&self, side: Side, t: &TagSpec) -> String {
        let parts: Vec<String> = t
            .parts
            .iter()
            .map(|p| match p {
                Part::T(t) => self.concrete(side, t),
                Part::L(s) => s.to_string(),
            })
            .collect();
        let s = parts.join(t.sep);
        if t.pad { format!(" {s} ") } else { s }
    }

    fn tokid(&self, side: Side, raw: &Option<String>) -> String {
        match raw {
            None => "<none>".into(),
            Some(t) => {
                let m = if side == Side::W { &self.wtoks } else { &self.rtoks };
                match m.get(t) {
                    Some((k, n)) => format!("{}#{}", KEYS[*k], n),
                    None => format!("?{t}"),
                }
            }
        }
    }

    fn nmeta(&self, side: Side, m: &ObjectMeta) -> NMeta {
        (m.location.to_string(), m.size, self.tokid(side, &m.e_tag))
    }

    fn nmetas(&self, side: Side, ms: &[ObjectMeta]) -> Vec<NMeta> {
        let mut v: Vec<NMeta> = ms.iter().map(|m| self.nmeta(side, m)).collect();
        v.sort();
        v
    }

    fn get_options(
        &self,
        side: Side,
        k: usize,
        range: &Option<GetRange>,
        cond: &Cond,
        head: bool,
    ) -> GetOptions {
        let lm = match self.ks[k].commits.last() {
            Some(c) => {
                if side == Side::W { c.wlm } else { c.rlm }
            }
            None => DateTime::<Utc>::from_timestamp(1_700_000_000, 0).unwrap(),
        };
        GetOptions {
            range: range.clone(),
            head,
            if_match: cond.im.as_ref().map(|t| self.tagspec(side, t)),
            if_none_match: cond.inm.as_ref().map(|t| self.tagspec(side, t)),
            if_modified_since: cond.ims.map(|d| lm + TimeDelta::milliseconds(d)),
            if_unmodified_since: cond.ius.map(|d| lm + TimeDelta::milliseconds(d)),
            ..Default::default()
        }
    }

    /// Records commit #n of key k after a successful mutation on both sides.
    #[allow(clippy::too_many_arguments)]
    async fn register(
        &mut self,
        st: &mut Stats,
        k: usize,
        data: Bytes,
        chunk: u64,
        w_put_tok: Option<Option<String>>,
        how: &str,
    ) {
        let key = self.keys[k].clone();
        let wh = match self.w.head(&key).await {
            Ok(m) => m,
            Err(e) => {
                self.viol(st, "consistency/head_after_commit", json!({"key": KEYS[k], "after": how, "error": e.to_string()}));
                return;
            }
        };
        let rh = match self.r.head(&key).await {
            Ok(m) => m,
            Err(e) => {
                st.inconclusive(format!("reference store lost a key after {how}: {e}"));
                self.failed = true;
                return;
            }
        };
        let Some(wtok) = wh.e_tag.clone() else {
            self.viol(st, "cas/no_token", json!({"key": KEYS[k], "after": how}));
            return;
        };
        let rtok = rh.e_tag.clone().unwrap_or_default();
        st.count("oracle_commit_registered");
        if let Some(pt) = &w_put_tok {
            st.count("oracle_put_result_token_vs_head");
            if pt.as_deref() != Some(wtok.as_str()) {
                self.viol(st, "consistency/put_result_token", json!({"key": KEYS[k], "after": how, "put_result": pt, "head": wtok}));
                return;
            }
        }
        if wh.size != data.len() as u64 {
            self.viol(st, "consistency/size_after_commit", json!({"key": KEYS[k], "after": how, "head_size": wh.size, "written": data.len()}));
            return;
        }
        let hash = vcore::fnv(&data);
        let n = self.ks[k].commits.len();
        st.count("oracle_token_distinct");
        if let Some((k0, n0)) = self.wtoks.get(&wtok).copied() {
            let same = self.ks[k0].commits[n0].hash == hash;
            self.viol(st, "cas/token_reused", json!({"token": wtok, "first": format!("{}#{}", KEYS[k0], n0),
                "again": format!("{}#{}", KEYS[k], n), "after": how, "identical_bytes": same}));
            return;
        }
        if self.ks[k].commits.iter().any(|c| c.hash == hash && c.size == data.len() as u64) {
            st.count("commits_identical_bytes_same_key");
        } else if self.ks.iter().any(|s| s.commits.iter().any(|c| c.hash == hash && c.size == data.len() as u64)) {
            st.count("commits_identical_bytes_other_key");
        }
        if let Some(prev) = self.ks[k].commits.last() {
            st.count("oracle_timestamp_monotone");
            if wh.last_modified < prev.wlm {
                let d = json!({"key": KEYS[k], "previous": prev.wlm.to_rfc3339(), "now": wh.last_modified.to_rfc3339()});
                self.viol(st, "consistency/timestamp_decreased", d);
                return;
            }
        }
        self.wtoks.insert(wtok.clone(), (k, n));
        self.rtoks.insert(rtok.clone(), (k, n));
        self.ks[k].commits.push(Commit {
            wtok,
            rtok,
            size: data.len() as u64,
            wlm: wh.last_modified,
            rlm: rh.last_modified,
            hash,
            data,
            chunk,
        });
        self.ks[k].present = true;
    }

    /// One wrapper-side observation of a key must match the ledger's current commit.
    fn check_triple(&mut self, st: &mut Stats, api: &str, k: usize, m: &ObjectMeta) {
        st.count("oracle_triple_consistency");
        let Some(c) = self.cur(k) else {
            self.viol(st, &format!("consistency/{api}_sees_absent_key"), json!({"key": KEYS[k]}));
            return;
        };
        let (size, tok, lm) = (c.size, c.wtok.clone(), c.wlm);
        if m.size != size {
            self.viol(st, &format!("consistency/{api}_size"), json!({"key": KEYS[k], "got": m.size, "commit": size}));
        } else if m.e_tag.as_deref() != Some(tok.as_str()) {
            let got = self.tokid(Side::W, &m.e_tag);
            self.viol(st, &format!("consistency/{api}_token"), json!({"key": KEYS[k], "got": got, "commit_token": tok}));
        } else if m.last_modified != lm {
            self.viol(st, &format!("consistency/{api}_timestamp"), json!({"key": KEYS[k],
                "got": m.last_modified.to_rfc3339(), "commit": lm.to_rfc3339()}));
        }
    }

    fn key_index(&self, p: &Path) -> Option<usize> {
        self.keys.iter().position(|k| k == p)
    }

    fn check_listing(&mut self, st: &mut Stats, api: &str, metas: &[ObjectMeta], expect: &BTreeSet<usize>) {
        let mut seen = BTreeSet::new();
        for m in metas {
            let Some(k) = self.key_index(&m.location) else {
                self.viol(st, &format!("consistency/{api}_unknown_location"), json!({"location": m.location.to_string()}));
                return;
            };
            if !seen.insert(k) {
                self.viol(st, &format!("consistency/{api}_duplicate"), json!({"key": KEYS[k]}));
                return;
            }
            if self.ks[k].present {
                self.check_triple(st, api, k, m);
                if self.failed {
                    return;
                }
            }
        }
        if &seen != expect {
            let f = |s: &BTreeSet<usize>| s.iter().map(|k| KEYS[*k]).collect::<Vec<_>>();
            self.viol(st, &format!("consistency/{api}_membership"), json!({"listed": f(&seen), "committed": f(expect)}));
        }
    }

    /// Wrapper-side internal consistency: head + the three listings (+ full reads when `deep`).
    async fn audit(&mut self, st: &mut Stats, deep: bool, when: &str) {
        let present = self.present_set();
        for k in 0..self.keys.len() {
            let key = self.keys[k].clone();
            match self.w.head(&key).await {
                Ok(m) => self.check_triple(st, "head", k, &m),
                Err(Error::NotFound { .. }) => {
                    if self.ks[k].present {
                        self.viol(st, "consistency/head_misses_key", json!({"key": KEYS[k], "when": when}));
                    }
                }
                Err(e) => self.viol(st, "consistency/head_error", json!({"key": KEYS[k], "error": e.to_string(), "when": when})),
            }
            if self.failed {
                return;
            }
        }
        match self.w.list(None).try_collect::<Vec<_>>().await {
            Ok(ms) => self.check_listing(st, "list", &ms, &present),
            Err(e) => self.viol(st, "consistency/list_error", json!({"error": e.to_string(), "when": when})),
        }
        if self.failed {
            return;
        }
        match self.w.list_with_offset(None, &Path::from("")).try_collect::<Vec<_>>().await {
            Ok(ms) => self.check_listing(st, "list_with_offset", &ms, &present),
            Err(e) => self.viol(st, "consistency/list_with_offset_error", json!({"error": e.to_string()})),
        }
        if self.failed {
            return;
        }
        let mut all = vec![];
        for p in [None, Some("a"), Some("a/b"), Some("d")] {
            let pp = p.map(Path::from);
            match self.w.list_with_delimiter(pp.as_ref()).await {
                Ok(l) => all.extend(l.objects),
                Err(e) => {
                    self.viol(st, "consistency/list_with_delimiter_error", json!({"error": e.to_string()}));
                    return;
                }
            }
        }
        self.check_listing(st, "list_with_delimiter", &all, &present);
        if self.failed || !deep {
            return;
        }
        for k in present {
            let key = self.keys[k].clone();
            st.count("oracle_deep_read");
            match self.w.get(&key).await {
                Ok(res) => {
                    let meta = res.meta.clone();
                    self.check_triple(st, "get", k, &meta);
                    if self.failed {
                        return;
                    }
                    match res.bytes().await {
                        Ok(b) => {
                            if b != self.cur(k).unwrap().data {
                                let exp = digest(&self.cur(k).unwrap().data);
                                self.viol(st, "consistency/read_back_bytes", json!({"key": KEYS[k], "when": when, "got": digest(&b), "committed": exp}));
                                return;
                            }
                        }
                        Err(e) => {
                            self.viol(st, "consistency/read_back_stream_error", json!({"key": KEYS[k], "when": when, "error": e.to_string()}));
                            return;
                        }
                    }
                }
                Err(e) => {
                    self.viol(st, "consistency/read_back_error", json!({"key": KEYS[k], "when": when, "error": e.to_string()}));
                    return;
                }
            }
        }
    }
}

// ---------------------------------------------------------------------------------------------
// generation

fn attrs_for(pat: u8) -> Attributes {
    let mut a = Attributes::new();
    a.insert(Attribute::ContentType, format!("text/x-{pat}").into());
    a
}

impl World {
    fn gen_tagspec(&self, rng: &mut Rng, k: usize) -> TagSpec {
        let cur = self.tok_cur(k);
        let (parts, sep, pad, shape): (Vec<Part>, &'static str, bool, &'static str) =
            match rng.weighted(&[22, 10, 10, 10, 8, 10, 8, 6, 8, 4, 4]) {
                0 => (vec![Part::T(cur)], ",", false, "current"),
                1 => (vec![Part::T(self.tok_stale(rng, k))], ",", false, "stale"),
                2 => (vec![Part::T(self.tok_foreign(rng, k))], ",", false, "foreign"),
                3 => (vec![Part::L("*")], ",", false, "star"),
                4 => (vec![Part::L("nope")], ",", false, "wrong"),
                5 => (vec![Part::L("nope"), Part::T(cur)], ", ", false, "list_hit"),
                6 => (vec![Part::T(cur), Part::L("zzz")], ",", false, "list_hit_nospace"),
                7 => (
                    vec![Part::L("nope"), Part::T(self.tok_stale(rng, k)), Part::T(self.tok_foreign(rng, k))],
                    ", ",
                    false,
                    "list_miss",
                ),
                8 => (vec![Part::T(cur)], ",", true, "padded"),
                9 => (vec![Part::L("")], ",", false, "empty"),
                _ => (vec![Part::L("*"), Part::T(cur)], ",", false, "star_in_list"),
            };
        TagSpec { parts, sep, pad, shape }
    }

    fn gen_cond(&self, rng: &mut Rng, k: usize) -> Cond {
        const DELTAS: [i64; 5] = [-3_600_000, -1, 0, 1, 3_600_000];
        let mut c = Cond::default();
        if rng.chance(1, 3) {
            c.im = Some(self.gen_tagspec(rng, k));
        }
        if rng.chance(1, 3) {
            c.inm = Some(self.gen_tagspec(rng, k));
        }
        if rng.chance(1, 4) {
            c.ims = Some(*rng.pick(&DELTAS));
        }
        if rng.chance(1, 4) {
            c.ius = Some(*rng.pick(&DELTAS));
        }
        c
    }

    fn gen_mode(&self, rng: &mut Rng, k: usize) -> ModeSpec {
        match rng.weighted(&[30, 16, 18, 10, 8, 5, 6, 5]) {
            0 => ModeSpec::Overwrite,
            1 => ModeSpec::Create,
            2 => ModeSpec::Update { tok: Some(self.tok_cur(k)), version: false, label: "current" },
            3 => ModeSpec::Update { tok: Some(self.tok_stale(rng, k)), version: false, label: "stale" },
            4 => ModeSpec::Update { tok: Some(self.tok_foreign(rng, k)), version: false, label: "foreign" },
            5 => ModeSpec::Update { tok: Some(Tok::Bogus), version: false, label: "bogus" },
            6 => ModeSpec::Update { tok: Some(self.tok_cur(k)), version: true, label: "with_version" },
            _ => ModeSpec::Update { tok: None, version: false, label: "no_etag" },
        }
    }

    fn pick_key(&self, rng: &mut Rng, want_present: bool) -> usize {
        let p: Vec<usize> = self.present_set().into_iter().collect();
        if want_present && !p.is_empty() && rng.chance(4, 5) {
            *rng.pick(&p)
        } else {
            rng.usize(KEYS.len())
        }
    }

    fn gen_op(&self, rng: &mut Rng, step: usize) -> Op {
        let c = self.cfg.chunk();
        let big = c > 1000;
        if step < 3 {
            return Op::Put { k: rng.usize(KEYS.len()), mode: ModeSpec::Overwrite, pl: gen_payload(rng, c, false), attrs: rng.bool(), via_lagging: false };
        }
        let w_fin = if self.uploads.is_empty() { 0 } else { 8 };
        let w_lag = if self.lagging.is_some() && self.uploads.is_empty() { 6 } else { 0 };
        let w_swap = if self.uploads.is_empty() { 5 } else { 0 };
        // put, multipart, finish upload, get, head, get_ranges, list, list_with_offset,
        // list_with_delimiter, delete, delete_stream, copy, rename, A->B->A, cold swap, lagging put
        match rng.weighted(&[20, 6, w_fin, 22, 7, 5, 3, 3, 4, 5, 2, 6, 5, 2, w_swap, w_lag]) {
            0 => {
                let k = self.pick_key(rng, false);
                Op::Put { k, mode: self.gen_mode(rng, k), pl: gen_payload(rng, c, false), attrs: rng.chance(1, 3), via_lagging: false }
            }
            1 => {
                let n = if big { rng.usize(3) } else { rng.usize(5) };
                let mut psz: Vec<usize> = vec![0, 1, (c as usize).saturating_sub(1), c as usize, c as usize + 1, 2 * c as usize, 2 * c as usize + 1, (c as usize).div_ceil(2)];
                psz.dedup();
                let parts = (0..n)
                    .map(|_| {
                        let size = *rng.pick(&psz);
                        let cuts = if size > 1 && rng.chance(1, 4) { vec![rng.usize(size)] } else { vec![] };
                        Payload { pat: rng.below(3) as u8, size, cuts }
                    })
                    .collect();
                // (MpEnd::CompleteTwice is not generated: calling complete() on an already completed upload is
                // implementation-defined in the object_store contract, see DESIGN 23.2b)
                let end = *rng.pick(&[MpEnd::Complete, MpEnd::Complete, MpEnd::Complete, MpEnd::Abort, MpEnd::Drop]);
                Op::Multipart { k: self.pick_key(rng, false), parts, end, defer: rng.chance(1, 3), attrs: rng.chance(1, 4) }
            }
            2 => Op::FinishUpload { idx: rng.usize(self.uploads.len()) },
            3 => {
                let k = self.pick_key(rng, true);
                let (s, oc) = self.cur(k).map(|x| (x.size, x.chunk)).unwrap_or((0, c));
                let range = if rng.chance(3, 4) { Some(gen_range(rng, s, oc)) } else { None };
                Op::Get { k, range, cond: self.gen_cond(rng, k), head: rng.chance(1, 8) }
            }
            4 => {
                let k = self.pick_key(rng, true);
                let cond = if rng.chance(1, 3) { self.gen_cond(rng, k) } else { Cond::default() };
                Op::Get { k, range: None, cond, head: true }
            }
            5 => {
                let k = self.pick_key(rng, true);
                let (s, oc) = self.cur(k).map(|x| (x.size, x.chunk)).unwrap_or((0, c));
                let pts = points(s, oc);
                let n = rng.usize(5);
                let mut ranges: Vec<Range<u64>> = (0..n)
                    .map(|_| {
                        let (a, b) = (*rng.pick(&pts), *rng.pick(&pts));
                        if a > b && rng.chance(9, 10) { b..a } else { a..b }
                    })
                    .collect();
                if n >= 2 && rng.chance(1, 3) {
                    ranges[n - 1] = ranges[0].clone(); // repeated
                }
                // mostly valid lists: drop invalid entries 2 times out of 3
                if rng.chance(2, 3) {
                    ranges.retain(|r| r.start < r.end && r.end <= s);
                }
                Op::GetRanges { k, ranges }
            }
            6 => Op::List { prefix: rng.usize(PREFIXES.len()) },
            7 => Op::ListOffset { prefix: rng.usize(PREFIXES.len()), offset: rng.usize(OFFSETS.len()) },
            8 => Op::ListDelim { prefix: rng.usize(PREFIXES.len()) },
            9 => Op::Delete { k: self.pick_key(rng, true) },
            10 => {
                let mut ks: Vec<usize> = (0..KEYS.len()).collect();
                rng.shuffle(&mut ks);
                ks.truncate(1 + rng.usize(4));
                Op::DeleteStream { ks }
            }
            11 => {
                let from = self.pick_key(rng, true);
                let to = if rng.chance(1, 8) { from } else { rng.usize(KEYS.len()) };
                Op::Copy { from, to, create: rng.chance(2, 5) }
            }
            12 => {
                let from = self.pick_key(rng, true);
                let to = if rng.chance(1, 8) { from } else { rng.usize(KEYS.len()) };
                Op::Rename { from, to, create: rng.chance(2, 5) }
            }
            13 => {
                let a = gen_payload(rng, c, true);
                let mut b = gen_payload(rng, c, true);
                b.pat = (a.pat + 1) % 3;
                if b.size == 0 {
                    b.size = 1;
                    b.cuts.clear();
                }
                Op::Aba { k: rng.usize(KEYS.len()), a, b }
            }
            14 => {
                let chunk = match self.cfg {
                    Cfg::Enc(cur) if rng.chance(1, 3) => {
                        let others: Vec<u64> = CHUNKS.iter().copied().filter(|x| *x != cur && (*x < 1000 || cur > 1000 || rng.chance(1, 4))).collect();
                        Some(*rng.pick(&others))
                    }
                    _ => None,
                };
                Op::ColdSwap { chunk, probe: rng.bool() }
            }
            _ => {
                // a write through the lagging instance: the interesting tokens are the one that
                // instance may still have cached (stale) and the really current one
                let k = self.pick_key(rng, true);
                let mode = match rng.weighted(&[30, 30, 15, 15, 10]) {
                    0 => ModeSpec::Update { tok: Some(self.tok_cur(k)), version: false, label: "current" },
                    1 => ModeSpec::Update { tok: Some(self.tok_stale(rng, k)), version: false, label: "stale" },
                    2 => ModeSpec::Create,
                    3 => ModeSpec::Overwrite,
                    _ => ModeSpec::Update { tok: Some(self.tok_foreign(rng, k)), version: false, label: "foreign" },
                };
                Op::Put { k, mode, pl: gen_payload(rng, c, true), attrs: false, via_lagging: true }
            }
        }
    }
}

// ---------------------------------------------------------------------------------------------
// mutating calls

fn res_kind<T>(r: &Result<T, Error>) -> String {
    match r {
        Ok(_) => "ok".into(),
        Err(e) => ek(e).name().into(),
    }
}

impl World {
    /// put_opts on both sides + CAS oracle against the ledger. Returns whether it committed.
    async fn do_put(
        &mut self,
        st: &mut Stats,
        k: usize,
        mode: &ModeSpec,
        pl: &Payload,
        attrs: bool,
        via_lagging: bool,
    ) -> bool {
        let key = self.keys[k].clone();
        let data = pl.bytes();
        let present = self.ks[k].present;
        let latest = self.ks[k].commits.len().checked_sub(1);
        // what the ledger says must happen (independent of the reference store)
        let (expect_ok, expect_err, skip_ref, ref_variant_free) = match mode {
            ModeSpec::Overwrite => (true, EK::Other, false, false),
            ModeSpec::Create => (!present, EK::AlreadyExists, false, false),
            ModeSpec::Update { tok, version, .. } => {
                let is_latest = matches!((tok, latest), (Some(Tok::C(tk, tn)), Some(l)) if *tk == k && *tn == l);
                // documented: a version precondition never matches (versions are not reported);
                // a missing e_tag is rejected with Precondition (InMemory: Generic)
                (present && is_latest && !*version, EK::Precondition, *version, tok.is_none())
            }
        };
        let mk_mode = |side: Side| match mode {
            ModeSpec::Overwrite => PutMode::Overwrite,
            ModeSpec::Create => PutMode::Create,
            ModeSpec::Update { tok, version, .. } => PutMode::Update(UpdateVersion {
                e_tag: tok.as_ref().map(|t| self.concrete(side, t)),
                version: if *version { Some("v1".to_string()) } else { None },
            }),
        };
        let mk_opts = |side: Side| PutOptions {
            mode: mk_mode(side),
            attributes: if attrs { attrs_for(pl.pat) } else { Attributes::new() },
            ..Default::default()
        };
        let (store, chunk) = match (&self.lagging, via_lagging) {
            (Some((s, c)), true) => (s.clone(), c.chunk()),
            _ => (self.w.clone(), self.cfg.chunk()),
        };
        let via = via_lagging && self.lagging.is_some();
        let wr = store.put_opts(&key, pl.put_payload(), mk_opts(Side::W)).await;
        let rr = if skip_ref { None } else { Some(self.r.put_opts(&key, pl.put_payload(), mk_opts(Side::R)).await) };
        let label = mode.label();
        st.count(&format!("put:{}:{}{}", label, res_kind(&wr), if via { ":via_lagging_instance" } else { "" }));
        if let ModeSpec::Update { label, .. } = mode {
            if matches!(*label, "stale" | "foreign" | "bogus") {
                st.count("update_attempts_stale_or_foreign_token");
            }
        }
        let sc = size_class(pl.size as u64, chunk);
        self.shape(st, "put_opts", format!("{label}|{sc}|segs{}|{}|{}", pl.cuts.len() + 1, res_kind(&wr), via));
        // CAS oracle
        st.count("oracle_cas_ledger");
        match (&wr, expect_ok) {
            (Ok(_), false) => {
                let sig = match mode {
                    ModeSpec::Create => "cas/create_succeeded_on_existing_key",
                    _ => "cas/update_succeeded_without_latest_token",
                };
                self.viol(st, sig, json!({"key": KEYS[k], "mode": format!("{mode:?}"), "via_lagging_instance": via,
                    "latest_commit": latest, "present": present}));
                return false;
            }
            (Err(e), true) => {
                let sig = match mode {
                    ModeSpec::Create => "cas/create_rejected_on_absent_key",
                    ModeSpec::Overwrite => "diff/put_overwrite_failed",
                    _ => "cas/update_rejected_with_latest_token",
                };
                self.viol(st, sig, json!({"key": KEYS[k], "mode": format!("{mode:?}"), "via_lagging_instance": via, "error": e.to_string()}));
                return false;
            }
            (Err(e), false) => {
                if ek(e) != expect_err {
                    self.viol(st, "diff/put_error_variant", json!({"key": KEYS[k], "mode": format!("{mode:?}"),
                        "got": ek(e).name(), "expected": expect_err.name(), "error": e.to_string()}));
                    return false;
                }
            }
            (Ok(_), true) => {}
        }
        // differential
        if let Some(rr) = &rr {
            st.count("oracle_diff_put");
            let same = match (&wr, rr) {
                (Ok(_), Ok(_)) => true,
                (Err(a), Err(b)) => ref_variant_free || ek(a) == ek(b),
                _ => false,
            };
            if !same {
                self.viol(st, "diff/put_result", json!({"key": KEYS[k], "mode": format!("{mode:?}"),
                    "wrapper": res_kind(&wr), "reference": res_kind(rr)}));
                return false;
            }
        }
        match wr {
            Ok(res) => {
                self.register(st, k, data, chunk, Some(res.e_tag), "put_opts").await;
                if via && !self.failed {
                    // the primary instance's cache now lags: replace it by a cold one
                    self.w = build(self.cfg, &self.inner);
                    st.count("cold_swaps_after_lagging_write");
                }
                true
            }
            Err(_) => false,
        }
    }

    async fn do_multipart(&mut self, st: &mut Stats, k: usize, parts: &[Payload], end: MpEnd, defer: bool, attrs: bool) {
        let key = self.keys[k].clone();
        let c = self.cfg.chunk();
        let mk = || PutMultipartOptions {
            attributes: if attrs { attrs_for(9) } else { Attributes::new() },
            ..Default::default()
        };
        let wu = self.w.put_multipart_opts(&key, mk()).await;
        let ru = self.r.put_multipart_opts(&key, mk()).await;
        let (mut wu, mut ru) = match (wu, ru) {
            (Ok(a), Ok(b)) => (a, b),
            (a, b) => {
                self.viol(st, "diff/multipart_init", json!({"key": KEYS[k], "wrapper": res_kind(&a), "reference": res_kind(&b)}));
                return;
            }
        };
        let mut data = vec![];
        for p in parts {
            let before = data.len() as u64;
            data.extend_from_slice(&p.bytes());
            let after = data.len() as u64;
            if p.size > 0 && (before % c != 0 || after % c != 0) {
                st.count("mp:part_not_chunk_aligned");
            }
            if p.size > 0 && before / c != (after - 1) / c {
                st.count("mp:part_straddles_chunk_boundary");
            }
            let a = wu.put_part(p.put_payload()).await;
            let b = ru.put_part(p.put_payload()).await;
            st.count("call:put_part");
            if a.is_ok() != b.is_ok() {
                self.viol(st, "diff/multipart_put_part", json!({"key": KEYS[k], "wrapper": res_kind(&a), "reference": res_kind(&b)}));
                return;
            }
        }
        let szs: Vec<&str> = parts.iter().map(|p| size_class(p.size as u64, c)).collect();
        self.shape(st, "put_multipart", format!("{szs:?}|{end:?}|defer{defer}"));
        self.uploads.push(OpenUpload { k, w: wu, r: ru, data, end, chunk: c });
        if !defer {
            let idx = self.uploads.len() - 1;
            self.finish_upload(st, idx).await;
        } else {
            st.count("mp:deferred_past_other_calls");
        }
    }

    async fn finish_upload(&mut self, st: &mut Stats, idx: usize) {
        let mut up = self.uploads.remove(idx);
        let k = up.k;
        match up.end {
            MpEnd::Complete | MpEnd::CompleteTwice => {
                let a = up.w.complete().await;
                let b = up.r.complete().await;
                st.count(&format!("mp:complete:{}", res_kind(&a)));
                st.count("oracle_diff_multipart");
                let mut both_ok = false;
                match (a, b) {
                    (Ok(res), Ok(_)) => {
                        both_ok = true;
                        self.register(st, k, Bytes::from(up.data.clone()), up.chunk, Some(res.e_tag), "multipart complete").await;
                    }
                    (a, b) => {
                        if a.is_ok() != b.is_ok() {
                            self.viol(st, "diff/multipart_complete", json!({"key": KEYS[k], "wrapper": res_kind(&a), "reference": res_kind(&b)}));
                        }
                    }
                }
                if both_ok && up.end == MpEnd::CompleteTwice && !self.failed {
                    let a = up.w.complete().await;
                    let b = up.r.complete().await;
                    st.count(&format!("mp:second_complete:{}", res_kind(&a)));
                    st.count("oracle_diff_multipart");
                    match (a, b) {
                        (Ok(res), Ok(_)) => {
                            self.register(st, k, Bytes::from(up.data), up.chunk, Some(res.e_tag), "second multipart complete of one upload").await;
                        }
                        (a, b) => {
                            if a.is_ok() != b.is_ok() {
                                self.viol(st, "diff/multipart_second_complete", json!({"key": KEYS[k], "wrapper": res_kind(&a), "reference": res_kind(&b)}));
                            } else {
                                // both refuse: the key keeps the first commit
                                st.count("mp:second_complete_refused_by_both");
                            }
                        }
                    }
                }
            }
            MpEnd::Abort => {
                let a = up.w.abort().await;
                let b = up.r.abort().await;
                st.count(&format!("mp:abort:{}", res_kind(&a)));
                if a.is_ok() != b.is_ok() {
                    self.viol(st, "diff/multipart_abort", json!({"key": KEYS[k], "wrapper": res_kind(&a), "reference": res_kind(&b)}));
                }
            }
            MpEnd::Drop => {
                st.count("mp:dropped_without_complete");
                drop(up);
            }
        }
    }

    async fn do_copy(&mut self, st: &mut Stats, from: usize, to: usize, create: bool, rename: bool) {
        let (f, t) = (self.keys[from].clone(), self.keys[to].clone());
        let src_present = self.ks[from].present;
        let dst_present = self.ks[to].present;
        let self_op = from == to;
        let name: &'static str = if rename { "rename_opts" } else { "copy_opts" };
        let expect: Result<(), EK> = if !src_present {
            Err(EK::NotFound)
        } else if create && dst_present {
            Err(EK::AlreadyExists)
        } else {
            Ok(())
        };
        let wr = if rename {
            let m = if create { RenameTargetMode::Create } else { RenameTargetMode::Overwrite };
            self.w.rename_opts(&f, &t, RenameOptions::new().with_target_mode(m)).await
        } else {
            let m = if create { CopyMode::Create } else { CopyMode::Overwrite };
            self.w.copy_opts(&f, &t, CopyOptions::new().with_mode(m)).await
        };
        // documented: a self-rename leaves the object untouched (the reference would destroy it
        // by copy + delete), so the reference is not consulted for it
        let rr = if rename && self_op {
            None
        } else if rename {
            let m = if create { RenameTargetMode::Create } else { RenameTargetMode::Overwrite };
            Some(self.r.rename_opts(&f, &t, RenameOptions::new().with_target_mode(m)).await)
        } else {
            let m = if create { CopyMode::Create } else { CopyMode::Overwrite };
            Some(self.r.copy_opts(&f, &t, CopyOptions::new().with_mode(m)).await)
        };
        let mode = if create { "Create" } else { "Overwrite" };
        st.count(&format!("{name}:{mode}:{}{}", res_kind(&wr), if self_op { ":self" } else { "" }));
        self.shape(st, name, format!("{mode}|self{self_op}|src{src_present}|dst{dst_present}|{}", res_kind(&wr)));
        st.count("oracle_diff_copy_rename");
        let got: Result<(), EK> = wr.as_ref().map(|_| ()).map_err(ek);
        if got != expect {
            self.viol(st, &format!("diff/{name}_result"), json!({"from": KEYS[from], "to": KEYS[to], "mode": mode,
                "wrapper": res_kind(&wr), "expected": format!("{expect:?}"), "source_present": src_present, "target_present": dst_present}));
            return;
        }
        if let Some(rr) = &rr {
            let rgot: Result<(), EK> = rr.as_ref().map(|_| ()).map_err(ek);
            if rgot != got {
                self.viol(st, &format!("diff/{name}_vs_reference"), json!({"from": KEYS[from], "to": KEYS[to], "mode": mode,
                    "wrapper": res_kind(&wr), "reference": res_kind(rr)}));
                return;
            }
        }
        if wr.is_err() {
            return;
        }
        if rename && self_op {
            st.count("self_rename_left_object_untouched_checked");
            return; // the audit after this call checks that the commit is unchanged
        }
        let (data, chunk) = {
            let c = self.cur(from).unwrap();
            (c.data.clone(), c.chunk)
        };
        self.register(st, to, data, chunk, None, name).await;
        if rename && !self.failed {
            self.ks[from].present = false;
        }
    }

    async fn do_delete(&mut self, st: &mut Stats, k: usize) {
        let key = self.keys[k].clone();
        let present = self.ks[k].present;
        let wr = self.w.delete(&key).await;
        let rr = self.r.delete(&key).await;
        st.count(&format!("delete:{}", res_kind(&wr)));
        self.shape(st, "delete", format!("present{present}|{}", res_kind(&wr)));
        st.count("oracle_diff_delete");
        // documented deviation: deleting a missing key is NotFound (InMemory: Ok)
        let expect: Result<(), EK> = if present { Ok(()) } else { Err(EK::NotFound) };
        let got: Result<(), EK> = wr.as_ref().map(|_| ()).map_err(ek);
        if got != expect || rr.is_err() {
            self.viol(st, "diff/delete_result", json!({"key": KEYS[k], "present": present, "wrapper": res_kind(&wr), "reference": res_kind(&rr)}));
            return;
        }
        self.ks[k].present = false;
    }

    async fn do_delete_stream(&mut self, st: &mut Stats, ks: &[usize]) {
        let paths: Vec<Path> = ks.iter().map(|k| self.keys[*k].clone()).collect();
        let mk = |p: &Vec<Path>| futures::stream::iter(p.clone().into_iter().map(Ok)).boxed();
        let wres: Vec<Result<Path, Error>> = self.w.delete_stream(mk(&paths)).collect().await;
        let rres: Vec<Result<Path, Error>> = self.r.delete_stream(mk(&paths)).collect().await;
        let missing: Vec<usize> = ks.iter().copied().filter(|k| !self.ks[*k].present).collect();
        st.count("oracle_diff_delete_stream");
        st.add("delete_stream:missing_keys", missing.len() as u64);
        self.shape(st, "delete_stream", format!("n{}|missing{}", ks.len(), missing.len()));
        let mut ok_paths: Vec<String> = vec![];
        let mut nf_paths: Vec<String> = vec![];
        let mut bad = None;
        for r in &wres {
            match r {
                Ok(p) => ok_paths.push(p.to_string()),
                Err(Error::NotFound { path, .. }) => nf_paths.push(path.clone()),
                Err(e) => bad = Some(e.to_string()),
            }
        }
        ok_paths.sort();
        nf_paths.sort();
        let mut exp_ok: Vec<String> = ks.iter().filter(|k| self.ks[**k].present).map(|k| KEYS[*k].to_string()).collect();
        let mut exp_nf: Vec<String> = missing.iter().map(|k| KEYS[*k].to_string()).collect();
        exp_ok.sort();
        exp_nf.sort();
        if bad.is_some() || ok_paths != exp_ok || nf_paths != exp_nf || rres.iter().any(|r| r.is_err()) || rres.len() != ks.len() {
            self.viol(st, "diff/delete_stream_result", json!({"deleted": ok_paths, "not_found": nf_paths, "other_error": bad,
                "expected_deleted": exp_ok, "expected_not_found": exp_nf}));
            return;
        }
        for k in ks {
            self.ks[*k].present = false;
        }
    }
}

// ---------------------------------------------------------------------------------------------
// reads, listings, swaps

#[derive(Debug, PartialEq)]
enum GetOut {
    Ok { meta: NMeta, range: Range<u64>, body: Option<String>, attrs_ct: Option<String> },
    Err(EK),
    StreamErr(String),
}

impl World {
    async fn norm_get(&self, side: Side, r: Result<object_store::GetResult, Error>, head: bool) -> (GetOut, Option<ObjectMeta>) {
        match r {
            Err(e) => (GetOut::Err(ek(&e)), None),
            Ok(res) => {
                let raw = res.meta.clone();
                let meta = self.nmeta(side, &res.meta);
                let range = res.range.clone();
                let attrs_ct = res.attributes.get(&Attribute::ContentType).map(|v| v.to_string());
                if head {
                    // documented: a head request carries no body; only the metadata is compared
                    return (GetOut::Ok { meta, range: 0..0, body: None, attrs_ct }, Some(raw));
                }
                match res.bytes().await {
                    Ok(b) => (GetOut::Ok { meta, range, body: Some(digest(&b)), attrs_ct }, Some(raw)),
                    Err(e) => (GetOut::StreamErr(e.to_string()), Some(raw)),
                }
            }
        }
    }

    async fn do_get(&mut self, st: &mut Stats, k: usize, range: &Option<GetRange>, cond: &Cond, head: bool) {
        let key = self.keys[k].clone();
        let (s, oc) = self.cur(k).map(|c| (c.size, c.chunk)).unwrap_or((0, self.cfg.chunk()));
        let wo = self.get_options(Side::W, k, range, cond, head);
        let ro = self.get_options(Side::R, k, range, cond, head);
        let wr = self.w.get_opts(&key, wo).await;
        let rr = self.r.get_opts(&key, ro).await;
        let (wn, wraw) = self.norm_get(Side::W, wr, head).await;
        let (rn, _) = self.norm_get(Side::R, rr, head).await;
        let mut range_invalid = false;
        let kind: &'static str = if head { "head" } else { "get_opts" };
        let mut rk = "none";
        if let Some(r) = range {
            let (label, resolved) = classify_range(r, s);
            rk = label;
            if self.ks[k].present {
                st.count(&format!("get:range:{label}"));
                match &resolved {
                    Some(rr) => {
                        if crosses_chunk(rr, oc) {
                            st.count("get:range_crosses_chunk_boundary");
                        }
                        if rr.end > rr.start && (rr.start % oc == 0 || rr.end % oc == 0) {
                            st.count("get:range_touches_chunk_boundary");
                        }
                    }
                    None => range_invalid = true,
                }
            }
        }
        let out = match &wn {
            GetOut::Ok { .. } => "ok",
            GetOut::Err(e) => e.name(),
            GetOut::StreamErr(_) => "stream_error",
        };
        st.count(&format!("{kind}:outcome:{out}"));
        if cond.im.is_some() || cond.inm.is_some() {
            st.count("get:etag_condition");
        }
        if cond.ims.is_some() || cond.ius.is_some() {
            st.count("get:date_condition");
        }
        if (cond.im.is_some() && cond.ius.is_some()) || (cond.inm.is_some() && cond.ims.is_some()) {
            st.count("get:date_condition_paired_with_etag_condition");
        }
        for t in [&cond.im, &cond.inm].into_iter().flatten() {
            st.count(&format!("get:tagspec:{}", t.shape));
        }
        self.shape(st, kind, format!("{rk}|{}|{}|{out}", size_class(s, oc), cond.shape()));
        st.count("oracle_diff_get");
        let same = match (&wn, &rn) {
            // invalid range: both sides must fail, the variant may differ
            (GetOut::Err(_), GetOut::Err(_)) if range_invalid => true,
            (a, b) => a == b,
        };
        if !same {
            let sig = match (&wn, &rn) {
                (GetOut::Ok { body: a, .. }, GetOut::Ok { body: b, .. }) if a != b => "diff/get_bytes",
                (GetOut::Ok { range: a, .. }, GetOut::Ok { range: b, .. }) if a != b => "diff/get_range_field",
                (GetOut::Ok { meta: a, .. }, GetOut::Ok { meta: b, .. }) if a != b => "diff/get_meta",
                (GetOut::Ok { .. }, GetOut::Ok { .. }) => "diff/get_attributes",
                (GetOut::StreamErr(_), _) => "diff/get_stream_error",
                (GetOut::Err(_), GetOut::Err(_)) => "diff/get_error_variant",
                (GetOut::Err(_), _) => "diff/get_failed_where_reference_succeeds",
                _ => "diff/get_succeeded_where_reference_fails",
            };
            self.viol(st, sig, json!({"key": KEYS[k], "size": s, "object_chunk": oc, "range": format!("{range:?}"), "head": head,
                "cond": format!("{cond:?}"), "wrapper": format!("{wn:?}"), "reference": format!("{rn:?}")}));
            return;
        }
        if let (GetOut::Ok { .. }, Some(raw)) = (&wn, &wraw) {
            self.check_triple(st, kind, k, raw);
        }
    }

    async fn do_get_ranges(&mut self, st: &mut Stats, k: usize, ranges: &[Range<u64>]) {
        let key = self.keys[k].clone();
        let present = self.ks[k].present;
        let (s, oc) = self.cur(k).map(|c| (c.size, c.chunk)).unwrap_or((0, self.cfg.chunk()));
        let wr = self.w.get_ranges(&key, ranges).await;
        let rr = self.r.get_ranges(&key, ranges).await;
        let norm = |r: &Result<Vec<Bytes>, Error>| -> Result<Vec<String>, EK> {
            r.as_ref().map(|v| v.iter().map(|b| digest(b)).collect()).map_err(ek)
        };
        let (wn, rn) = (norm(&wr), norm(&rr));
        let invalid = ranges.iter().any(|r| r.start >= r.end || r.start >= s);
        // documented deviation: get_ranges validates against the logical size and rejects a range
        // ending past it (InMemory truncates such a range)
        let end_past = ranges.iter().any(|r| r.end > s);
        let overlapping = ranges.iter().enumerate().any(|(i, a)| ranges[..i].iter().any(|b| a.start < b.end && b.start < a.end));
        st.count(&format!("get_ranges:{}", res_kind(&wr)));
        if present {
            if overlapping {
                st.count("get_ranges:overlapping_or_repeated");
            }
            if invalid || end_past {
                st.count("get_ranges:invalid_range");
            }
            if ranges.iter().any(|r| r.start < r.end && r.end <= s && crosses_chunk(r, oc)) {
                st.count("get_ranges:crosses_chunk_boundary");
            }
        }
        self.shape(st, "get_ranges", format!("n{}|present{present}|inv{invalid}|past{end_past}|ovl{overlapping}|{}", ranges.len(), res_kind(&wr)));
        st.count("oracle_diff_get_ranges");
        let same = if !present && ranges.is_empty() {
            // not comparable: an empty range list issues no request in object_store's default
            // implementation (Ok), InMemory looks the key up first (NotFound)
            st.count("get_ranges:empty_list_on_missing_key_not_compared");
            matches!(wn, Ok(ref v) if v.is_empty()) || wn == Err(EK::NotFound)
        } else if present && (invalid || end_past) {
            wn.is_err() && (rn.is_err() || (end_past && !invalid))
        } else {
            wn == rn
        };
        if !same {
            let sig = if wn.is_ok() && rn.is_ok() { "diff/get_ranges_bytes" } else { "diff/get_ranges_result" };
            self.viol(st, sig, json!({"key": KEYS[k], "size": s, "object_chunk": oc, "ranges": format!("{ranges:?}"),
                "wrapper": format!("{wn:?}"), "reference": format!("{rn:?}")}));
        }
    }

    async fn do_list(&mut self, st: &mut Stats, which: u8, prefix: usize, offset: usize) {
        let p = if PREFIXES[prefix].is_empty() { None } else { Some(Path::from(PREFIXES[prefix])) };
        let off = Path::from(OFFSETS[offset]);
        st.count("oracle_diff_list");
        match which {
            0 | 1 => {
                let (name, wr, rr): (&'static str, _, _) = if which == 0 {
                    ("list", self.w.list(p.as_ref()).try_collect::<Vec<_>>().await, self.r.list(p.as_ref()).try_collect::<Vec<_>>().await)
                } else {
                    (
                        "list_with_offset",
                        self.w.list_with_offset(p.as_ref(), &off).try_collect::<Vec<_>>().await,
                        self.r.list_with_offset(p.as_ref(), &off).try_collect::<Vec<_>>().await,
                    )
                };
                match (wr, rr) {
                    (Ok(a), Ok(b)) => {
                        let order_same = a.iter().map(|m| &m.location).eq(b.iter().map(|m| &m.location));
                        st.count(if order_same { "list:order_equals_reference" } else { "list:order_differs_from_reference" });
                        let (na, nb) = (self.nmetas(Side::W, &a), self.nmetas(Side::R, &b));
                        self.shape(st, name, format!("{}|{}|n{}", PREFIXES[prefix], if which == 1 { OFFSETS[offset] } else { "-" }, na.len()));
                        if !na.is_empty() {
                            st.count(&format!("{name}:non_empty"));
                        }
                        if na != nb {
                            self.viol(st, &format!("diff/{name}"), json!({"prefix": PREFIXES[prefix], "offset": OFFSETS[offset],
                                "wrapper": format!("{na:?}"), "reference": format!("{nb:?}")}));
                        }
                    }
                    (a, b) => self.viol(st, &format!("diff/{name}_error"), json!({"wrapper": res_kind(&a), "reference": res_kind(&b)})),
                }
            }
            _ => {
                let wr = self.w.list_with_delimiter(p.as_ref()).await;
                let rr = self.r.list_with_delimiter(p.as_ref()).await;
                match (wr, rr) {
                    (Ok(a), Ok(b)) => {
                        let (na, nb) = (self.nmetas(Side::W, &a.objects), self.nmetas(Side::R, &b.objects));
                        let mut ca: Vec<String> = a.common_prefixes.iter().map(|p| p.to_string()).collect();
                        let mut cb: Vec<String> = b.common_prefixes.iter().map(|p| p.to_string()).collect();
                        ca.sort();
                        cb.sort();
                        self.shape(st, "list_with_delimiter", format!("{}|n{}|p{}", PREFIXES[prefix], na.len(), ca.len()));
                        if !ca.is_empty() {
                            st.count("list_with_delimiter:with_common_prefixes");
                        }
                        if na != nb || ca != cb {
                            self.viol(st, "diff/list_with_delimiter", json!({"prefix": PREFIXES[prefix],
                                "wrapper": format!("{na:?} + {ca:?}"), "reference": format!("{nb:?} + {cb:?}")}));
                        }
                    }
                    (a, b) => self.viol(st, "diff/list_with_delimiter_error", json!({"wrapper": res_kind(&a), "reference": res_kind(&b)})),
                }
            }
        }
    }

    async fn do_cold_swap(&mut self, st: &mut Stats, rng: &mut Rng, chunk: Option<u64>, probe: bool) {
        if !self.uploads.is_empty() {
            return;
        }
        let old_cfg = self.cfg;
        if let (Cfg::Enc(_), Some(c)) = (self.cfg, chunk) {
            self.cfg = Cfg::Enc(c);
            st.count("cold_swaps_with_changed_chunk_size");
        }
        let fresh = build(self.cfg, &self.inner);
        let old = std::mem::replace(&mut self.w, fresh);
        self.lagging = Some((old, old_cfg));
        st.count("cold_swaps");
        self.shape(st, "cold_swap", format!("{:?}|probe{probe}", chunk.is_some()));
        if probe {
            // first access of a key through the cold instance is a conditional update that must fail
            let p: Vec<usize> = self.present_set().into_iter().collect();
            if !p.is_empty() {
                let k = *rng.pick(&p);
                let tok = match rng.below(3) {
                    0 => self.tok_stale(rng, k),
                    1 => self.tok_foreign(rng, k),
                    _ => Tok::Bogus,
                };
                let mode = ModeSpec::Update { tok: Some(tok), version: false, label: "stale" };
                let pl = gen_payload(rng, self.cfg.chunk(), true);
                self.history.push(format!("  probe on cold instance: Put k={k} {mode:?} {pl:?}"));
                st.count("cold_instance_first_access_is_bad_update");
                self.do_put(st, k, &mode, &pl, false, false).await;
                if self.failed {
                    return;
                }
            }
        }
        // cold answers must equal what the warm instance committed (ledger): full audit incl. bytes
        self.audit(st, true, "after cold swap").await;
    }

    async fn do_aba(&mut self, st: &mut Stats, k: usize, a: &Payload, b: &Payload) {
        self.shape(st, "aba", format!("{}|{}", size_class(a.size as u64, self.cfg.chunk()), size_class(b.size as u64, self.cfg.chunk())));
        if !self.do_put(st, k, &ModeSpec::Overwrite, a, false, false).await || self.failed {
            return;
        }
        let t1 = self.tok_cur(k);
        if !self.do_put(st, k, &ModeSpec::Overwrite, b, false, false).await || self.failed {
            return;
        }
        let t2 = self.tok_cur(k);
        let m = ModeSpec::Update { tok: Some(t2), version: false, label: "current" };
        if !self.do_put(st, k, &m, a, false, false).await || self.failed {
            return;
        }
        // same bytes as commit t1 again: the old token must not be accepted
        let m = ModeSpec::Update { tok: Some(t1.clone()), version: false, label: "stale" };
        self.do_put(st, k, &m, b, false, false).await;
        if self.failed {
            return;
        }
        let cond = Cond { im: Some(TagSpec { parts: vec![Part::T(t1)], sep: ",", pad: false, shape: "stale" }), ..Default::default() };
        self.do_get(st, k, &None, &cond, false).await;
        st.count("aba_sequences");
    }

    async fn apply(&mut self, st: &mut Stats, rng: &mut Rng, op: &Op) {
        match op {
            Op::Put { k, mode, pl, attrs, via_lagging } => {
                self.do_put(st, *k, mode, pl, *attrs, *via_lagging).await;
            }
            Op::Multipart { k, parts, end, defer, attrs } => self.do_multipart(st, *k, parts, *end, *defer, *attrs).await,
            Op::FinishUpload { idx } => {
                if *idx < self.uploads.len() {
                    self.finish_upload(st, *idx).await
                }
            }
            Op::Get { k, range, cond, head } => self.do_get(st, *k, range, cond, *head).await,
            Op::GetRanges { k, ranges } => self.do_get_ranges(st, *k, ranges).await,
            Op::List { prefix } => self.do_list(st, 0, *prefix, 0).await,
            Op::ListOffset { prefix, offset } => self.do_list(st, 1, *prefix, *offset).await,
            Op::ListDelim { prefix } => self.do_list(st, 2, *prefix, 0).await,
            Op::Delete { k } => self.do_delete(st, *k).await,
            Op::DeleteStream { ks } => self.do_delete_stream(st, ks).await,
            Op::Copy { from, to, create } => self.do_copy(st, *from, *to, *create, false).await,
            Op::Rename { from, to, create } => self.do_copy(st, *from, *to, *create, true).await,
            Op::Aba { k, a, b } => self.do_aba(st, *k, a, b).await,
            Op::ColdSwap { chunk, probe } => self.do_cold_swap(st, rng, *chunk, *probe).await,
        }
    }

    async fn run(&mut self, rng: &mut Rng, st: &mut Stats, steps: usize) {
        for step in 0..steps {
            let op = self.gen_op(rng, step);
            self.history.push(format!("{op:?}"));
            self.apply(st, rng, &op).await;
            if self.failed {
                return;
            }
            self.audit(st, false, "after call").await;
            if self.failed {
                return;
            }
            st.eval();
        }
        // leftovers: unfinished uploads are dropped, then everything is read back on both sides
        self.uploads.clear();
        self.history.push("final read-back".into());
        self.audit(st, true, "end of sequence").await;
        if self.failed {
            return;
        }
        for k in 0..KEYS.len() {
            self.do_get(st, k, &None, &Cond::default(), false).await;
            if self.failed {
                return;
            }
        }
        self.do_list(st, 0, 0, 0).await;
    }
}

fn seq_case(case: u64, rng: &mut Rng, st: &mut Stats, steps: usize) {
    let cfg = match rng.weighted(&[28, 14, 22, 22, 14]) {
        0 => Cfg::Meta,
        1 => Cfg::Enc(1),
        2 => Cfg::Enc(7),
        3 => Cfg::Enc(16),
        _ => Cfg::Enc(65536),
    };
    st.count(&format!("cfg:{}", cfg.tag()));
    let mut w = World::new(cfg);
    if let Err(msg) = guard_target_panics(|| vcore::run::block_on(w.run(rng, st, steps))) {
        w.viol(st, "panic_in_wrapper_call", json!({"panic": msg}));
    }
    if !w.failed && w.kinds.len() >= 8 && w.shapes.iter().any(|s| s.starts_with("put_opts|Update")) {
        st.distinct(vcore::fnv_str(&format!("{}|{}", cfg.tag(), w.shapes.join(";"))));
    }
    st.sample(|| json!({"monitor": "differential", "case": case, "cfg": cfg.tag(),
        "calls": w.history.iter().take(14).collect::<Vec<_>>()}));
}

// ---------------------------------------------------------------------------------------------
// concurrent callers on one key: controlled interleavings + linearizability

#[derive(Clone, Copy, Debug, PartialEq, Eq, Hash)]
enum COp {
    Put,
    Create,
    /// Update holding the token of the initial commit
    UpdT0,
    /// copy K2 -> K (overwrite)
    CopyIn,
    CopyInCreate,
    Delete,
    Get,
    Head,
    /// multipart upload of two parts + complete
    Mp,
    /// conditional reads holding the token of the initial commit: the condition has to be
    /// evaluated against the commit that is actually served, also when the read is overtaken
    GetIfMatchT0,
    HeadIfMatchT0,
    GetIfNoneMatchT0,
    /// ranged read with an if_match list that contains the initial token
    RangeIfMatchT0,
}

struct Scenario {
    name: &'static str,
    ops: &'static [COp],
    init_present: bool,
}

const SCENARIOS: &[Scenario] = &[
    Scenario { name: "put/put", ops: &[COp::Put, COp::Put], init_present: true },
    Scenario { name: "put/put(absent)", ops: &[COp::Put, COp::Put], init_present: false },
    Scenario { name: "put/update_old_token", ops: &[COp::Put, COp::UpdT0], init_present: true },
    Scenario { name: "update/update_same_token", ops: &[COp::UpdT0, COp::UpdT0], init_present: true },
    Scenario { name: "copy/put", ops: &[COp::CopyIn, COp::Put], init_present: true },
    Scenario { name: "delete/put", ops: &[COp::Delete, COp::Put], init_present: true },
    Scenario { name: "get_during_put", ops: &[COp::Get, COp::Put], init_present: true },
    Scenario { name: "head_during_put", ops: &[COp::Head, COp::Put], init_present: true },
    Scenario { name: "get_during_update", ops: &[COp::Get, COp::UpdT0], init_present: true },
    Scenario { name: "create/create", ops: &[COp::Create, COp::Create], init_present: false },
    Scenario { name: "create/copy_create", ops: &[COp::Create, COp::CopyInCreate], init_present: false },
    Scenario { name: "delete/update", ops: &[COp::Delete, COp::UpdT0], init_present: true },
    Scenario { name: "multipart/put", ops: &[COp::Mp, COp::Put], init_present: true },
    Scenario { name: "multipart/update", ops: &[COp::Mp, COp::UpdT0], init_present: true },
    Scenario { name: "get/delete", ops: &[COp::Get, COp::Delete], init_present: true },
    Scenario { name: "copy/update", ops: &[COp::CopyIn, COp::UpdT0], init_present: true },
    Scenario { name: "update/update/get", ops: &[COp::UpdT0, COp::UpdT0, COp::Get], init_present: true },
    Scenario { name: "update/update/update", ops: &[COp::UpdT0, COp::UpdT0, COp::UpdT0], init_present: true },
    Scenario { name: "get/put/put", ops: &[COp::Get, COp::Put, COp::Put], init_present: true },
    Scenario { name: "delete/put/get", ops: &[COp::Delete, COp::Put, COp::Get], init_present: true },
    Scenario { name: "copy/update/put", ops: &[COp::CopyIn, COp::UpdT0, COp::Put], init_present: true },
    Scenario { name: "create/create/head", ops: &[COp::Create, COp::Create, COp::Head], init_present: false },
    Scenario { name: "get_if_match/put", ops: &[COp::GetIfMatchT0, COp::Put], init_present: true },
    Scenario { name: "get_if_match/put/put", ops: &[COp::GetIfMatchT0, COp::Put, COp::Put], init_present: true },
    Scenario { name: "head_if_match/put", ops: &[COp::HeadIfMatchT0, COp::Put], init_present: true },
    Scenario { name: "range_if_match/put", ops: &[COp::RangeIfMatchT0, COp::Put], init_present: true },
    Scenario { name: "get_if_none_match/put", ops: &[COp::GetIfNoneMatchT0, COp::Put], init_present: true },
    Scenario { name: "get_if_none_match/put/put", ops: &[COp::GetIfNoneMatchT0, COp::Put, COp::Put], init_present: true },
    Scenario { name: "get_if_match/copy", ops: &[COp::GetIfMatchT0, COp::CopyIn], init_present: true },
    Scenario { name: "get_if_match/multipart", ops: &[COp::GetIfMatchT0, COp::Mp], init_present: true },
    Scenario { name: "get_if_match/delete/put", ops: &[COp::GetIfMatchT0, COp::Delete, COp::Put], init_present: true },
];

const CONC_CFGS: [Cfg; 3] = [Cfg::Meta, Cfg::Enc(4), Cfg::Enc(16)];
const CK: &str = "d/e";
const CK2: &str = "d/f";

#[derive(Clone, Debug, PartialEq)]
enum Val {
    Init,
    K2,
    Op(usize),
}

fn cval(v: &Val) -> Bytes {
    match v {
        Val::Init => pattern(9, 6),
        Val::K2 => pattern(8, 7),
        Val::Op(i) => pattern(*i as u8, [5, 9, 13][*i % 3]),
    }
}

#[derive(Clone, Debug)]
#[allow(dead_code)] // the error text is only shown in violation details
enum CRes {
    Wrote(Option<String>),
    Done,
    Read { bytes: Vec<u8>, size: u64, tok: Option<String> },
    Meta { size: u64, tok: Option<String> },
    Err(EK, String),
}

async fn run_cop(w: Arc<dyn ObjectStore>, op: COp, i: usize, t0: Option<String>) -> CRes {
    let k = Path::from(CK);
    let e = |e: Error| CRes::Err(ek(&e), e.to_string());
    let put = |mode: PutMode| {
        let w = w.clone();
        let k = k.clone();
        async move {
            let opts = PutOptions { mode, ..Default::default() };
            w.put_opts(&k, PutPayload::from_bytes(cval(&Val::Op(i))), opts).await
        }
    };
    match op {
        COp::Put => put(PutMode::Overwrite).await.map(|r| CRes::Wrote(r.e_tag)).unwrap_or_else(e),
        COp::Create => put(PutMode::Create).await.map(|r| CRes::Wrote(r.e_tag)).unwrap_or_else(e),
        COp::UpdT0 => {
            let v = UpdateVersion { e_tag: Some(t0.unwrap_or_else(|| "nope".into())), version: None };
            put(PutMode::Update(v)).await.map(|r| CRes::Wrote(r.e_tag)).unwrap_or_else(e)
        }
        COp::CopyIn => w.copy(&Path::from(CK2), &k).await.map(|_| CRes::Done).unwrap_or_else(e),
        COp::CopyInCreate => w.copy_if_not_exists(&Path::from(CK2), &k).await.map(|_| CRes::Done).unwrap_or_else(e),
        COp::Delete => w.delete(&k).await.map(|_| CRes::Done).unwrap_or_else(e),
        COp::Get => match w.get(&k).await {
            Err(x) => e(x),
            Ok(res) => {
                let (size, tok) = (res.meta.size, res.meta.e_tag.clone());
                match res.bytes().await {
                    Ok(b) => CRes::Read { bytes: b.to_vec(), size, tok },
                    Err(x) => CRes::Err(EK::Other, format!("stream: {x}")),
                }
            }
        },
        COp::Head => w.head(&k).await.map(|m| CRes::Meta { size: m.size, tok: m.e_tag }).unwrap_or_else(e),
        COp::GetIfMatchT0 | COp::GetIfNoneMatchT0 | COp::HeadIfMatchT0 | COp::RangeIfMatchT0 => {
            let t = t0.unwrap_or_else(|| "nope".into());
            let mut o = GetOptions::default();
            match op {
                COp::GetIfNoneMatchT0 => o.if_none_match = Some(t),
                COp::RangeIfMatchT0 => {
                    o.if_match = Some(format!("\"zzz\", {t}"));
                    o.range = Some(object_store::GetRange::Bounded(1..4));
                }
                _ => o.if_match = Some(t),
            }
            if op == COp::HeadIfMatchT0 {
                o.head = true;
            }
            match w.get_opts(&k, o).await {
                Err(x) => e(x),
                Ok(res) => {
                    let (size, tok) = (res.meta.size, res.meta.e_tag.clone());
                    if op == COp::HeadIfMatchT0 {
                        return CRes::Meta { size, tok };
                    }
                    match res.bytes().await {
                        Ok(b) => CRes::Read { bytes: b.to_vec(), size, tok },
                        Err(x) => CRes::Err(EK::Other, format!("stream: {x}")),
                    }
                }
            }
        }
        COp::Mp => {
            let mut up = match w.put_multipart(&k).await {
                Ok(u) => u,
                Err(x) => return e(x),
            };
            let data = cval(&Val::Op(i));
            let cut = data.len() / 2;
            for part in [data.slice(..cut), data.slice(cut..)] {
                if let Err(x) = up.put_part(PutPayload::from_bytes(part)).await {
                    return e(x);
                }
            }
            up.complete().await.map(|r| CRes::Wrote(r.e_tag)).unwrap_or_else(e)
        }
    }
}

/// model state of the key: which write produced the current value, and its token when known
type MS = Option<(Val, Option<String>)>;

fn read_matches(s: &MS, bytes: Option<&[u8]>, size: u64, tok: &Option<String>) -> bool {
    match s {
        None => false,
        Some((v, t)) => {
            let exp = cval(v);
            bytes.map(|b| b == &exp[..]).unwrap_or(true)
                && size == exp.len() as u64
                && (t.is_none() || t == tok)
        }
    }
}

/// sequential specification: next state when `op` with the observed result is legal in `s`
fn lin_apply(s: &MS, op: COp, i: usize, res: &CRes, t0: &Option<String>) -> Option<MS> {
    let wrote = |res: &CRes| match res {
        CRes::Wrote(t) => Some(Some((Val::Op(i), t.clone()))),
        _ => None,
    };
    let failed = |res: &CRes, k: EK| matches!(res, CRes::Err(e, _) if *e == k);
    match op {
        COp::Put | COp::Mp => wrote(res),
        COp::Create => {
            if s.is_none() { wrote(res) } else { failed(res, EK::AlreadyExists).then(|| s.clone()) }
        }
        COp::UpdT0 => {
            let holds = matches!(s, Some((Val::Init, _))) && t0.is_some();
            if holds { wrote(res) } else { failed(res, EK::Precondition).then(|| s.clone()) }
        }
        COp::CopyIn => matches!(res, CRes::Done).then(|| Some((Val::K2, None))),
        COp::CopyInCreate => {
            if s.is_none() {
                matches!(res, CRes::Done).then(|| Some((Val::K2, None)))
            } else {
                failed(res, EK::AlreadyExists).then(|| s.clone())
            }
        }
        COp::Delete => {
            if s.is_some() { matches!(res, CRes::Done).then_some(None) } else { failed(res, EK::NotFound).then_some(None) }
        }
        COp::Get => match res {
            CRes::Read { bytes, size, tok } => read_matches(s, Some(bytes), *size, tok).then(|| s.clone()),
            r => (s.is_none() && failed(r, EK::NotFound)).then(|| s.clone()),
        },
        COp::Head => match res {
            CRes::Meta { size, tok } => read_matches(s, None, *size, tok).then(|| s.clone()),
            r => (s.is_none() && failed(r, EK::NotFound)).then(|| s.clone()),
        },
        // the condition is judged against the state the read is linearized at: served only while
        // the key still holds the initial commit, refused (Precondition) once it holds another one
        COp::GetIfMatchT0 | COp::HeadIfMatchT0 | COp::RangeIfMatchT0 => {
            let holds = matches!(s, Some((Val::Init, _))) && t0.is_some();
            match res {
                CRes::Read { bytes, size, tok } if op == COp::GetIfMatchT0 => (holds && read_matches(s, Some(bytes), *size, tok)).then(|| s.clone()),
                CRes::Read { bytes, size, tok } if op == COp::RangeIfMatchT0 => {
                    let full = cval(&Val::Init);
                    (holds && *size == full.len() as u64 && tok == t0 && bytes[..] == full[1..4]).then(|| s.clone())
                }
                CRes::Meta { size, tok } if op == COp::HeadIfMatchT0 => (holds && read_matches(s, None, *size, tok)).then(|| s.clone()),
                r if s.is_none() => failed(r, EK::NotFound).then(|| s.clone()),
                r => (!holds && failed(r, EK::Precondition)).then(|| s.clone()),
            }
        }
        COp::GetIfNoneMatchT0 => {
            let is_init = matches!(s, Some((Val::Init, _))) && t0.is_some();
            match res {
                CRes::Read { bytes, size, tok } => (!is_init && read_matches(s, Some(bytes), *size, tok)).then(|| s.clone()),
                r if s.is_none() => failed(r, EK::NotFound).then(|| s.clone()),
                r => (is_init && failed(r, EK::NotModified)).then(|| s.clone()),
            }
        }
    }
}

fn final_matches(s: &MS, fin: &CRes) -> bool {
    match fin {
        CRes::Read { bytes, size, tok } => read_matches(s, Some(bytes), *size, tok),
        CRes::Err(EK::NotFound, _) => s.is_none(),
        _ => false,
    }
}

/// Is there an order of the (mutually concurrent) calls that explains every result and the
/// final state? `skip` marks calls that are left out of the explanation.
fn linearizable(init: &MS, ops: &[COp], res: &[CRes], skip: &[bool], t0: &Option<String>, fin: &CRes) -> bool {
    fn rec(s: &MS, used: u32, ops: &[COp], res: &[CRes], skip: &[bool], t0: &Option<String>, fin: &CRes) -> bool {
        if (0..ops.len()).all(|i| used & (1 << i) != 0 || skip[i]) {
            return final_matches(s, fin);
        }
        for i in 0..ops.len() {
            if used & (1 << i) != 0 || skip[i] {
                continue;
            }
            if let Some(n) = lin_apply(s, ops[i], i, &res[i], t0) {
                if rec(&n, used | (1 << i), ops, res, skip, t0, fin) {
                    return true;
                }
            }
        }
        false
    }
    rec(init, 0, ops, res, skip, t0, fin)
}

/// Thin layer between the wrapper and the gated RecStore: yields once more AFTER each backend
/// call returned, so that "the answer of a backend read is in hand but not yet acted upon" is a
/// scheduling point too (RecStore's gate only yields before a call).
#[derive(Clone, Debug)]
struct PostYield {
    inner: RecStore,
    on: bool,
}

impl std::fmt::Display for PostYield {
    fn fmt(&self, f: &mut std::fmt::Formatter<'_>) -> std::fmt::Result {
        write!(f, "PostYield({})", self.inner)
    }
}

impl PostYield {
    async fn after(&self) {
        if self.on {
            vcore::recstore::yield_once().await;
        }
    }
}

#[async_trait::async_trait]
impl ObjectStore for PostYield {
    async fn put_opts(&self, location: &Path, payload: PutPayload, opts: PutOptions) -> object_store::Result<object_store::PutResult> {
        let r = self.inner.put_opts(location, payload, opts).await;
        self.after().await;
        r
    }
    async fn put_multipart_opts(&self, location: &Path, opts: PutMultipartOptions) -> object_store::Result<Box<dyn MultipartUpload>> {
        self.inner.put_multipart_opts(location, opts).await
    }
    async fn get_opts(&self, location: &Path, options: GetOptions) -> object_store::Result<object_store::GetResult> {
        let r = self.inner.get_opts(location, options).await;
        self.after().await;
        r
    }
    async fn get_ranges(&self, location: &Path, ranges: &[Range<u64>]) -> object_store::Result<Vec<Bytes>> {
        let r = self.inner.get_ranges(location, ranges).await;
        self.after().await;
        r
    }
    fn delete_stream(
        &self,
        locations: futures::stream::BoxStream<'static, object_store::Result<Path>>,
    ) -> futures::stream::BoxStream<'static, object_store::Result<Path>> {
        self.inner.delete_stream(locations)
    }
    fn list(&self, prefix: Option<&Path>) -> futures::stream::BoxStream<'static, object_store::Result<ObjectMeta>> {
        self.inner.list(prefix)
    }
    fn list_with_offset(&self, prefix: Option<&Path>, offset: &Path) -> futures::stream::BoxStream<'static, object_store::Result<ObjectMeta>> {
        self.inner.list_with_offset(prefix, offset)
    }
    async fn list_with_delimiter(&self, prefix: Option<&Path>) -> object_store::Result<object_store::ListResult> {
        self.inner.list_with_delimiter(prefix).await
    }
    async fn copy_opts(&self, from: &Path, to: &Path, options: CopyOptions) -> object_store::Result<()> {
        let r = self.inner.copy_opts(from, to, options).await;
        self.after().await;
        r
    }
    async fn rename_opts(&self, from: &Path, to: &Path, options: RenameOptions) -> object_store::Result<()> {
        let r = self.inner.rename_opts(from, to, options).await;
        self.after().await;
        r
    }
}

struct SchedOut {
    results: Vec<CRes>,
    trace: Vec<usize>,
    stuck: Option<String>,
    t0: Option<String>,
    fin_get: CRes,
    fin_head: CRes,
    fin_listed: Option<(u64, Option<String>)>,
    list_err: Option<String>,
}

fn run_schedule(ops: &[COp], init_present: bool, cfg: Cfg, warm: bool, post: bool, chooser: &mut dyn Chooser) -> SchedOut {
    vcore::run::block_on(async {
        let rec = RecStore::new();
        rec.set_record_reads(false);
        let below = PostYield { inner: rec.clone(), on: post };
        let mut w = build(cfg, &below);
        let k = Path::from(CK);
        w.put(&Path::from(CK2), PutPayload::from_bytes(cval(&Val::K2))).await.expect("setup put k2");
        let t0 = if init_present {
            w.put(&k, PutPayload::from_bytes(cval(&Val::Init))).await.expect("setup put k").e_tag
        } else {
            None
        };
        if !warm {
            w = build(cfg, &below); // cold metadata cache
        }
        rec.set_gate(true);
        let mut ex: ManualExec<'static, CRes> = ManualExec::new();
        for (i, op) in ops.iter().enumerate() {
            ex.spawn(run_cop(w.clone(), *op, i, t0.clone()));
        }
        let r = ex.run(chooser, 5000, |_, _, _| {});
        rec.set_gate(false);
        let stuck = r.err().map(|s| format!("{s:?}"));
        let results: Vec<CRes> = (0..ops.len())
            .map(|i| ex.take_result(i).unwrap_or(CRes::Err(EK::Other, "did not finish".into())))
            .collect();
        let trace = ex.trace.clone();
        drop(ex);
        // listing first: it answers from the metadata cache alone, whereas a get would repair a
        // lagging cache entry on the way (payload gone -> re-resolve)
        let (fin_listed, list_err) = match w.list(None).try_collect::<Vec<_>>().await {
            Ok(ms) => (ms.iter().find(|m| m.location == k).map(|m| (m.size, m.e_tag.clone())), None),
            Err(e) => (None, Some(e.to_string())),
        };
        let fin_head = run_cop(w.clone(), COp::Head, 0, None).await;
        let fin_get = run_cop(w.clone(), COp::Get, 0, None).await;
        SchedOut { results, trace, stuck, t0, fin_get, fin_head, fin_listed, list_err }
    })
}

struct CCase<'a> {
    name: &'a str,
    ops: &'a [COp],
    init_present: bool,
    cfg: Cfg,
    warm: bool,
    /// also yield after every backend call
    post: bool,
}

/// Returns true when the schedule produced a violation that should stop the exploration of
/// this case.
fn judge_schedule(out: &SchedOut, cc: &CCase, mode: &str, st: &mut Stats) -> bool {
    let CCase { name, ops, init_present, cfg, warm, post } = *cc;
    let ctx = || {
        json!({"scenario": name, "cfg": cfg.tag(), "warm_cache": warm, "yield_after_backend_calls": post, "mode": mode, "initially_present": init_present,
            "calls": ops.iter().map(|o| format!("{o:?}")).collect::<Vec<_>>(),
            "results": out.results.iter().map(|r| format!("{r:?}")).collect::<Vec<_>>(),
            "poll_order": out.trace, "final_get": format!("{:?}", out.fin_get),
            "final_head": format!("{:?}", out.fin_head), "final_list_entry": format!("{:?}", out.fin_listed)})
    };
    let sig = |s: &str| format!("C07/{}/concurrent/{s}", cfg.family());
    if let Some(s) = &out.stuck {
        st.inconclusive(format!("C07 concurrent schedule did not run to completion ({s}) in scenario {name}"));
        return true;
    }
    if mode != "S-mt" {
        st.count("interleavings_explored");
        st.count(&format!("conc:{name}"));
    }
    // final agreement of get / head / list
    st.count("oracle_conc_final_agreement");
    let g = match &out.fin_get {
        CRes::Read { size, tok, bytes } => {
            if *size != bytes.len() as u64 {
                st.violation(sig("final_get_size_vs_bytes"), ctx());
            }
            Some((*size, tok.clone()))
        }
        CRes::Err(EK::NotFound, _) => None,
        _ => {
            st.violation(sig("final_get_failed"), ctx());
            return true;
        }
    };
    let h = match &out.fin_head {
        CRes::Meta { size, tok } => Some((*size, tok.clone())),
        _ => None,
    };
    if out.list_err.is_some() || g != h || g != out.fin_listed {
        st.violation(sig("final_get_head_list_disagree"), ctx());
        return true;
    }
    let init: MS = if init_present { Some((Val::Init, out.t0.clone())) } else { None };
    let none = vec![false; ops.len()];
    st.count("oracle_conc_linearizability");
    for (o, r) in ops.iter().zip(&out.results) {
        if matches!(o, COp::Get | COp::Head) {
            st.count("conc_reads_checked");
            if matches!(r, CRes::Read { .. } | CRes::Meta { .. }) {
                st.count("conc_reads_returned_a_commit");
            }
        }
    }
    if !linearizable(&init, ops, &out.results, &none, &out.t0, &out.fin_get) {
        // a read that reports NotFound although the key existed throughout gets its own signature
        let never_absent = init_present && !ops.contains(&COp::Delete);
        let skip: Vec<bool> = ops
            .iter()
            .zip(&out.results)
            .map(|(o, r)| matches!(o, COp::Get | COp::Head) && matches!(r, CRes::Err(EK::NotFound, _)))
            .collect();
        if never_absent && skip.iter().any(|s| *s) && linearizable(&init, ops, &out.results, &skip, &out.t0, &out.fin_get) {
            // candidate defect (see report): recorded once per store family and run so that the
            // exploration of the other interleavings goes on; every occurrence is counted
            st.count("conc_read_not_found_while_key_is_overwritten");
            static SEEN: [std::sync::atomic::AtomicBool; 2] =
                [std::sync::atomic::AtomicBool::new(false), std::sync::atomic::AtomicBool::new(false)];
            let slot = &SEEN[(cfg == Cfg::Meta) as usize];
            if !slot.swap(true, std::sync::atomic::Ordering::SeqCst) {
                st.violation(sig("read_not_found_while_key_is_overwritten"), ctx());
            }
            return false;
        }
        st.violation(sig("not_linearizable"), ctx());
        return true;
    }
    let n_upd = ops.iter().filter(|o| **o == COp::UpdT0).count();
    if n_upd >= 2 && init_present {
        let winners = ops.iter().zip(&out.results).filter(|(o, r)| **o == COp::UpdT0 && matches!(r, CRes::Wrote(_))).count();
        let other_writers = ops.iter().any(|o| !matches!(o, COp::UpdT0 | COp::Get | COp::Head));
        st.count("races_updates_same_token");
        if winners == 1 {
            st.count("races_updates_same_token_exactly_one_winner");
        } else if winners > 1 || !other_writers {
            st.violation(sig("updates_same_token_winners"), ctx());
            return true;
        }
    }
    false
}

fn conc_panic(cc: &CCase, msg: &str, choices: &[usize], st: &mut Stats) {
    st.violation(
        format!("C07/{}/concurrent/panic_in_wrapper_call", cc.cfg.family()),
        json!({"panic": msg, "scenario": cc.name, "calls": cc.ops.iter().map(|o| format!("{o:?}")).collect::<Vec<_>>(),
            "cfg": cc.cfg.tag(), "warm_cache": cc.warm, "yield_after_backend_calls": cc.post, "dfs_choices": choices}),
    );
}

fn explore(cc: &CCase, case: u64, rng: &mut Rng, st: &mut Stats, dfs_budget: u64, rand_budget: u64) {
    let CCase { name, ops, init_present, cfg, warm, post } = *cc;
    let salt = case.wrapping_mul(0x9e3779b97f4a7c15);
    let mut dfs = DfsChooser::new();
    let mut runs = 0u64;
    let mut exhausted = false;
    let mut stop = false;
    loop {
        dfs.begin_run();
        let out = match guard_target_panics(|| run_schedule(ops, init_present, cfg, warm, post, &mut dfs)) {
            Ok(o) => o,
            Err(msg) => {
                conc_panic(cc, &msg, &dfs.current(), st);
                break;
            }
        };
        runs += 1;
        st.eval();
        st.set("distinct_interleavings", vcore::hash_debug(&out.trace) ^ salt);
        st.max("max_schedule_len", out.trace.len() as u64);
        if judge_schedule(&out, cc, "S-enum/DFS", st) {
            stop = true;
            break;
        }
        if !dfs.next_run() {
            exhausted = true;
            break;
        }
        if runs >= dfs_budget {
            break;
        }
    }
    st.count(if exhausted { "schedule_spaces_exhausted" } else { "schedule_spaces_truncated" });
    if !exhausted && !stop {
        let mut rc = RandChooser(rng.fork());
        for _ in 0..rand_budget {
            let out = match guard_target_panics(|| run_schedule(ops, init_present, cfg, warm, post, &mut rc)) {
                Ok(o) => o,
                Err(msg) => {
                    conc_panic(cc, &msg, &[], st);
                    break;
                }
            };
            st.eval();
            st.count("random_schedules");
            st.set("distinct_interleavings", vcore::hash_debug(&out.trace) ^ salt);
            if judge_schedule(&out, cc, "S-rand", st) {
                break;
            }
        }
    }
    st.distinct(vcore::fnv_str(&format!("{name}|{ops:?}|{init_present}|{}|{warm}|{post}", cfg.tag())));
    st.sample(|| json!({"monitor": "concurrent_callers", "scenario": name, "cfg": cfg.tag(), "warm_cache": warm, "yield_after_backend_calls": post,
        "schedules": runs, "exhaustive": exhausted}));
}


/// S-mt: the same small call sets on a multi-thread runtime (real parallelism, no gate), judged
/// by the same linearizability check.
fn run_mt(rt: &tokio::runtime::Runtime, ops: &[COp], init_present: bool, cfg: Cfg, warm: bool) -> SchedOut {
    rt.block_on(async {
        let rec = RecStore::new();
        rec.set_record_reads(false);
        let mut w = build(cfg, &rec);
        let k = Path::from(CK);
        w.put(&Path::from(CK2), PutPayload::from_bytes(cval(&Val::K2))).await.expect("setup put k2");
        let t0 = if init_present {
            w.put(&k, PutPayload::from_bytes(cval(&Val::Init))).await.expect("setup put k").e_tag
        } else {
            None
        };
        if !warm {
            w = build(cfg, &rec);
        }
        let barrier = Arc::new(tokio::sync::Barrier::new(ops.len()));
        let handles: Vec<_> = ops
            .iter()
            .enumerate()
            .map(|(i, op)| {
                let (w, t0, b, op) = (w.clone(), t0.clone(), barrier.clone(), *op);
                tokio::spawn(async move {
                    b.wait().await;
                    run_cop(w, op, i, t0).await
                })
            })
            .collect();
        let mut results = vec![];
        let mut stuck = None;
        for h in handles {
            match h.await {
                Ok(r) => results.push(r),
                Err(e) => {
                    stuck = Some(format!("task join error: {e}"));
                    results.push(CRes::Err(EK::Other, "join error".into()));
                }
            }
        }
        let (fin_listed, list_err) = match w.list(None).try_collect::<Vec<_>>().await {
            Ok(ms) => (ms.iter().find(|m| m.location == k).map(|m| (m.size, m.e_tag.clone())), None),
            Err(e) => (None, Some(e.to_string())),
        };
        let fin_head = run_cop(w.clone(), COp::Head, 0, None).await;
        let fin_get = run_cop(w.clone(), COp::Get, 0, None).await;
        SchedOut { results, trace: vec![], stuck, t0, fin_get, fin_head, fin_listed, list_err }
    })
}

fn mt_case(case: u64, rng: &mut Rng, st: &mut Stats, runs: u64) {
    const ALL: [COp; 9] = [COp::Put, COp::Create, COp::UpdT0, COp::CopyIn, COp::CopyInCreate, COp::Delete, COp::Get, COp::Head, COp::Mp];
    let rt = tokio::runtime::Builder::new_multi_thread().worker_threads(3).build().expect("multi-thread runtime");
    let n = SCENARIOS.len() as u64;
    let (name, ops, init_present): (&str, Vec<COp>, bool) = if case % 2 == 0 {
        let sc = &SCENARIOS[((case / 2) % n) as usize];
        (sc.name, sc.ops.to_vec(), sc.init_present)
    } else {
        ("random", (0..3).map(|_| *rng.pick(&ALL)).collect(), rng.chance(3, 4))
    };
    let cc = CCase { name, ops: &ops, init_present, cfg: *rng.pick(&CONC_CFGS), warm: rng.bool(), post: false };
    for _ in 0..runs {
        let out = match guard_target_panics(|| run_mt(&rt, cc.ops, cc.init_present, cc.cfg, cc.warm)) {
            Ok(o) => o,
            Err(msg) => {
                conc_panic(&cc, &msg, &[], st);
                break;
            }
        };
        st.eval();
        st.count("mt_runs");
        if judge_schedule(&out, &cc, "S-mt", st) {
            break;
        }
    }
    st.distinct(vcore::fnv_str(&format!("mt|{name}|{ops:?}|{init_present}|{}|{}", cc.cfg.tag(), cc.warm)));
}

fn conc_case(case: u64, rng: &mut Rng, st: &mut Stats, dfs_budget: u64, rand_budget: u64) {
    let n = SCENARIOS.len() as u64;
    let sc = &SCENARIOS[(case % n) as usize];
    let cfg = CONC_CFGS[((case / n) % 3) as usize];
    let warm = (case / (3 * n)) % 2 == 0;
    let post = (case / (6 * n)) % 2 == 1;
    let cc = CCase { name: sc.name, ops: sc.ops, init_present: sc.init_present, cfg, warm, post };
    explore(&cc, case, rng, st, dfs_budget, rand_budget);
}

fn conc_rand_case(case: u64, rng: &mut Rng, st: &mut Stats, dfs_budget: u64, rand_budget: u64) {
    const ALL: [COp; 9] = [COp::Put, COp::Create, COp::UpdT0, COp::CopyIn, COp::CopyInCreate, COp::Delete, COp::Get, COp::Head, COp::Mp];
    let n = 2 + rng.usize(2);
    let ops: Vec<COp> = (0..n).map(|_| *rng.pick(&ALL)).collect();
    let init_present = rng.chance(3, 4);
    let cfg = *rng.pick(&CONC_CFGS);
    let warm = rng.bool();
    let cc = CCase { name: "random", ops: &ops, init_present, cfg, warm, post: rng.bool() };
    explore(&cc, case ^ 0x5555, rng, st, dfs_budget, rand_budget);
}

// ---------------------------------------------------------------------------------------------

fn main() {
    // tasks are polled by hand in this binary: see vcore::run::use_plain_block_on
    vcore::run::use_plain_block_on();
    let mut run = Run::from_args(
        "C07",
        "exploration",
        "seeded call sequences (40 generated calls + final read-back) over 6 nested keys on MetaStore / EncryptedStore(chunk 1,7,16,64KiB) vs InMemory; \
         a sequence is non-trivial when it uses >= 8 call kinds and >= 1 conditional update (distinct by the \
         sequence of call shapes = kind, modes, size classes, outcome, chunk size); concurrent cases are distinct \
         by (calls, initial state, store, cache warmth), interleavings by poll order",
    );
    install_target_panic_hook();
    run.assume("reference semantics = object_store 0.14 InMemory; token values opaque (mapped to 'commit #n of key k'), versions ignored");
    run.assume("documented deviations compared as documented, not against InMemory: delete of a missing key is NotFound; \
        a self-rename leaves the object untouched; Update without e_tag or with any version is Precondition; \
        get_ranges rejects a range ending past the logical size; head carries no body; GetOptions::version is not generated");
    run.assume("get_ranges with an empty range list on a missing key is not compared (Ok([]) in object_store's default implementation, NotFound in InMemory)");
    run.assume("listing order is not compared (counted); invalid ranges: both sides must fail, variant free");
    run.assume("writes through a second, lagging instance are strictly sequential (single-writer contract); its reads are not checked");
    run.assume("last_modified: wrapper-internal consistency only; date conditions are generated relative to each side's own timestamp; the system clock does not step backwards during a run");
    run.assume("concurrent calls are all mutually overlapping: any order is an admissible linearization; interleaving granularity = backend calls");
    let t = run.tier;
    if run.wants("seq") {
        run.parallel("seq", t.pick(6000, 200_000), 0.55, |c, rng, st| seq_case(c, rng, st, 40));
    }
    if run.wants("conc") {
        let n = (SCENARIOS.len() * 3 * 2 * 2) as u64;
        run.parallel("conc", n, 0.6, |c, rng, st| conc_case(c, rng, st, t.pick(250, 6000), t.pick(60, 1500)));
        run.parallel("conc_rand", t.pick(160, 3000), 0.9, |c, rng, st| {
            conc_rand_case(c, rng, st, t.pick(60, 1500), t.pick(20, 300))
        });
    }
    if run.wants("mt") {
        run.parallel("conc_mt", t.pick(64, 4000), 1.0, |c, rng, st| mt_case(c, rng, st, t.pick(40, 150)));
    }
    // evidence floors: every mechanism the property names must have been observed
    for k in [
        "call:put_opts", "call:put_multipart", "call:get_opts", "call:head", "call:get_ranges", "call:list",
        "call:list_with_offset", "call:list_with_delimiter", "call:delete", "call:delete_stream",
        "call:copy_opts", "call:rename_opts", "call:cold_swap", "call:aba",
    ] {
        run.floor(k, t.pick(100, 5000));
    }
    for k in [
        "put:Overwrite:ok", "put:Create:ok", "put:Create:AlreadyExists", "put:Update[current]:ok",
        "put:Update[current]:Precondition", "put:Update[stale]:Precondition", "put:Update[foreign]:Precondition",
        "put:Update[bogus]:Precondition", "put:Update[with_version]:Precondition", "put:Update[no_etag]:Precondition",
        "put:Update[current]:ok:via_lagging_instance", "put:Update[stale]:Precondition:via_lagging_instance",
        "mp:complete:ok", "mp:abort:ok", "mp:dropped_without_complete", "mp:part_straddles_chunk_boundary",
        "mp:deferred_past_other_calls",
        "copy_opts:Overwrite:ok", "copy_opts:Create:ok", "copy_opts:Create:AlreadyExists", "copy_opts:Overwrite:NotFound",
        "copy_opts:Overwrite:ok:self", "rename_opts:Overwrite:ok", "rename_opts:Create:ok",
        "rename_opts:Create:AlreadyExists", "rename_opts:Overwrite:NotFound", "rename_opts:Overwrite:ok:self",
        "delete:ok", "delete:NotFound", "delete_stream:missing_keys",
        "get:range:bounded", "get:range:bounded_empty", "get:range:bounded_inverted", "get:range:bounded_start_past_end",
        "get:range:bounded_end_past_end", "get:range:offset", "get:range:offset_past_end", "get:range:suffix",
        "get:range:suffix_zero", "get:range:suffix_larger_than_object",
        "get:tagspec:current", "get:tagspec:stale", "get:tagspec:foreign", "get:tagspec:star", "get:tagspec:wrong",
        "get:tagspec:list_hit", "get:tagspec:list_miss", "get:tagspec:padded",
        "get_opts:outcome:ok", "get_opts:outcome:NotFound", "get_opts:outcome:Precondition", "get_opts:outcome:NotModified",
        "get_opts:outcome:Other", "head:outcome:ok", "head:outcome:NotFound",
        "get_ranges:ok", "get_ranges:overlapping_or_repeated", "get_ranges:invalid_range", "get_ranges:crosses_chunk_boundary",
        "list_with_delimiter:with_common_prefixes", "list_with_offset:non_empty",
        "commits_identical_bytes_same_key", "commits_identical_bytes_other_key",
        "cold_swaps_with_changed_chunk_size", "cold_instance_first_access_is_bad_update",
    ] {
        run.floor(k, t.pick(20, 500));
    }
    run.floor("update_attempts_stale_or_foreign_token", t.pick(500, 20_000));
    run.floor("get:range_crosses_chunk_boundary", t.pick(500, 20_000));
    run.floor("get:date_condition", t.pick(500, 20_000));
    run.floor("get:date_condition_paired_with_etag_condition", t.pick(200, 8000));
    run.floor("cold_swaps", t.pick(500, 20_000));
    run.floor("aba_sequences", t.pick(100, 4000));
    run.floor("oracle_token_distinct", t.pick(10_000, 500_000));
    run.floor("oracle_triple_consistency", t.pick(100_000, 5_000_000));
    run.floor_set("call_shapes", t.pick(1500, 4000));
    run.floor("interleavings_explored", t.pick(5000, 200_000));
    run.floor_set("distinct_interleavings", t.pick(2000, 50_000));
    run.floor("races_updates_same_token_exactly_one_winner", t.pick(200, 5000));
    run.floor("conc_reads_returned_a_commit", t.pick(500, 10_000));
    run.floor("schedule_spaces_exhausted", t.pick(20, 100));
    run.floor("mt_runs", t.pick(1000, 100_000));
    run.finish();
}

//! Seeded PRNG (SplitMix64 seeding + xoshiro256**). No global state, no `rand`.

#[derive(Clone, Debug)]
pub struct Rng {
    s: [u64; 4],
}

fn splitmix(x: &mut u64) -> u64 {
    *x = x.wrapping_add(0x9e3779b97f4a7c15);
    let mut z = *x;
    z = (z ^ (z >> 30)).wrapping_mul(0xbf58476d1ce4e5b9);
    z = (z ^ (z >> 27)).wrapping_mul(0x94d049bb133111eb);
    z ^ (z >> 31)
}

impl Rng {
    pub fn new(seed: u64) -> Self {
        let mut x = seed;
        let s = [
            splitmix(&mut x),
            splitmix(&mut x),
            splitmix(&mut x),
            splitmix(&mut x),
        ];
        Rng { s }
    }

    /// Independent stream derived from this seed and a label.
    pub fn derive(seed: u64, label: u64) -> Self {
        let mut x = seed ^ label.wrapping_mul(0xd6e8feb86659fd93);
        let a = splitmix(&mut x);
        Rng::new(a ^ label.rotate_left(17))
    }

    pub fn fork(&mut self) -> Rng {
        Rng::new(self.next_u64())
    }

    pub fn next_u64(&mut self) -> u64 {
        let r = self.s[1].wrapping_mul(5).rotate_left(7).wrapping_mul(9);
        let t = self.s[1] << 17;
        self.s[2] ^= self.s[0];
        self.s[3] ^= self.s[1];
        self.s[1] ^= self.s[2];
        self.s[0] ^= self.s[3];
        self.s[2] ^= t;
        self.s[3] = self.s[3].rotate_left(45);
        r
    }

    /// Uniform in 0..n (n > 0).
    pub fn below(&mut self, n: u64) -> u64 {
        debug_assert!(n > 0);
        if n == 0 {
            return 0;
        }
        // multiply-shift, bias negligible for the sizes used here
        ((self.next_u64() as u128 * n as u128) >> 64) as u64
    }

    pub fn usize(&mut self, n: usize) -> usize {
        self.below(n as u64) as usize
    }

    /// Uniform in lo..=hi.
    pub fn range(&mut self, lo: u64, hi: u64) -> u64 {
        lo + self.below(hi - lo + 1)
    }

    pub fn irange(&mut self, lo: i64, hi: i64) -> i64 {
        lo.wrapping_add(self.below((hi - lo) as u64 + 1) as i64)
    }

    pub fn bool(&mut self) -> bool {
        self.next_u64() & 1 == 1
    }

    /// True with probability num/den.
    pub fn chance(&mut self, num: u64, den: u64) -> bool {
        self.below(den) < num
    }

    pub fn f64(&mut self) -> f64 {
        (self.next_u64() >> 11) as f64 / (1u64 << 53) as f64
    }

    pub fn f32(&mut self) -> f32 {
        self.f64() as f32
    }

    pub fn pick<'a, T>(&mut self, xs: &'a [T]) -> &'a T {
        &xs[self.usize(xs.len())]
    }

    pub fn shuffle<T>(&mut self, xs: &mut [T]) {
        for i in (1..xs.len()).rev() {
            let j = self.usize(i + 1);
            xs.swap(i, j);
        }
    }

    pub fn bytes(&mut self, n: usize) -> Vec<u8> {
        let mut v = Vec::with_capacity(n);
        while v.len() < n {
            let x = self.next_u64().to_le_bytes();
            let take = (n - v.len()).min(8);
            v.extend_from_slice(&x[..take]);
        }
        v
    }

    /// Weighted choice: returns index i with probability w[i]/sum(w).
    pub fn weighted(&mut self, w: &[u32]) -> usize {
        let total: u64 = w.iter().map(|x| *x as u64).sum();
        let mut r = self.below(total.max(1));
        for (i, x) in w.iter().enumerate() {
            if r < *x as u64 {
                return i;
            }
            r -= *x as u64;
        }
        w.len() - 1
    }
}

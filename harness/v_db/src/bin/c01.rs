//! C01 - Flushed documents survive any crash and recovery always converges.
//! Fault enumeration over recorded executions (DESIGN.md C01):
//!  L1  every prefix k of the landed-mutation log of a clean run is materialized (= power loss
//!      after the k-th backend mutation), recovered with the real connect/open path and judged;
//!  L2  the recovery itself is crashed after j of its own mutations, then recovered again;
//!  UO  the workload is re-executed with a single backend call failing before / after it landed
//!      (unknown outcome); the driver reopens like an application and the outcome is resolved by
//!      observation;
//!  for InMemory, MetaStore(.) and EncryptedStore(.) with the recorder below the wrapper.
//! Every recovered state also gets the full C02 index<->document audit.

use v_db::crash::case;
use vcore::Run;

fn main() {
    let mut run = Run::from_args(
        "C01",
        "fault_enumeration",
        "one evaluation = one injected fault point followed by a real recovery and the document+index audit: every \
         prefix of the landed-mutation log of each generated workload (L1), sampled/all crash points inside the \
         recovery (L2), single calls failing before/after landing (UO); a workload is non-trivial when it contains a \
         flush, an update and a remove; distinct by operation sequence",
    );
    run.assume("crash model: every backend mutation is atomic, the sequence can stop after any of them (the repository's own model); the recorder sits below MetaStore/EncryptedStore so their inner steps are crash points too");
    run.assume("the application reopens with the index configuration it was moving to; a crash inside the very first collection creation may be answered with the documented delete_collection + recreate");
    run.assume("collection extensions are not part of the durability statement: they are carried in the model only when acknowledged and are not asserted after a crash");
    let t = run.tier;
    v_db::crash::set_deadline_in(run.time_left().mul_f64(1.05));
    run.parallel("workloads", t.pick(96, 3000), 0.97, |c, rng, st| case(c, rng, st, t));
    run.floor("crash_points_l1", 1000);
    run.floor("crash_points_l2", 10);
    for b in ["Holes", "Kept", "Mixed"] {
        run.floor(&format!("allocation_bursts:{b}"), 1);
    }
    run.floor("workloads_starting_without_any_index", t.pick(3, 20));
    run.floor("unknown_outcome_faults_fired", 20);
    run.floor("fcc_recoveries_audited", 50);
    run.floor("fcc_continued_on_live_handle", 10);
    run.floor("fcc_watermark_write_targets", 4);
    run.floor("motif_mutation_extension_flush", 20);
    run.floor("convergence_checks", 50);
    run.floor("recovered_states_audited", 1000);
    for k in ["add", "update", "remove", "flush", "reopen"] {
        run.floor(&format!("crash_inflight:{k}"), 5);
    }
    for b in ["Plain", "Meta", "Enc"] {
        run.floor(&format!("workloads:{b}"), 2);
    }
    run.finish();
}

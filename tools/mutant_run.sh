#!/usr/bin/env bash
# Runs one check of the committed/working harness against a scratch worktree of /repo
# (never against /repo itself), so that mutation trials do not disturb anybody else's build.
# usage: tools/mutant_run.sh <repo-worktree-dir> <Cxx> [quick|thorough] [args...]
# The scratch harness copy (with its own target dir) lives in /tmp/vh-<basename of worktree>;
# remove it together with the worktree when done.
set -u
WT="$(readlink -f "$1")"; ID="$2"; shift 2
VSRC="${VERIF_SRC:-/verif}"
H="/tmp/vh-$(basename "$WT")"
mkdir -p "$H"
rsync -a --delete --exclude 'target*' "$VSRC/harness/" "$H/harness/"
sed -i "s#/repo/rs#$WT/rs#g" "$H/harness/Cargo.toml"
cp "$VSRC/check" "$H/check"; rsync -a "$VSRC/tools/" "$H/tools/"
cp "$VSRC/known_findings.json" "$H/" 2>/dev/null || true
cd "$H" && VERIF_ROOT="$H" ./check "$ID" "$@"

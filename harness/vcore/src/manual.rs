//! Manual executor: the explorer owns the futures of the concurrent operations and polls
//! them itself, so the interleaving is the sequence of "which task is polled next" choices.
//! With a `RecStore` in gate mode every poll advances a task up to (not including) its next
//! backend call, to a lock wait, or to completion. No runtime scheduling is involved, which
//! makes schedules enumerable (DFS) and replayable (`Vec<usize>`).

use std::future::Future;
use std::pin::Pin;
use std::sync::Arc;
use std::sync::atomic::{AtomicBool, AtomicU64, Ordering};
use std::task::{Context, Poll, Wake, Waker};

struct WakeFlag {
    woken: AtomicBool,
    wakes: AtomicU64,
}

impl Wake for WakeFlag {
    fn wake(self: Arc<Self>) {
        self.wake_by_ref();
    }
    fn wake_by_ref(self: &Arc<Self>) {
        self.woken.store(true, Ordering::SeqCst);
        self.wakes.fetch_add(1, Ordering::SeqCst);
    }
}

struct Task<'a, T> {
    fut: Option<Pin<Box<dyn Future<Output = T> + 'a>>>,
    flag: Arc<WakeFlag>,
    result: Option<T>,
    polls: u32,
    dropped: bool,
}

pub struct ManualExec<'a, T> {
    tasks: Vec<Task<'a, T>>,
    pub trace: Vec<usize>,
}

impl<'a, T> Default for ManualExec<'a, T> {
    fn default() -> Self {
        Self::new()
    }
}

impl<'a, T> ManualExec<'a, T> {
    pub fn new() -> Self {
        ManualExec {
            tasks: vec![],
            trace: vec![],
        }
    }

    pub fn spawn(&mut self, fut: impl Future<Output = T> + 'a) -> usize {
        // `unconstrained`: tokio's cooperative budget is per thread, so manually polled futures
        // would exhaust the budget of the enclosing `block_on` task; an exhausted budget makes
        // tokio resources return Pending with a wake that is deferred to the runtime's next
        // tick, which this executor would misread as a deadlock.
        self.tasks.push(Task {
            fut: Some(Box::pin(tokio::task::unconstrained(fut))),
            flag: Arc::new(WakeFlag {
                woken: AtomicBool::new(true),
                wakes: AtomicU64::new(0),
            }),
            result: None,
            polls: 0,
            dropped: false,
        });
        self.tasks.len() - 1
    }

    pub fn len(&self) -> usize {
        self.tasks.len()
    }
    pub fn is_empty(&self) -> bool {
        self.tasks.is_empty()
    }

    /// Finished (result available or taken) or cancelled.
    pub fn is_done(&self, i: usize) -> bool {
        self.tasks[i].fut.is_none()
    }
    pub fn all_done(&self) -> bool {
        self.tasks.iter().all(|t| t.fut.is_none())
    }
    pub fn polls(&self, i: usize) -> u32 {
        self.tasks[i].polls
    }
    pub fn was_dropped(&self, i: usize) -> bool {
        self.tasks[i].dropped
    }

    /// Tasks that are unfinished and whose waker fired since their last poll (or that were
    /// never polled): polling any other task cannot make progress.
    pub fn enabled(&self) -> Vec<usize> {
        self.tasks
            .iter()
            .enumerate()
            .filter(|(_, t)| t.fut.is_some() && t.flag.woken.load(Ordering::SeqCst))
            .map(|(i, _)| i)
            .collect()
    }

    pub fn unfinished(&self) -> Vec<usize> {
        self.tasks
            .iter()
            .enumerate()
            .filter(|(_, t)| t.fut.is_some())
            .map(|(i, _)| i)
            .collect()
    }

    /// Polls task `i` once. Returns true when it completed.
    pub fn poll(&mut self, i: usize) -> bool {
        let t = &mut self.tasks[i];
        let Some(fut) = t.fut.as_mut() else {
            return true;
        };
        t.flag.woken.store(false, Ordering::SeqCst);
        t.polls += 1;
        self.trace.push(i);
        let waker = Waker::from(t.flag.clone());
        let mut cx = Context::from_waker(&waker);
        let prev = crate::recstore::current_task();
        crate::recstore::set_current_task(i as u32 + 1);
        let mut r = fut.as_mut().poll(&mut cx);
        // A cooperative yield (`tokio::task::yield_now`) inside a runtime context hands its wake-up
        // to the runtime's scheduler, which never gets control while this executor polls by hand:
        // the task would look blocked for ever (false "deadlock" on the benign change C05-3, an
        // extra yield between two steps of a call). A task that returned Pending WITHOUT having
        // been woken is therefore polled again right away (up to 64 times) - spurious polls, which the Future
        // contract allows: a yield completes, a task really waiting for a lock or for another task
        // stays Pending. (A task parked at a RecStore gate wakes itself and is not polled again.)
        let mut spurious = 0;
        while r.is_pending() && !t.flag.woken.load(Ordering::SeqCst) && spurious < 64 {
            spurious += 1;
            r = fut.as_mut().poll(&mut cx);
        }
        crate::recstore::set_current_task(prev);
        match r {
            Poll::Ready(v) => {
                t.result = Some(v);
                t.fut = None;
                true
            }
            Poll::Pending => false,
        }
    }

    /// Cancels task `i`: its future is dropped at its current suspension point.
    pub fn cancel(&mut self, i: usize) {
        let t = &mut self.tasks[i];
        if t.fut.is_some() {
            let prev = crate::recstore::current_task();
            crate::recstore::set_current_task(i as u32 + 1);
            t.fut = None;
            crate::recstore::set_current_task(prev);
            t.dropped = true;
        }
    }

    pub fn take_result(&mut self, i: usize) -> Option<T> {
        self.tasks[i].result.take()
    }
    pub fn result(&self, i: usize) -> Option<&T> {
        self.tasks[i].result.as_ref()
    }

    /// Runs until all tasks are done, asking `chooser` which enabled task to poll next.
    /// `on_step` is called after every poll (task index, finished?). Returns Err when no task
    /// is enabled but some are unfinished (deadlock) or the step cap is hit.
    pub fn run<C: Chooser + ?Sized>(
        &mut self,
        chooser: &mut C,
        max_steps: usize,
        mut on_step: impl FnMut(&mut Self, usize, bool),
    ) -> Result<(), Stuck> {
        let mut steps = 0;
        loop {
            if self.all_done() {
                return Ok(());
            }
            let en = self.enabled();
            if en.is_empty() {
                return Err(Stuck::Deadlock(self.unfinished()));
            }
            if steps >= max_steps {
                return Err(Stuck::StepCap);
            }
            steps += 1;
            let c = if en.len() == 1 { 0 } else { chooser.choose(en.len()) };
            let i = en[c.min(en.len() - 1)];
            let done = self.poll(i);
            on_step(self, i, done);
        }
    }
}

#[derive(Debug, Clone, PartialEq, Eq)]
pub enum Stuck {
    Deadlock(Vec<usize>),
    StepCap,
}

pub trait Chooser {
    /// Chooses among `n >= 2` alternatives.
    fn choose(&mut self, n: usize) -> usize;
}

/// Stateless depth-first enumeration of choice sequences: each run replays the current
/// prefix and extends it with first alternatives; `next_run` backtracks.
#[derive(Default, Debug)]
pub struct DfsChooser {
    stack: Vec<(usize, usize)>,
    depth: usize,
    pub runs: u64,
}

impl DfsChooser {
    pub fn new() -> Self {
        Self::default()
    }
    pub fn begin_run(&mut self) {
        self.depth = 0;
        self.runs += 1;
    }
    /// Advances to the next unexplored choice sequence. Returns false when the space is exhausted.
    pub fn next_run(&mut self) -> bool {
        // choices deeper than what the last run used are stale
        self.stack.truncate(self.depth);
        while let Some((c, n)) = self.stack.pop() {
            if c + 1 < n {
                self.stack.push((c + 1, n));
                return true;
            }
        }
        false
    }
    pub fn current(&self) -> Vec<usize> {
        self.stack.iter().map(|(c, _)| *c).collect()
    }
}

impl Chooser for DfsChooser {
    fn choose(&mut self, n: usize) -> usize {
        let d = self.depth;
        self.depth += 1;
        if d < self.stack.len() {
            // replay; tolerate a different arity (nondeterministic target) by clamping
            let (c, m) = self.stack[d];
            if m != n {
                self.stack[d] = (c.min(n - 1), n);
            }
            self.stack[d].0
        } else {
            self.stack.push((0, n));
            0
        }
    }
}

pub struct RandChooser(pub crate::rng::Rng);
impl Chooser for RandChooser {
    fn choose(&mut self, n: usize) -> usize {
        self.0.usize(n)
    }
}

/// Replays a recorded sequence of choices, then falls back to 0.
pub struct ReplayChooser {
    pub choices: Vec<usize>,
    pub pos: usize,
}
impl Chooser for ReplayChooser {
    fn choose(&mut self, n: usize) -> usize {
        let c = self.choices.get(self.pos).copied().unwrap_or(0);
        self.pos += 1;
        c.min(n - 1)
    }
}

/// Records the choices made by an inner chooser.
pub struct Recording<'c, C: Chooser + ?Sized> {
    pub inner: &'c mut C,
    pub made: Vec<usize>,
}
impl<'c, C: Chooser + ?Sized> Chooser for Recording<'c, C> {
    fn choose(&mut self, n: usize) -> usize {
        let c = self.inner.choose(n);
        self.made.push(c);
        c
    }
}

/// Polls a single future to completion on the calling thread (no concurrency), using the same
/// waker discipline. Useful to run setup/teardown code outside any runtime.
pub fn drive<T>(fut: impl Future<Output = T>) -> T {
    let mut ex = ManualExec::new();
    let i = ex.spawn(fut);
    let mut spins = 0u64;
    loop {
        if ex.poll(i) {
            return ex.take_result(i).unwrap();
        }
        spins += 1;
        if spins > 50_000_000 {
            panic!("vcore::manual::drive: future did not complete");
        }
    }
}
